"""CLI: /venv/bin/python -m sa.check <property-id> [--tier quick|thorough]

Re-parses $WPULL_ROOT (default /repo) on every run, applies the property's rules and
follows the exit protocol of sa.report.
"""
import argparse
import importlib
import os
import sys
import traceback

sys.path.insert(0, os.path.dirname(os.path.dirname(os.path.abspath(__file__))))

from sa.index import Repo, AnalysisError          # noqa: E402
from sa.resolve import Resolver                   # noqa: E402
from sa.report import Check, analysis_error       # noqa: E402


class Ctx:
    def __init__(self, prop, tier):
        self.prop = prop
        self.tier = tier
        self.repo = Repo()
        self.res = Resolver(self.repo)
        self.check = Check(prop, tier)
        self._cfgs = {}

    def cfg(self, fi):
        from sa.cfg import CFG
        if fi.qual not in self._cfgs:
            self._cfgs[fi.qual] = CFG(fi.node)
        return self._cfgs[fi.qual]


def main(argv=None):
    ap = argparse.ArgumentParser()
    ap.add_argument('prop')
    ap.add_argument('--tier', default=os.environ.get('VERIF_TIER') or 'quick', choices=['quick', 'thorough'])
    args = ap.parse_args(argv)
    prop = args.prop.upper()
    try:
        try:
            mod = importlib.import_module('sa.rules.%s' % prop.lower())
        except ModuleNotFoundError as e:
            if e.name == 'sa.rules.%s' % prop.lower():
                return analysis_error(prop, 'no rules implemented for this property')
            raise
        ctx = Ctx(prop, args.tier)
        crashed = None
        try:
            mod.run(ctx)
        except AnalysisError as e:
            crashed = str(e)
        except Exception:
            tb = traceback.format_exc()
            sys.stderr.write(tb)
            crashed = 'internal error: %s' % tb.strip().splitlines()[-1]
        if crashed is not None:
            # the analysis could not be completed; violations already established are still reported
            if ctx.check.findings:
                print('ANALYSIS-ERROR property=%s (partial run) %s' % (prop, crashed))
                rc = ctx.check.finish(ctx.repo)
                return rc if rc == 1 else 2
            return analysis_error(prop, crashed)
        if ctx.check.obligations == 0:
            return analysis_error(prop, 'no rule instance was evaluated (vacuous run)')
        ctx.check.info['calls_resolution'] = dict(ctx.res.stats)
        if args.tier == 'thorough' and hasattr(mod, 'thorough'):
            mod.thorough(ctx)
        return ctx.check.finish(ctx.repo)
    except AnalysisError as e:
        return analysis_error(prop, str(e))
    except Exception:
        tb = traceback.format_exc()
        sys.stderr.write(tb)
        last = tb.strip().splitlines()[-1]
        return analysis_error(prop, 'internal error: %s' % last)


if __name__ == '__main__':
    sys.exit(main())
