"""CLI: /venv/bin/python -m sa.check <property-id> [--tier quick|thorough]

Re-parses $WPULL_ROOT (default /repo) on every run, applies the property's rules and
follows the exit protocol of sa.report.
"""
import argparse
import importlib
import os
import sys
import traceback

sys.path.insert(0, os.path.dirname(os.path.dirname(os.path.abspath(__file__))))

from sa.index import Repo, AnalysisError          # noqa: E402
from sa.resolve import Resolver                   # noqa: E402
from sa.report import Check, analysis_error       # noqa: E402


class Ctx:
    def __init__(self, prop, tier):
        self.prop = prop
        self.tier = tier
        self.repo = Repo()
        self.res = Resolver(self.repo)
        self.check = Check(prop, tier)
        self._cfgs = {}

    def cfg(self, fi):
        from sa.cfg import CFG
        if fi.qual not in self._cfgs:
            self._cfgs[fi.qual] = CFG(fi.node)
        return self._cfgs[fi.qual]


def sensitivity(ctx):
    """Thorough tier: apply the property's seeded-defect corpus (selftest/corpus + /verif/seeded) to scratch
    copies of the current tree and record how many the rules catch.  Measures rule sensitivity only: the result
    goes into the evidence and never changes the exit status (an edited tree may make a seed inapplicable)."""
    import json
    import subprocess
    import tempfile
    if os.environ.get('VERIF_NO_SENSITIVITY'):
        return
    verif = os.path.dirname(os.path.dirname(os.path.abspath(__file__)))
    fd, out = tempfile.mkstemp(prefix='wpull-sens-', suffix='.json')
    os.close(fd)
    try:
        env = dict(os.environ)
        env['VERIF_NO_SENSITIVITY'] = '1'
        r = subprocess.run(['/venv/bin/python', os.path.join(verif, 'selftest', 'run.py'), '--prop', ctx.prop, '-j', '16',
                            '--json', out], cwd=verif, env=env, capture_output=True, text=True, timeout=1500)
        with open(out) as fh:
            data = json.load(fh)
        summ = data.get('summary', {})
        ctx.check.info['seeded_defect_corpus'] = {
            'entries': len(data.get('results', [])), 'summary': summ,
            'not_as_expected': [x['id'] for x in data.get('results', []) if x['status'] not in ('detected', 'silent', 'skipped')][:20],
            'note': 'break entries must be reported (naming the rule), benign entries must stay silent; informational',
        }
        print('thorough: seeded-defect corpus for %s: %s' % (ctx.prop, ', '.join('%s=%s' % kv for kv in sorted(summ.items()))))
    except Exception as e:      # never affects the verdict
        ctx.check.info['seeded_defect_corpus'] = {'error': str(e)[:200]}
    try:
        # whole-tree behaviour-preserving rewrites (reformat, rename every local, logging in every function, shifted lines,
        # flipped comparisons, inverted if/else): this property's rules must stay silent on each
        r = subprocess.run(['/venv/bin/python', os.path.join(verif, 'selftest', 'benign_transforms.py'), '--prop', ctx.prop,
                            '--json', out], cwd=verif, env=env, capture_output=True, text=True, timeout=1500)
        with open(out) as fh:
            res = json.load(fh).get(ctx.prop, {})
        ctx.check.info['behaviour_preserving_rewrites'] = {
            'exit_code_per_rewrite': res, 'alarms': sorted(k for k, v in res.items() if v != 0),
            'note': 'every production module rewritten on a scratch copy; exit 0 expected for each; informational'}
        print('thorough: whole-tree behaviour-preserving rewrites for %s: %d applied, %d alarmed' % (
            ctx.prop, len(res), sum(1 for v in res.values() if v != 0)))
    except Exception as e:      # never affects the verdict
        ctx.check.info['behaviour_preserving_rewrites'] = {'error': str(e)[:200]}
    finally:
        try:
            os.remove(out)
        except OSError:
            pass


def main(argv=None):
    ap = argparse.ArgumentParser()
    ap.add_argument('prop')
    ap.add_argument('--tier', default=os.environ.get('VERIF_TIER') or 'quick', choices=['quick', 'thorough'])
    args = ap.parse_args(argv)
    prop = args.prop.upper()
    try:
        try:
            mod = importlib.import_module('sa.rules.%s' % prop.lower())
        except ModuleNotFoundError as e:
            if e.name == 'sa.rules.%s' % prop.lower():
                return analysis_error(prop, 'no rules implemented for this property')
            raise
        ctx = Ctx(prop, args.tier)
        crashed = None
        try:
            mod.run(ctx)
        except AnalysisError as e:
            crashed = str(e)
        except Exception:
            tb = traceback.format_exc()
            sys.stderr.write(tb)
            crashed = 'internal error: %s' % tb.strip().splitlines()[-1]
        if crashed is not None:
            # the analysis could not be completed; violations already established are still reported
            if ctx.check.findings:
                print('ANALYSIS-ERROR property=%s (partial run) %s' % (prop, crashed))
                rc = ctx.check.finish(ctx.repo)
                return rc if rc == 1 else 2
            return analysis_error(prop, crashed)
        if ctx.check.obligations == 0:
            return analysis_error(prop, 'no rule instance was evaluated (vacuous run)')
        ctx.check.info['calls_resolution'] = dict(ctx.res.stats)
        if args.tier == 'thorough':
            if hasattr(mod, 'thorough'):
                mod.thorough(ctx)
            sensitivity(ctx)
        return ctx.check.finish(ctx.repo)
    except AnalysisError as e:
        return analysis_error(prop, str(e))
    except Exception:
        tb = traceback.format_exc()
        sys.stderr.write(tb)
        last = tb.strip().splitlines()[-1]
        return analysis_error(prop, 'internal error: %s' % last)


if __name__ == '__main__':
    sys.exit(main())
