"""C19 - streaming content decoding equals one-shot decoding for every split.

Decides (DESIGN.md section 3, C19-D1..D4) the split-independence of the *format
decision* of the two sniffing decoders, the decode/flush discipline of the three HTTP
body readers and the error discipline (zlib.error -> ProtocolError, truncation
detectable).  It does not decide output equality for all payloads (values; zlib).

D1  wpull/decompression.py: every store of decoder state in a `decompress()` method may
    be control-dependent only on (a) decoder state, (b) a slice of constant length <= 1
    of the piece (every non-empty piece has it) or a longer constant prefix of a buffer
    whose length is tested first; never on "did processing the piece raise" or any
    other value computed from the whole piece.  Plus the facts that make the decision
    mean something: after a sniffing path the next piece takes the steady path with the
    same action, the gzip magic is a prefix of 1f 8b and selects the inflater, the
    deflate decoder tries zlib-wrapped first and raw (-MAX_WBITS) on zlib.error.
D2  wpull/protocol/http/stream.py: Content-Encoding table, decoder set up before any
    non-raw reader, per-read decode of exactly the content bytes and its output written,
    flush after the loop on every normal path and its output written.
D3  both uses of the decoder object are guarded, inside `try` with a handler for
    zlib.error that cannot complete normally and raises ProtocolError.
D4  the decoder's flush reaches zlib's flush exactly when a zlib stream was selected, and
    consults `.eof` (the only truncation signal) before reporting success.
"""
import ast
import copy

from ..index import dotted, walk_no_nested, norm_text, AnalysisError
from ..cfg import describe_path
from ..locks import node_expr
from .. import util as U
from .. import flow as F

DEC = 'wpull.decompression'
STR = 'wpull.protocol.http.stream'
STREAM = STR + ':Stream'
CHUNKED = 'wpull.protocol.http.chunked:ChunkedTransferReader'
PROTOCOL_ERROR = 'wpull.errors:ProtocolError'
GZIP_MAGIC = b'\x1f\x8b'
MAX_WBITS = 15
# Content-Encoding token -> decoder class (RFC 7231 s3.1.2.1: x-gzip is an alias of gzip)
ENCODINGS = {'gzip': DEC + ':GzipDecompressor', 'x-gzip': DEC + ':GzipDecompressor',
             'deflate': DEC + ':DeflateDecompressor'}
REQUIRED_ENCODINGS = ('gzip', 'deflate')
ZLIB_ERROR_ANCESTORS = ('zlib.error', 'Exception', 'BaseException')


# ====================================================================== small helpers
def _self_stores(fn):
    """[(stmt, field, value, aug)] for stores to self.<field> in fn."""
    out = []
    for n in walk_no_nested(fn):
        if isinstance(n, ast.Assign):
            for t in n.targets:
                if U.is_self_attr(t):
                    out.append((n, t.attr, n.value, False))
        elif isinstance(n, ast.AugAssign) and U.is_self_attr(n.target):
            out.append((n, n.target.attr, n.value, True))
        elif isinstance(n, ast.AnnAssign) and U.is_self_attr(n.target) and n.value is not None:
            out.append((n, n.target.attr, n.value, False))
    return out


def _const_bound(sub):
    """Number of leading elements a subscript can look at, if constant: x[:k] -> k,
    x[0:k] -> k, x[i] -> i+1; else None."""
    if not isinstance(sub, ast.Subscript):
        return None
    s = sub.slice
    if isinstance(s, ast.Slice):
        lo_ok = s.lower is None or (isinstance(s.lower, ast.Constant) and s.lower.value == 0)
        if lo_ok and s.step is None and isinstance(s.upper, ast.Constant) and isinstance(s.upper.value, int) \
                and not isinstance(s.upper.value, bool) and s.upper.value >= 0:
            return s.upper.value
        return None
    if isinstance(s, ast.Constant) and isinstance(s.value, int) and not isinstance(s.value, bool) and s.value >= 0:
        return s.value + 1
    return None


def _is_int_const(e):
    return isinstance(e, ast.Constant) and isinstance(e.value, int) and not isinstance(e.value, bool)


def _is_len(e):
    return isinstance(e, ast.Call) and isinstance(e.func, ast.Name) and e.func.id == 'len' and len(e.args) == 1 \
        and not e.keywords


def _truths(test, branch):
    """{field: bool} facts about `self.<field>` truthiness implied by `test` having
    truth value `branch`."""
    if isinstance(test, ast.UnaryOp) and isinstance(test.op, ast.Not):
        return _truths(test.operand, not branch)
    if U.is_self_attr(test):
        return {test.attr: branch}
    if isinstance(test, ast.BoolOp):
        if (isinstance(test.op, ast.And) and branch) or (isinstance(test.op, ast.Or) and not branch):
            out = {}
            for v in test.values:
                out.update(_truths(v, branch))
            return out
        return {}
    if isinstance(test, ast.Compare) and len(test.ops) == 1 and U.is_self_attr(test.left) \
            and isinstance(test.comparators[0], ast.Constant) and test.comparators[0].value is None:
        if isinstance(test.ops[0], (ast.Is, ast.Eq)):
            return {test.left.attr: not branch}
        if isinstance(test.ops[0], (ast.IsNot, ast.NotEq)):
            return {test.left.attr: branch}
    return {}


def _value_truth(v):
    if isinstance(v, ast.Constant):
        return bool(v.value)
    if isinstance(v, ast.Call):
        return True          # a freshly constructed object
    return None


def _fold_wbits(e):
    """Fold an integer expression over zlib.MAX_WBITS (= 15); None if not foldable."""
    if _is_int_const(e):
        return e.value
    if dotted(e) in ('zlib.MAX_WBITS', 'MAX_WBITS'):
        return MAX_WBITS
    if isinstance(e, ast.UnaryOp) and isinstance(e.op, ast.USub):
        v = _fold_wbits(e.operand)
        return None if v is None else -v
    if isinstance(e, ast.BinOp) and isinstance(e.op, (ast.Add, ast.Sub, ast.BitOr)):
        a, b = _fold_wbits(e.left), _fold_wbits(e.right)
        if a is None or b is None:
            return None
        if isinstance(e.op, ast.Add):
            return a + b
        if isinstance(e.op, ast.Sub):
            return a - b
        return a | b
    return None


def _is_zlib_ctor(repo, module, call):
    if not isinstance(call, ast.Call):
        return False
    d = dotted(call.func)
    if d is None:
        return False
    if d == 'zlib.decompressobj':
        return True
    r = repo.resolve_name(module, d)
    return bool(r) and r[0] == 'external' and r[1] == 'zlib.decompressobj'


def _ctor_wbits(call):
    """'default' | int | None (not foldable)."""
    e = U.kwarg(call, 'wbits', 0)
    if e is None:
        return 'default'
    return _fold_wbits(e)


def _handler_catches_zlib(repo, module, h):
    if h.type is None:
        return True
    elts = h.type.elts if isinstance(h.type, ast.Tuple) else [h.type]
    for e in elts:
        c = repo.canon_exc(module, e)
        if c in ZLIB_ERROR_ANCESTORS:
            return True
        if c is None:
            # a name bound to a tuple constant of exception classes
            try:
                v = repo.fold(module, e)
            except ValueError:
                v = None
            if isinstance(v, tuple) and any(str(x) in ZLIB_ERROR_ANCESTORS for x in v):
                return True
    return False


def _contains(root, node):
    return any(n is node for n in ast.walk(root))


def _canon(node, piece):
    """Normalised text with the piece parameter renamed positionally."""
    class T(ast.NodeTransformer):
        def visit_Name(self, n):
            if n.id == piece:
                return ast.copy_location(ast.Name(id='PIECE', ctx=n.ctx), n)
            return n
    return norm_text(T().visit(copy.deepcopy(node)))


# ====================================================================== control dependence
class Dep:
    """Control dependence over a function's CFG.

    Edges kept: normal edges, and exception edges that are *caught inside the function*
    (an exception that leaves the function decides nothing about later state).
    AttributeError edges of plain attribute access are dropped."""

    def __init__(self, cfg):
        self.cfg = cfg
        self.succ = {}
        for n in cfg.nodes:
            out = []
            for d, k in n.succ:
                if k == 'x:attr':
                    continue
                if k.startswith('x:') and d is cfg.xexit and k not in ('x:raise', 'x:reraise', 'x:uncaught'):
                    continue
                out.append((d, k))
            self.succ[n.id] = out
        self.byid = {n.id: n for n in cfg.nodes}
        # reachable part
        seen = {cfg.entry.id}
        todo = [cfg.entry]
        while todo:
            n = todo.pop()
            for d, k in self.succ[n.id]:
                if d.id not in seen:
                    seen.add(d.id)
                    todo.append(d)
        self.live = seen
        self._pdom = None
        self._cd = None

    SINK = -1

    def _succ_ids(self, nid):
        n = self.byid[nid]
        if n is self.cfg.exit or n is self.cfg.xexit:
            return [self.SINK]
        out = [d.id for d, k in self.succ[nid] if d.id in self.live]
        return out or [self.SINK]

    def pdom(self):
        if self._pdom is not None:
            return self._pdom
        ids = sorted(self.live)
        allset = set(ids) | {self.SINK}
        pd = {i: set(allset) for i in ids}
        pd[self.SINK] = {self.SINK}
        changed = True
        while changed:
            changed = False
            for i in reversed(ids):
                new = set.intersection(*[pd[s] for s in self._succ_ids(i)]) | {i}
                if new != pd[i]:
                    pd[i] = new
                    changed = True
        self._pdom = pd
        return pd

    def direct(self):
        """node id -> [(branch node, edge kind)] it is directly control-dependent on."""
        if self._cd is not None:
            return self._cd
        pd = self.pdom()
        cd = {}
        for i in self.live:
            n = self.byid[i]
            outs = [(d, k) for d, k in self.succ[i] if d.id in self.live]
            if len({d.id for d, k in outs}) < 2:
                continue
            for d, k in outs:
                for s in pd[d.id]:
                    if s == self.SINK:
                        continue
                    if s in pd[i] and s != i:
                        continue
                    cd.setdefault(s, [])
                    if (n, k) not in cd[s]:
                        cd[s].append((n, k))
        self._cd = cd
        return cd

    def closure(self, node):
        """All (branch node, edge kind) the node is transitively control-dependent on."""
        cd = self.direct()
        out = []
        seen = set()
        todo = [node.id]
        while todo:
            i = todo.pop()
            for n, k in cd.get(i, []):
                if (n.id, k) in seen:
                    continue
                seen.add((n.id, k))
                out.append((n, k))
                todo.append(n.id)
        return out

    def side_of(self, ifnode, target):
        """True/False if `target` is reachable from `ifnode` only through its T / F
        edge (without re-entering ifnode), else None."""
        def reach(kind):
            seen = set()
            todo = [d for d, k in self.succ[ifnode.id] if k == kind]
            while todo:
                n = todo.pop()
                if n.id in seen or n is ifnode:
                    continue
                seen.add(n.id)
                todo.extend(d for d, k in self.succ[n.id])
            return seen
        t, f = target.id in reach('T'), target.id in reach('F')
        if t and not f:
            return True
        if f and not t:
            return False
        return None

    def paths(self, limit=400):
        """All ENTRY->EXIT paths [(node, edge kind taken)] (functions without loops)."""
        out = []
        cfg = self.cfg

        def dfs(n, acc, seen):
            if len(out) > limit:
                raise AnalysisError('too many paths in %s' % getattr(cfg.fn, 'name', '?'))
            if n is cfg.exit:
                out.append(acc)
                return
            if n is cfg.xexit:
                return
            for d, k in self.succ[n.id]:
                if d.id in seen:
                    raise AnalysisError('loop in %s: outside the language of the C19 path rules'
                                        % getattr(cfg.fn, 'name', '?'))
                dfs(d, acc + [(n, k)], seen | {d.id})
        dfs(cfg.entry, [], {cfg.entry.id})
        return out


# ====================================================================== D1: one decoder's decompress()
class Sniff:
    """Facts about one `decompress(self, piece)` method."""

    def __init__(self, ctx, fi):
        self.ctx = ctx
        self.repo = ctx.repo
        self.fi = fi
        self.fn = fi.node
        params = fi.params
        if len(params) < 2:
            raise AnalysisError('%s takes no piece argument' % fi.qual)
        self.piece = params[1]
        self.cfg = ctx.cfg(fi)
        self.dep = Dep(self.cfg)
        self.defs = U.local_defs(self.fn)
        self.stores = _self_stores(self.fn)
        self._taint()
        self.dom = None

    # ---------------------------------------------------------------- taint
    def unbounded(self, e):
        """Does e use the piece (or something computed from all of it) other than
        through a subscript of constant extent?"""
        if e is None:
            return False
        todo = [e]
        while todo:
            n = todo.pop()
            if isinstance(n, (ast.Lambda, ast.FunctionDef)):
                continue
            if isinstance(n, ast.Subscript) and _const_bound(n) is not None:
                continue
            if isinstance(n, ast.Name) and (n.id == self.piece or n.id in self.tlocals):
                return True
            if U.is_self_attr(n) and n.attr in self.tfields:
                return True
            todo.extend(ast.iter_child_nodes(n))
        return False

    def _taint(self):
        self.tlocals = set()
        self.tfields = set()
        changed = True
        while changed:
            changed = False
            for name, ds in self.defs.items():
                if name in self.tlocals or name == self.piece:
                    continue
                if any(kind != 'param' and v is not None and self.unbounded(v) for v, kind, _ in ds):
                    self.tlocals.add(name)
                    changed = True
            for st, field, value, aug in self.stores:
                if field not in self.tfields and self.unbounded(value):
                    self.tfields.add(field)
                    changed = True

    def is_piece(self, e):
        return isinstance(e, ast.Name) and e.id == self.piece

    # ---------------------------------------------------------------- guards
    def _len_bound(self, test, truth, base_text):
        """Lower bound on len(base) established by `test` being `truth`."""
        if isinstance(test, ast.UnaryOp) and isinstance(test.op, ast.Not):
            return self._len_bound(test.operand, not truth, base_text)
        if isinstance(test, ast.BoolOp):
            if (isinstance(test.op, ast.And) and truth) or (isinstance(test.op, ast.Or) and not truth):
                return max(self._len_bound(v, truth, base_text) for v in test.values)
            return 0
        if norm_text(test) == base_text:
            return 1 if truth else 0
        if isinstance(test, ast.Compare) and len(test.ops) == 1:
            a, op, b = test.left, test.ops[0], test.comparators[0]
            flip = {ast.Lt: ast.Gt, ast.Gt: ast.Lt, ast.LtE: ast.GtE, ast.GtE: ast.LtE, ast.Eq: ast.Eq, ast.NotEq: ast.NotEq}
            neg = {ast.Lt: ast.GtE, ast.GtE: ast.Lt, ast.Gt: ast.LtE, ast.LtE: ast.Gt, ast.Eq: ast.NotEq, ast.NotEq: ast.Eq}
            opt = type(op)
            if opt not in flip:
                return 0
            if _is_len(b) and _is_int_const(a):
                a, b, opt = b, a, flip[opt]
            if not (_is_len(a) and _is_int_const(b) and norm_text(a.args[0]) == base_text):
                return 0
            if not truth:
                opt = neg[opt]
            c = b.value
            if opt is ast.GtE or opt is ast.Eq:
                return c
            if opt is ast.Gt:
                return c + 1
        return 0

    def guarded(self, base, k, node, conj=()):
        """len(base) >= k holds whenever `node` evaluates its test."""
        bt = norm_text(base)
        for g in conj:
            if self._len_bound(g, True, bt) >= k:
                return True
        if self.dom is None:
            self.dom = self.cfg.dominators()
        for n in self.cfg.nodes:
            if n.kind == 'if' and n is not node and n.id in self.dom[node.id]:
                side = self.dep.side_of(n, node)
                if side is not None and self._len_bound(n.stmt.test, side, bt) >= k:
                    return True
        return False

    # ---------------------------------------------------------------- tests a selector may depend on
    def test_reason(self, e, node, conj=(), flags=None):
        """None if the test may decide the format; else a reason (str)."""
        if isinstance(e, ast.UnaryOp) and isinstance(e.op, ast.Not):
            return self.test_reason(e.operand, node, conj, flags)
        if isinstance(e, ast.BoolOp):
            acc = list(conj)
            for v in e.values:
                r = self.test_reason(v, node, tuple(acc), flags)
                if r:
                    return r
                if isinstance(e.op, ast.And):
                    acc.append(v)
            return None
        if isinstance(e, ast.Compare):
            ops = [e.left] + list(e.comparators)
            if len(ops) == 2:
                for a, b, flipped in ((ops[0], ops[1], False), (ops[1], ops[0], True)):
                    if _is_len(a) and _is_int_const(b):
                        if self.is_piece(a.args[0]) or (isinstance(a.args[0], ast.Name) and a.args[0].id in self.tlocals
                                                        and not self._is_buffer_local(a.args[0].id)):
                            # only "is the piece empty" may be asked of the piece's length
                            flip = {ast.Lt: ast.Gt, ast.Gt: ast.Lt, ast.LtE: ast.GtE, ast.GtE: ast.LtE}
                            opt = type(e.ops[0])
                            if flipped:
                                opt = flip.get(opt, opt)
                            if (opt, b.value) in ((ast.Gt, 0), (ast.GtE, 1), (ast.Eq, 0), (ast.NotEq, 0), (ast.Lt, 1), (ast.LtE, 0)):
                                return None
                            return 'the length of the piece (`%s`)' % _canon(e, self.piece)
                        return None        # the length of an accumulating buffer: the guard itself
                    if self.is_piece(a) and isinstance(b, ast.Constant) and isinstance(b.value, (bytes, str)) and len(b.value) == 0:
                        return None
            for o in ops:
                r = self.operand_reason(o, node, conj, flags, truth=False)
                if r:
                    return r
            return None
        return self.operand_reason(e, node, conj, flags, truth=True)

    def _is_buffer_local(self, name):
        """A local that is state + piece (an accumulating buffer), e.g. data = self._buf + value."""
        for v, kind, _ in self.defs.get(name, []):
            if v is None or not any(U.is_self_attr(x) for x in ast.walk(v)):
                return False
        return True

    def operand_reason(self, o, node, conj, flags, truth):
        if isinstance(o, ast.Constant):
            return None
        if isinstance(o, ast.Name):
            if o.id == self.piece:
                return None if truth else 'the whole piece (`%s`)' % _canon(o, self.piece)
            if o.id in self.tlocals:
                return 'a value computed from the whole piece (`%s`)' % o.id
            return self._local_reason(o.id, node, flags)
        if U.is_self_attr(o):
            if o.attr in self.tfields:
                return 'a field computed from whole pieces (`self.%s`)' % o.attr
            return None
        if isinstance(o, ast.Subscript):
            k = _const_bound(o)
            if k is None:
                return 'a slice of non-constant extent (`%s`)' % _canon(o, self.piece) if self.unbounded(o) else None
            if k <= 1 or self.guarded(o.value, k, node, conj):
                return None
            return 'a %d-byte prefix (`%s`) that a shorter first piece does not contain' % (k, _canon(o, self.piece))
        if isinstance(o, ast.Call):
            if isinstance(o.func, ast.Attribute) and o.func.attr in ('startswith',) and len(o.args) == 1 \
                    and isinstance(o.args[0], ast.Constant) and isinstance(o.args[0].value, (bytes, str)):
                k = len(o.args[0].value)
                if k <= 1 or self.guarded(o.func.value, k, node, conj):
                    return None
                return 'a %d-byte prefix (`%s`) that a shorter first piece does not contain' % (k, _canon(o, self.piece))
            if _is_len(o):
                return None if truth else self.operand_reason(o.args[0], node, conj, flags, truth=False)
            if self.unbounded(o):
                return 'the result of processing the whole piece (`%s`)' % _canon(o, self.piece)
            return self._prefix_reason(o, node, conj, flags)
        if self.unbounded(o):
            return 'a value computed from the whole piece (`%s`)' % _canon(o, self.piece)
        return self._prefix_reason(o, node, conj, flags)

    def _local_reason(self, name, node, flags, _depth=0):
        """An (untainted) local used in a deciding test: its definitions must be split-independent too."""
        for v, kind, st in self.defs.get(name, []):
            if kind == 'param':
                continue
            if flags is not None and st not in flags:
                flags.append(st)              # control dependence of the definition is checked by the caller
            dn = self.cfg.nodes_of(st)
            r = self._prefix_reason(v, dn[0] if dn else node, (), flags, _depth + 1)
            if r:
                return r
        return None

    def _prefix_reason(self, e, node, conj, flags=None, _depth=0):
        """Constant-extent subscripts of the piece / a buffer nested in e that look beyond what is known to be there."""
        if e is None or _depth > 6:
            return None
        for s_ in ast.walk(e):
            if isinstance(s_, ast.Name) and s_.id != self.piece and s_.id in self.defs and s_.id not in self.tlocals:
                r = self._local_reason(s_.id, node, flags, _depth)
                if r:
                    return r
        for s_ in ast.walk(e):
            k = _const_bound(s_)
            if k is not None and k > 1 and (self.is_piece(s_.value) or self.unbounded(s_.value)) \
                    and not self.guarded(s_.value, k, node, conj):
                return 'a %d-byte prefix (`%s`) that a shorter first piece does not contain' % (k, _canon(s_, self.piece))
        return None

    def dep_reason(self, n, k, flags):
        """Why a state store must not depend on branch (n, k); None if it may."""
        if n.kind == 'dispatch':
            return None
        if n.kind in ('if', 'while') and k in ('T', 'F'):
            r = self.test_reason(n.stmt.test, n, (), flags)
            return r and 'the branch on %s' % r
        e = node_expr(n)
        if e is not None and self.unbounded(e):
            return 'whether `%s` raised, i.e. on the content and length of the whole piece' % _canon(e, self.piece)
        return None

    # ---------------------------------------------------------------- paths
    def path_infos(self):
        return [_path_info(p, self.stores) for p in self.dep.paths()]

    def action(self, ret):
        if ret is None:
            return ('none',)
        e = U.expand_locals(self.fn, ret, self.defs)
        if self.is_piece(e):
            return ('identity',)
        if isinstance(e, ast.Constant) and e.value in (b'', ''):
            return ('empty',)
        if isinstance(e, ast.Call) and isinstance(e.func, ast.Attribute) and e.func.attr == 'decompress' \
                and len(e.args) == 1 and not e.keywords and (self.is_piece(e.args[0]) or (
                    isinstance(e.args[0], (ast.Name, ast.Attribute)) and self.unbounded(e.args[0]))):
            # the piece itself, or a buffer that holds everything received so far
            return ('decode', norm_text(e.func.value))
        return ('other', _canon(e, self.piece))


class PathInfo:
    """One ENTRY->EXIT path: ordered `items` (('cond', test, branch) | ('store', field, value, stmt)),
    the returned expression, and whether the function fell off its end."""

    def __init__(self, path, items, ret, fell):
        self.path = path
        self.items = items
        self.ret = ret
        self.fell = fell
        self.stores = [(it[1], it[2], it[3]) for it in items if it[0] == 'store']
        self.conds = [(it[1], it[2]) for it in items if it[0] == 'cond']

    def fields(self):
        out = set()
        for it in self.items:
            if it[0] == 'cond':
                out |= {x.attr for x in ast.walk(it[1]) if U.is_self_attr(x)}
            else:
                out.add(it[1])
        return out


def _path_info(path, stores):
    items, ret, fell = [], None, True
    for n, k in path:
        if n.kind == 'if' and k in ('T', 'F'):
            items.append(('cond', n.stmt.test, k == 'T'))
        elif n.kind == 'stmt' and not k.startswith('x:'):
            for st, field, value, aug in stores:
                if st is n.stmt:
                    items.append(('store', field, value, st))
        elif n.kind == 'return' and not k.startswith('x:'):
            ret, fell = n.stmt.value, False
    return PathInfo(path, items, ret, fell)


def _eval3(test, env):
    """Three-valued truth of a test over `self.<field>` truthiness facts (None = unknown)."""
    if isinstance(test, ast.UnaryOp) and isinstance(test.op, ast.Not):
        v = _eval3(test.operand, env)
        return None if v is None else not v
    if U.is_self_attr(test):
        return env.get(test.attr)
    if isinstance(test, ast.Constant):
        return bool(test.value)
    if isinstance(test, ast.BoolOp):
        vals = [_eval3(v, env) for v in test.values]
        if isinstance(test.op, ast.And):
            return False if any(v is False for v in vals) else True if all(v is True for v in vals) else None
        return True if any(v is True for v in vals) else False if all(v is False for v in vals) else None
    if isinstance(test, ast.Compare) and len(test.ops) == 1 and U.is_self_attr(test.left) \
            and isinstance(test.comparators[0], ast.Constant) and test.comparators[0].value is None:
        v = env.get(test.left.attr)          # the falsy value of these fields is None/False by construction
        if v is None:
            return None
        if isinstance(test.ops[0], (ast.Is, ast.Eq)):
            return not v
        if isinstance(test.ops[0], (ast.IsNot, ast.NotEq)):
            return v
    return None


def _sim(items, env):
    """Run a path over field-truth environment env; the resulting env, or None if a test contradicts it."""
    env = dict(env)
    for it in items:
        if it[0] == 'cond':
            v = _eval3(it[1], env)
            if v is not None and v != it[2]:
                return None
            for f, b in _truths(it[1], it[2]).items():
                if env.get(f) is None:
                    env[f] = b            # an unknown field is now known from the branch taken
        else:
            env[it[1]] = _value_truth(it[2])
    return env


def _envs(fields, fixed=None):
    """All total truth assignments of `fields` that agree with the known entries of `fixed`."""
    import itertools
    fields = sorted(fields)
    fixed = fixed or {}
    free = [f for f in fields if fixed.get(f) is None]
    for vals in itertools.product((True, False), repeat=len(free)):
        env = {f: fixed[f] for f in fields if fixed.get(f) is not None}
        env.update(zip(free, vals))
        yield env


def _fmt_action(a):
    fixed = {'identity': 'returns the piece unchanged', 'empty': "returns b''", 'none': 'returns None'}
    if a[0] in fixed:
        return fixed[a[0]]
    return 'returns %s' % (a[1] + '.decompress(PIECE)' if a[0] == 'decode' else a[1])


def _check_sniffer(ctx, cls, role):
    """D1 for one decoder class.  role: 'gzip' | 'deflate' | None (not wired).
    Returns the Sniff (or None when the class has no own decompress)."""
    repo, ck = ctx.repo, ctx.check
    fi = cls.methods.get('decompress')
    if fi is None:
        return None
    sn = Sniff(ctx, fi)
    where = fi.qual
    piece = sn.piece
    state_stores = [(st, f, v, aug) for st, f, v, aug in sn.stores if f not in sn.tfields]
    if not state_stores:
        ck.ok('C19-D1', where, 'no decoder state is written in decompress(): no format decision to make', nontrivial=False)
        return sn

    # ---- (a) control dependence of every state store
    flags = []
    work = [(st, 'self.%s' % f, v) for st, f, v, aug in state_stores]
    done = set()
    while work:
        st, label, value = work.pop(0)
        if id(st) in done:
            continue
        done.add(id(st))
        nodes = sn.cfg.nodes_of(st)
        if not nodes:
            raise AnalysisError('%s: statement not in CFG: %s' % (where, norm_text(st)))
        deps = []
        for n in nodes:
            for d in sn.dep.closure(n):
                if d not in deps:
                    deps.append(d)
        before = len(flags)
        reasons = []
        for n, k in deps:
            r = sn.dep_reason(n, k, flags)
            if r:
                reasons.append((n, k, r))
        if value is not None and not isinstance(value, ast.Call) and any(
                isinstance(x, ast.Name) and x.id == piece for x in ast.walk(value)):
            r = sn.test_reason(value, nodes[0], (), flags)
            if r:
                reasons.append((nodes[0], '=', 'the stored value depends on ' + r))
        for fst in flags[before:]:
            work.append((fst, 'flag', getattr(fst, 'value', None)))
        state_fields = {f for _st, f, _v, _aug in state_stores}
        if label != 'flag':
            tested = any(n.kind in ('if', 'while') and any(U.is_self_attr(x) and x.attr in state_fields for x in ast.walk(n.stmt.test))
                         for n, k in deps)
            if tested:
                # ... and the store is unreachable once a decision has been taken: remove every edge that implies "undecided"
                def undecided_truth(t):
                    if isinstance(t, ast.UnaryOp) and isinstance(t.op, ast.Not):
                        r = undecided_truth(t.operand)
                        return None if r is None else not r
                    if U.is_self_attr(t) and t.attr in state_fields:
                        return False
                    if isinstance(t, ast.Compare) and len(t.ops) == 1 and U.is_self_attr(t.left) and t.left.attr in state_fields \
                            and isinstance(t.comparators[0], ast.Constant) and t.comparators[0].value is None:
                        return isinstance(t.ops[0], ast.Is)
                    if isinstance(t, ast.BoolOp):
                        vals = [undecided_truth(v) for v in t.values]
                        if isinstance(t.op, ast.And):
                            if any(v is False for v in vals):
                                return False
                            return True if all(v is True for v in vals) else None
                        if any(v is True for v in vals):
                            return True
                        return False if all(v is False for v in vals) else None
                    return None

                def decided_edge(a, b, k):
                    if a.kind in ('if', 'while') and k in ('T', 'F'):
                        u = undecided_truth(a.stmt.test)
                        if u is not None and (k == 'T') == u:
                            return False
                    return True
                for n in nodes:
                    pth = sn.cfg.find_path(sn.cfg.entry, lambda m, n=n: m is n, edge_ok=decided_edge)
                    if pth is not None:
                        tested = False
            ck.expect(tested, 'C19-D1', where, '%s only while the decoder is undecided' % _canon(st, piece),
                      'decoder state is (re)written by `%s` without a dominating test of the decoder state: the format decision can be '
                      'taken again on a later piece (e.g. a corrupt zlib stream silently restarts as raw deflate), so the result '
                      'depends on where the body is cut and corruption is not reported' % norm_text(st), fi.loc(st))
        if reasons:
            for n, k, r in reasons:
                src = node_expr(n) if n.kind not in ('if', 'while') else n.stmt.test
                ck.bad('C19-D1', where, '%s <- %s' % (_canon(st, piece), _canon(src, piece) if src is not None else n.kind),
                       'decoder state written by `%s` depends on %s: the decision differs between a one-byte and a whole-body '
                       'first piece, so the streamed output is not the one-shot output' % (norm_text(st), r), fi.loc(st))
        else:
            ck.ok('C19-D1', where, '`%s` depends only on %s' % (
                _canon(st, piece), ', '.join(sorted({'`%s`' % _canon(n.stmt.test, piece) if n.kind in ('if', 'while')
                                                    else n.kind for n, k in deps})) or 'nothing'))

    # ---- (b) after a sniffing path the next piece takes a steady path with the same action
    infos = sn.path_infos()
    sel_fields = {f for st, f, v, aug in state_stores}
    first = [p for p in infos if any(f in sel_fields for f, v, st in p.stores)]
    steady = [p for p in infos if not any(f in sel_fields for f, v, st in p.stores)]
    fields = set(sel_fields)
    for p in infos:
        fields |= p.fields()
    if len(fields) > 8:
        raise AnalysisError('%s: too many state fields for the path rules' % where)
    for p in first:
        posts = []
        for env0 in _envs(fields):
            post = _sim(p.items, env0)
            if post is not None and post not in posts:
                posts.append(post)
        act = sn.action(p.ret)
        last = p.stores[-1][2]
        for have in posts:
            comp = [s for s in steady if any(_sim(s.items, e) is not None for e in _envs(fields, have))]
            desc = '; '.join('%s=%s' % (f, {True: 'truthy', False: 'falsy', None: '?'}[have.get(f)]) for f in sorted(sel_fields))
            cons = 'after {%s}: %s' % (desc, _fmt_action(act))
            if act[0] in ('none', 'empty', 'other'):
                ck.bad('C19-D1', where, cons, 'the path that decides the format %s instead of the (decoded or unchanged) piece: '
                       'the first piece is lost or mangled' % _fmt_action(act), fi.loc(last))
                continue
            if not comp:
                ck.bad('C19-D1', where, cons, 'after this path no steady-state path of decompress() is enabled: the next piece is '
                       'sniffed again, so the result depends on where the body is cut', fi.loc(last))
                continue
            diff = [s for s in comp if sn.action(s.ret) != act]
            if diff:
                ck.bad('C19-D1', where, cons, 'the piece that decides the format %s but the following pieces %s: first and later '
                       'pieces are treated differently' % (_fmt_action(act), _fmt_action(sn.action(diff[0].ret))), fi.loc(last))
            else:
                ck.ok('C19-D1', where, cons + ' = steady state')
    if not steady:
        ck.bad('C19-D1', where, 'steady-state path', 'every path of decompress() rewrites the decoder state: each piece is sniffed', fi.loc())

    # ---- (c) role specific facts
    if role == 'gzip':
        _check_gzip_magic(ctx, sn, infos)
    if role == 'deflate':
        _check_deflate_candidates(ctx, sn)
    return sn


def _magic_tests(sn):
    """[(node expr, const, extent, negated)] prefix-vs-constant tests in decompress()."""
    out = []
    for n in walk_no_nested(sn.fn):
        if isinstance(n, ast.Compare) and len(n.ops) == 1 and isinstance(n.ops[0], (ast.Eq, ast.NotEq)):
            for a, b in ((n.left, n.comparators[0]), (n.comparators[0], n.left)):
                if isinstance(a, ast.Subscript) and _const_bound(a) is not None and isinstance(a.slice, ast.Slice) \
                        and isinstance(b, ast.Constant) and isinstance(b.value, bytes):
                    out.append((n, b.value, _const_bound(a), isinstance(n.ops[0], ast.NotEq)))
                elif isinstance(a, ast.Subscript) and _const_bound(a) == 1 and not isinstance(a.slice, ast.Slice) \
                        and _is_int_const(b) and 0 <= b.value < 256:
                    out.append((n, bytes([b.value]), 1, isinstance(n.ops[0], ast.NotEq)))      # PIECE[0] == 0x1f
        elif isinstance(n, ast.Call) and isinstance(n.func, ast.Attribute) and n.func.attr == 'startswith' and len(n.args) == 1 \
                and isinstance(n.args[0], ast.Constant) and isinstance(n.args[0].value, bytes):
            out.append((n, n.args[0].value, len(n.args[0].value), False))
    return out


def _polarity(test, expr, branch):
    """Truth of sub-expression `expr` implied by `test` == branch, or None."""
    if test is expr:
        return branch
    if isinstance(test, ast.UnaryOp) and isinstance(test.op, ast.Not):
        return _polarity(test.operand, expr, not branch)
    if isinstance(test, ast.BoolOp):
        if (isinstance(test.op, ast.And) and branch) or (isinstance(test.op, ast.Or) and not branch):
            for v in test.values:
                r = _polarity(v, expr, branch)
                if r is not None:
                    return r
    return None


def _check_gzip_magic(ctx, sn, infos):
    ck, fi = ctx.check, sn.fi
    where = fi.qual
    tests = _magic_tests(sn)
    if not tests:
        ck.bad('C19-D1', where, 'gzip magic test', 'decompress() no longer compares a constant-length prefix with the gzip magic '
               '1f 8b: identity bodies and gzip bodies are not told apart', fi.loc())
        return
    for expr, const, extent, negated in tests:
        cons = _canon(expr, sn.piece)
        if not (len(const) >= 1 and len(const) == extent and GZIP_MAGIC.startswith(const)):
            ck.bad('C19-D1', where, cons, 'the sniffed constant %r (extent %d) is not a prefix of the gzip magic 1f 8b of the '
                   'same length: gzip bodies are passed through undecoded' % (const, extent), fi.loc(expr))
            continue
        okp = True
        seen = 0
        for p in infos:
            for test, b in p.conds:
                pol = _polarity(test, expr, b)
                if pol is None:
                    continue
                seen += 1
                matched = (not pol) if negated else pol
                act = sn.action(p.ret)
                if matched and act[0] != 'decode':
                    okp = False
                    ck.bad('C19-D1', where, '%s -> %s' % (cons, _fmt_action(act)),
                           'a piece that starts with the gzip magic is not handed to the inflater', fi.loc(expr))
                if not matched and act[0] != 'identity':
                    okp = False
                    ck.bad('C19-D1', where, 'not %s -> %s' % (cons, _fmt_action(act)),
                           'a piece that does not start with the gzip magic is not returned unchanged', fi.loc(expr))
        if okp:
            ck.ok('C19-D1', where, '%s: prefix of the gzip magic; match -> inflate, no match -> identity (%d path(s))' % (cons, seen))


def _check_deflate_candidates(ctx, sn):
    """zlib-wrapped first, raw deflate in the zlib.error handler."""
    repo, ck, fi = ctx.repo, ctx.check, sn.fi
    where = fi.qual
    pm = U.parents(sn.fn)
    ctors = []
    for st, field, value, aug in sn.stores:
        if _is_zlib_ctor(repo, fi.module, value):
            handler = next((a for a in U.ancestors(st, pm) if isinstance(a, ast.ExceptHandler)), None)
            ctors.append((st, field, value, handler))
    kinds = {}
    for st, field, value, handler in ctors:
        w = _ctor_wbits(value)
        cons = _canon(st, sn.piece)
        if w in ('default', MAX_WBITS, 0):
            kinds.setdefault('zlib', []).append((st, handler))
            ck.expect(handler is None, 'C19-D1', where, cons + ' (first candidate)',
                      'the zlib-wrapped inflater is created in an exception handler: it must be the first candidate '
                      '(a raw inflater does not reliably reject zlib-wrapped data)', fi.loc(st))
        elif w == -MAX_WBITS:
            kinds.setdefault('raw', []).append((st, handler))
            # either the fallback of a failed zlib attempt, or chosen by a test (whose legitimacy (a) decides)
            okh = handler is None or _handler_catches_zlib(repo, fi.module, handler)
            ck.expect(okh, 'C19-D1', where, cons + (' (fallback on zlib.error)' if handler is not None else ' (chosen by test)'),
                      'the raw-deflate inflater is created in a handler that does not catch zlib.error: raw deflate bodies '
                      'are never decoded', fi.loc(st))
        else:
            ck.bad('C19-D1', where, cons, 'inflater created with wbits=%s: neither zlib-wrapped (MAX_WBITS) nor raw deflate '
                   '(-MAX_WBITS)' % (w,), fi.loc(st))
    # a zlib header is recognised by arithmetic on its first byte(s) (CM = 8, CINFO <= 7, FCHECK), not by equality with one
    # constant: the eight legal CMF bytes are 08 18 28 38 48 58 68 78
    legal = {bytes([0x08 + 0x10 * i]) for i in range(8)}
    tests = _magic_tests(sn)
    consts = {c for _e, c, _x, _n in tests}
    if tests and not legal <= consts:
        for expr, const, extent, negated in tests:
            ck.bad('C19-D1', where, _canon(expr, sn.piece) + ' (zlib header sniffed by constant)',
                   'zlib-wrapped deflate is recognised by comparing the first byte with %r only: valid zlib streams with another window '
                   'size (CMF bytes 08..68) are taken for raw deflate and fail' % (const,), fi.loc(expr))
    for k, text in (('zlib', 'zlib.decompressobj() candidate'), ('raw', 'zlib.decompressobj(-zlib.MAX_WBITS) candidate')):
        if k not in kinds:
            ck.bad('C19-D1', where, text, 'the deflate decoder has no %s inflater: %s bodies cannot be decoded'
                   % (k, 'zlib-wrapped deflate' if k == 'zlib' else 'raw deflate'), fi.loc())


def _check_gzip_ctor(ctx, simple):
    repo, ck = ctx.repo, ctx.check
    init = simple.methods.get('__init__')
    if init is None:
        raise AnalysisError('%s.__init__ not found' % simple.qual)
    ctors = [(st, v) for st, f, v, aug in _self_stores(init.node) if _is_zlib_ctor(repo, init.module, v)]
    if not ctors:
        ck.bad('C19-D1', init.qual, 'zlib.decompressobj(16 + zlib.MAX_WBITS)', 'the gzip decoder creates no inflater', init.loc())
    for st, v in ctors:
        w = _ctor_wbits(v)
        ck.expect(w in (16 + MAX_WBITS, 32 + MAX_WBITS), 'C19-D1', init.qual, norm_text(st),
                  'inflater created with wbits=%s: it does not accept a gzip header and trailer' % (w,), init.loc(st))


# ====================================================================== D4
def _flush_chain(repo, cls):
    """[FuncInfo] from the class's flush through super().flush() delegations."""
    mro = repo.mro(cls)
    chain = []
    i = 0
    while i < len(mro):
        f = mro[i].methods.get('flush')
        i += 1
        if f is None:
            continue
        chain.append(f)
        deleg = [c for c in U.calls(f.node, attr='flush') if isinstance(c.func.value, ast.Call)
                 and dotted(c.func.value.func) == 'super']
        if not deleg:
            break
    return chain


def _is_zlib_flush(c):
    return isinstance(c.func, ast.Attribute) and c.func.attr == 'flush' and U.is_self_attr(c.func.value)


def _eof_ifs(repo, fi, cfg):
    """`if` nodes that read `.eof` and whose one branch cannot return normally, raising
    zlib.error or ProtocolError."""
    out = []
    for n in cfg.nodes:
        if n.kind != 'if':
            continue
        if not any(isinstance(x, ast.Attribute) and x.attr == 'eof' and isinstance(x.ctx, ast.Load) for x in ast.walk(n.stmt.test)):
            continue
        for kind, body in (('T', n.stmt.body), ('F', n.stmt.orelse)):
            if not body:
                continue
            p = cfg.find_path(n, lambda m: m is cfg.exit, edge_ok=F.normal, first_edges=lambda a, b, k: k == kind)
            if p is not None:
                continue
            raises = [r for s in body for r in walk_no_nested(s) if isinstance(r, ast.Raise)]
            good = bool(raises)
            for r in raises:
                e = r.exc.func if isinstance(r.exc, ast.Call) else r.exc
                c = repo.canon_exc(fi.module, e) if e is not None else None
                if c == 'zlib.error':
                    continue
                ci = repo.classes.get(c) if c else None
                if ci is not None and any(b.qual == PROTOCOL_ERROR for b in repo.mro(ci)):
                    continue
                good = False
            if good:
                out.append(n)
    return out


def _check_flush(ctx, cls, sn):
    """D4 for one wired decoder class."""
    repo, ck = ctx.repo, ctx.check
    chain = _flush_chain(repo, cls)
    if not chain:
        raise AnalysisError('%s has no flush()' % cls.qual)
    f0 = chain[0]
    where = f0.qual
    term = chain[-1]
    zcalls = [c for c in U.calls(term.node) if _is_zlib_flush(c)]
    pm0 = U.parents(f0.node)
    if not zcalls:
        ck.bad('C19-D4', where, 'zlib flush()', '%s: the flush chain %s never calls the inflater\'s flush(): buffered output is lost'
               % (cls.name, ' -> '.join(f.local for f in chain)), term.loc())
        return
    ck.ok('C19-D4', where, 'flush chain %s reaches %s' % (' -> '.join(f.local for f in chain), norm_text(zcalls[0])))

    # (a) guard of the own flush agrees with the steady state of decompress()
    if sn is not None and f0.cls is cls:
        dep = Dep(ctx.cfg(f0))
        steady = [p for p in sn.path_infos() if not p.stores]
        fpaths = [_path_info(p, _self_stores(f0.node)) for p in dep.paths()]
        fields = set()
        for q in steady + fpaths:
            fields |= q.fields()
        if len(fields) > 8:
            raise AnalysisError('%s: too many state fields for the path rules' % where)
        for fp in fpaths:
            ret = fp.ret
            e = U.expand_locals(f0.node, ret) if ret is not None else None
            flushes = e is not None and any(isinstance(c, ast.Call) and isinstance(c.func, ast.Attribute) and c.func.attr == 'flush'
                                            for c in ast.walk(e))
            acts = set()
            req = {}
            first_env = True
            for env in _envs(fields):
                if _sim(fp.items, env) is None:
                    continue
                for f in fields:
                    if first_env:
                        req[f] = env[f]
                    elif req.get(f) != env[f]:
                        req[f] = None
                first_env = False
                for s_ in steady:
                    if _sim(s_.items, env) is not None:
                        acts.add(sn.action(s_.ret)[0])
            req = {f: b for f, b in req.items() if b is not None}
            desc = ', '.join('%s %s' % (f, 'truthy' if b else 'falsy') for f, b in sorted(req.items())) or 'always'
            cons = 'flush when %s: %s' % (desc, 'inflater flush' if flushes else norm_text(ret) if ret is not None else 'None')
            if 'decode' in acts and not flushes:
                ck.bad('C19-D4', where, cons, 'in the state in which decompress() inflates, flush() does not flush the inflater: '
                       'the tail of the body is dropped', f0.loc())
            elif acts and 'decode' not in acts and flushes:
                ck.bad('C19-D4', where, cons, 'in the state in which decompress() passes data through, flush() flushes an '
                       'inflater that was never fed', f0.loc())
            elif not flushes and not (isinstance(e, ast.Constant) and e.value == b''):
                ck.bad('C19-D4', where, cons, "a flush() path that does not flush the inflater must return b''", f0.loc())
            else:
                ck.ok('C19-D4', where, cons)

    # (b) .eof consulted before success is reported
    ok = False
    for f in chain:
        cfg = ctx.cfg(f)
        eifs = _eof_ifs(repo, f, cfg)
        if not eifs:
            continue
        if f is term:
            starts = [n for n in cfg.nodes if n.kind in ('stmt', 'return', 'if') and any(_is_zlib_flush(c) for c in F.node_calls(n))]
        else:
            starts = [n for n in cfg.nodes if n.kind in ('stmt', 'return', 'if') and any(
                U.attr_name(c) == 'flush' for c in F.node_calls(n))]
        is_eof = lambda m: any(m is x for x in eifs)
        good = bool(starts)
        for s in starts:
            before = cfg.find_path(cfg.entry, lambda m: m is s, edge_ok=F.normal, stop=is_eof)
            after = cfg.find_path(s, lambda m: m is cfg.exit, edge_ok=F.normal, stop=is_eof)
            if before is not None and after is not None:
                good = False
        if good:
            ok = True
    deleg = None
    for c in U.calls(f0.node, attr='flush'):
        deleg = U.enclosing_stmt(c, pm0)
        break
    cons = norm_text(deleg) if deleg is not None else 'flush()'
    ck.expect(ok, 'C19-D4', where, cons,
              '%s: success is reported after %s without consulting the inflater\'s `.eof`: zlib\'s flush() does not raise on an '
              'incomplete stream, so a truncated compressed body is returned as a short success instead of a protocol error'
              % (cls.name, ' -> '.join(f.local for f in chain)), f0.loc(deleg) if deleg is not None else f0.loc(),
              okmsg='%s: `.eof` decides between success and an error on every flush path' % cons)


# ====================================================================== D2 / D3: stream.py
def _dict_dispatch(repo, fi, call):
    """`V()` where V is a local bound once to `{'tok': DecoderClass, ...}.get(E[, None])` / `{...}[E]`:
    ({token: class qual}, E, total) - total is False for the subscript form (KeyError on other tokens)."""
    if not (isinstance(call, ast.Call) and isinstance(call.func, ast.Name) and not call.args and not call.keywords):
        return None
    ds = [d for d in U.local_defs(fi.node).get(call.func.id, [])]
    if len(ds) != 1 or ds[0][1] != 'assign' or ds[0][0] is None:
        return None
    v = ds[0][0]
    table = key = None
    total = True

    def as_dict(e):
        # a dict display, or a module-level name bound once to one
        if isinstance(e, ast.Dict):
            return e
        if isinstance(e, ast.Name) and not U.local_defs(fi.node).get(e.id):
            binds = [st.value for st in fi.module.tree.body if isinstance(st, ast.Assign)
                     and any(isinstance(t, ast.Name) and t.id == e.id for t in st.targets)]
            if len(binds) == 1 and isinstance(binds[0], ast.Dict):
                return binds[0]
        return None
    if isinstance(v, ast.Call) and isinstance(v.func, ast.Attribute) and v.func.attr == 'get' and as_dict(v.func.value) is not None \
            and 1 <= len(v.args) <= 2 and (len(v.args) == 1 or (isinstance(v.args[1], ast.Constant) and v.args[1].value is None)):
        table, key = as_dict(v.func.value), v.args[0]
    elif isinstance(v, ast.Subscript) and as_dict(v.value) is not None:
        table, key, total = as_dict(v.value), v.slice, False
    if table is None:
        return None
    out = {}
    for k, val in zip(table.keys, table.values):
        if not (isinstance(k, ast.Constant) and isinstance(k.value, str)):
            return None
        ci = repo.resolve_class_expr(fi.module, val)
        if ci is None or ci.module.name != DEC:
            return None
        out[k.value] = ci.qual
    return out, key, total


def _decoder_field(ctx, stream_cls):
    """(field name, setup FuncInfo): the Stream field that holds the decoder object."""
    repo = ctx.repo
    found = []
    for m in stream_cls.methods.values():
        if m.name == '__init__':
            continue
        for st, field, value, aug in _self_stores(m.node):
            if isinstance(value, ast.Call):
                ci = repo.resolve_class_expr(m.module, value.func)
                if ci is not None and ci.module.name == DEC:
                    found.append((field, m))
                elif _dict_dispatch(repo, m, value) is not None:
                    found.append((field, m))
    if not found:
        raise AnalysisError('no method of %s installs a wpull.decompression decoder' % stream_cls.qual)
    fields = {f for f, m in found}
    setups = {m.qual: m for f, m in found}
    if len(fields) != 1 or len(setups) != 1:
        raise AnalysisError('decoder installed in several fields/methods: %s' % sorted(setups))
    return fields.pop(), list(setups.values())[0]


def _check_encoding_table(ctx, setup, field):
    repo, ck = ctx.repo, ctx.check
    where = setup.qual
    fn = setup.node
    pm = U.parents(fn)
    cfg = ctx.cfg(setup)
    defs = U.local_defs(fn)
    stores = [(st, v) for st, f, v, aug in _self_stores(fn) if f == field]
    enc_exprs = []
    # Decision table: which decoder is installed for each Content-Encoding token.  The set-up is interpreted
    # abstractly; for a token t the leaf consistent with "value == t" is the one whose order/membership atoms on
    # string constants agree with t (so if/elif order, inverted ifs and `in (...)` spellings do not matter).
    from ..dtable import Interp as _Interp, Unsupported as _Unsupported
    dd = None
    for st, v in stores:
        d_ = _dict_dispatch(repo, setup, v) if isinstance(v, ast.Call) else None
        if d_ is not None:
            dd = d_
    if dd is not None:
        # table form: the mapping is read off the dict literal; every other token gives None through .get()
        mapping, key_expr, total = dd
        for tok in sorted(set(mapping) | set(ENCODINGS) | {'identity-or-anything-else'}):
            want = ENCODINGS.get(tok)
            got = mapping.get(tok)
            label = 'Content-Encoding %r -> %s' % (tok, want.split(':')[1] if want else 'no decoder')
            if tok in REQUIRED_ENCODINGS and got is None:
                ck.bad('C19-D2', where, label, 'no entry selects a decoder for Content-Encoding %r: such bodies are stored undecoded' % tok, setup.loc())
            else:
                ok = got == want or (tok in ENCODINGS and tok not in REQUIRED_ENCODINGS and got is None)
                ck.expect(ok and total, 'C19-D2', where, label,
                          'Content-Encoding %r installs %s (expected %s)%s' % (tok, got, want or 'no decoder', '' if total else '; other values raise KeyError'),
                          setup.loc())
        enc_exprs.append(key_expr)
        # the decoder is constructed only when the lookup gave a class, and the field is None otherwise
        leaves = None
    try:
        leaves = _Interp(repo, setup, rename=False).leaves() if dd is None else []
    except _Unsupported as e:
        ck.bad('C19-D2', where, 'Content-Encoding table', 'the decoder set-up is outside the decision-table language: %s' % e, setup.loc())
        leaves = []
    consts = set()
    for lf in leaves:
        for k in lf.val:
            if k[0] == 'ord':
                for side in k[1:]:
                    if side[:1] in ('"', "'"):
                        consts.add(ast.literal_eval(side))
            if k[0] == 'in' and k[2][:1] in '([{':
                try:
                    consts |= set(ast.literal_eval(k[2]))
                except Exception:
                    pass
    tokens = sorted({t for t in consts if isinstance(t, str)} | set(ENCODINGS) | {'identity-or-anything-else'}) if dd is None else []

    def consistent(val, tok):
        for k, v in val.items():
            if k[0] == 'ord' and (k[1][:1] in ('"', "'")) != (k[2][:1] in ('"', "'")):
                c_first = k[1][:1] in ('"', "'")
                c = ast.literal_eval(k[1] if c_first else k[2])
                rel = 'eq' if c == tok else ('lt' if (c < tok) == c_first else 'gt')
                if v != rel:
                    return False
            elif k[0] == 'in' and k[2][:1] in '([{':
                try:
                    members = set(ast.literal_eval(k[2]))
                except Exception:
                    continue
                if v != (tok in members):
                    return False
        return True
    for tok in tokens:
        want = ENCODINGS.get(tok)
        got = set()
        for lf in leaves:
            if not consistent(lf.val, tok):
                continue
            val_txt = None
            for e in lf.effects:
                if e.startswith('self.%s = ' % field):
                    val_txt = e.split(' = ', 1)[1]
            if val_txt is None:
                got.add('<unset>')
            elif val_txt == 'None':
                got.add(None)
            else:
                try:
                    call = ast.parse(val_txt, mode='eval').body
                    ci = repo.resolve_class_expr(setup.module, call.func) if isinstance(call, ast.Call) else None
                except SyntaxError:
                    ci = None
                got.add(ci.qual if ci is not None else val_txt)
        ok = got == {want} or (tok in ENCODINGS and tok not in REQUIRED_ENCODINGS and got == {None})
        label = 'Content-Encoding %r -> %s' % (tok, want.split(':')[1] if want else 'no decoder')
        if tok in REQUIRED_ENCODINGS and got == {None}:
            ck.bad('C19-D2', where, label, 'no arm selects a decoder for Content-Encoding %r: such bodies are stored undecoded' % tok, setup.loc())
        else:
            ck.expect(ok, 'C19-D2', where, label,
                      'Content-Encoding %r installs %s (expected %s): the body is decoded with the wrong format / a decoder is applied to '
                      'an identity body' % (tok, sorted(str(x) for x in got), want or 'no decoder'), setup.loc())
    # the expression compared against the tokens
    for n in (walk_no_nested(fn) if dd is None else []):
        if isinstance(n, ast.Compare):
            keys, enc = _enc_keys(n)
            if keys is None and len(n.ops) == 1 and isinstance(n.ops[0], (ast.NotEq, ast.NotIn)):
                n2 = ast.Compare(left=n.left, ops=[ast.Eq() if isinstance(n.ops[0], ast.NotEq) else ast.In()], comparators=n.comparators)
                keys, enc = _enc_keys(n2)
            if keys is not None:
                enc_exprs.append(enc)
    if not enc_exprs:
        ck.bad('C19-D2', where, 'comparison of the Content-Encoding value', 'the set-up does not compare the Content-Encoding value with coding names', setup.loc())
    # every call (re)sets the field: a decoder of an earlier response is never reused
    is_store = lambda m: m.kind == 'stmt' and any(m.stmt is st for st, v in stores)
    p = F.escapes_without(cfg, cfg.entry, is_store)
    ck.expect(p is None, 'C19-D2', where, 'self.%s is (re)set on every path' % field,
              'a path through the set-up leaves the previous decoder in place', setup.loc(),
              path=describe_path(p) if p else None)
    # the compared value is the lower-cased Content-Encoding field of the response
    for enc in enc_exprs[:1]:
        e = U.expand_locals(fn, enc, defs)
        lowered = any(isinstance(c, ast.Call) and isinstance(c.func, ast.Attribute) and c.func.attr in ('lower', 'casefold')
                      for c in ast.walk(e))
        header = any(isinstance(c, ast.Constant) and isinstance(c.value, str) and c.value.lower() == 'content-encoding'
                     for c in ast.walk(e))
        from_resp = len(setup.params) > 1 and any(isinstance(c, ast.Name) and c.id == setup.params[1] for c in ast.walk(e))
        ck.expect(lowered and header and from_resp, 'C19-D2', where, 'encoding = lower-cased Content-Encoding of the response',
                  'the compared value `%s` is not the case-normalised Content-Encoding field of the response' % norm_text(e)[:80],
                  setup.loc(enc))


def _enc_keys(test):
    """(['gzip', ...], compared expr) for `x == 'gzip'` / `x in ('gzip', 'x-gzip')`; (None, None) otherwise."""
    if isinstance(test, ast.Compare) and len(test.ops) == 1:
        a, op, b = test.left, test.ops[0], test.comparators[0]
        if isinstance(op, ast.Eq):
            if isinstance(b, ast.Constant) and isinstance(b.value, str):
                return [b.value], a
            if isinstance(a, ast.Constant) and isinstance(a.value, str):
                return [a.value], b
        if isinstance(op, ast.In) and isinstance(b, (ast.Tuple, ast.List, ast.Set)) and b.elts and all(
                isinstance(e, ast.Constant) and isinstance(e.value, str) for e in b.elts):
            return [e.value for e in b.elts], a
    return None, None


def _file_guard_fails(test, branch, names):
    """Edge (test == branch) means "there is no file / nothing to write"."""
    if isinstance(test, ast.UnaryOp) and isinstance(test.op, ast.Not):
        return _file_guard_fails(test.operand, not branch, names)
    if isinstance(test, ast.Name) and test.id in names:
        return branch is False
    if isinstance(test, ast.BoolOp) and isinstance(test.op, ast.And) and all(
            isinstance(v, ast.Name) and v.id in names for v in test.values):
        return branch is False
    if isinstance(test, ast.Compare) and len(test.ops) == 1 and isinstance(test.left, ast.Name) and test.left.id in names \
            and isinstance(test.comparators[0], ast.Constant) and test.comparators[0].value is None:
        if isinstance(test.ops[0], ast.Is):
            return branch is True
        if isinstance(test.ops[0], ast.IsNot):
            return branch is False
    return False


def _written(fi, cfg, node, stmt, call, file_name, goal):
    """The value produced by `call` (in `stmt` at CFG `node`) reaches file.write on every
    normal path to `goal`, except where there is no file.  Returns (ok, path, result name)."""
    pm = U.parents(fi.node)
    par = pm.get(id(call))
    if isinstance(par, ast.Call) and U.attr_name(par) == 'write' and norm_text(par.func.value) == file_name:
        return True, None, norm_text(call)
    if not (isinstance(stmt, ast.Assign) and len(stmt.targets) == 1 and isinstance(stmt.targets[0], ast.Name) and stmt.value is call):
        return False, None, None
    res = stmt.targets[0].id
    names = {file_name, res}

    def is_write(m):
        return any(c.args and isinstance(c.args[0], ast.Name) and c.args[0].id == res
                   for c in F.node_calls(m, 'write', recv=file_name))

    def edge_ok(a, b, k):
        if not F.normal(a, b, k):
            return False
        if a.kind == 'if' and k in ('T', 'F') and _file_guard_fails(a.stmt.test, k == 'T', names):
            return False
        return True
    # reaching the goal, or a statement that overwrites the result, without having written it
    redefs = [m for v, kind, st in U.local_defs(fi.node).get(res, []) if kind != 'param' and st is not stmt
              for m in cfg.nodes_of(st)]
    p = cfg.find_path(node, lambda m: goal(m) or any(m is r for r in redefs), edge_ok=edge_ok, stop=is_write)
    return p is None, p, res


def _check_reader(ctx, fi, reader_names, dec_name, flush_name):
    repo, ck = ctx.repo, ctx.check
    where = fi.qual
    fn = fi.node
    cfg = ctx.cfg(fi)
    pm = U.parents(fn)
    defs = U.local_defs(fn)
    if len(fi.params) < 3:
        raise AnalysisError('%s: expected (self, response, file, ...)' % where)
    file_name = fi.params[2]
    chunk_locals = {name for name, ds in defs.items() for v, kind, st in ds
                    if kind == 'assign' and isinstance(v, ast.Call) and repo.resolve_class_expr(fi.module, v.func) is not None
                    and repo.resolve_class_expr(fi.module, v.func).qual == CHUNKED}

    def self_calls(n, name):
        return [c for c in F.node_calls(n, name) if isinstance(c.func.value, ast.Name) and c.func.value.id == 'self']
    live = [n for n in cfg.nodes if n.kind in ('stmt', 'return', 'if', 'while')]
    dec_nodes = [(n, c) for n in live for c in self_calls(n, dec_name)]
    flush_nodes = [(n, c) for n in live for c in self_calls(n, flush_name)]
    is_dec = lambda m: any(m is n for n, c in dec_nodes)
    is_flush = lambda m: any(m is n for n, c in flush_nodes)
    is_deleg = lambda m: m.kind in ('stmt', 'return') and any(
        isinstance(c.func, ast.Attribute) and c.func.attr in reader_names and c.func.attr != fi.name
        and isinstance(c.func.value, ast.Name) and c.func.value.id == 'self' for c in F.node_calls(m))

    # ---- per-read decode
    if not dec_nodes:
        ck.bad('C19-D2', where, 'self.%s(<content>)' % dec_name, 'the reader never hands the bytes it reads to the decoder', fi.loc())
    for n, c in dec_nodes:
        stmt = n.stmt
        cons = norm_text(c)
        arg = c.args[0] if len(c.args) == 1 and not c.keywords else None
        why = None
        src_nodes = []
        trims = []
        if not isinstance(arg, ast.Name):
            why = 'the decoded argument is not a plain local holding the bytes read'
        else:
            srcs = []
            all_defs = defs.get(arg.id, [])
            def_nodes = [m for v, kind, st in all_defs if kind != 'param' for m in cfg.nodes_of(st)]
            for v, kind, st in all_defs:
                if kind == 'assign' and isinstance(v, ast.Subscript) and isinstance(v.value, ast.Name) and v.value.id == arg.id \
                        and isinstance(v.slice, ast.Slice) and v.slice.lower is None:
                    trims.append(st)          # cutting to the body length (checked below to precede the decode)
                    continue
                # reaching definitions only: a path from the definition to the call that passes no other definition
                if kind != 'param':
                    mine = cfg.nodes_of(st)
                    if not any(cfg.find_path(m, lambda x: x is n, edge_ok=F.normal,
                                             stop=lambda x: any(x is o for o in def_nodes) and not any(x is o for o in mine))
                               for m in mine):
                        continue
                srcs.append((v, kind, st))
            if not srcs:
                why = '`%s` has no defining read' % arg.id
            for v, kind, st in srcs:
                call = v.value if isinstance(v, (ast.YieldFrom, ast.Await)) else v
                okc = isinstance(call, ast.Call) and isinstance(call.func, ast.Attribute)
                if chunk_locals:
                    good = okc and kind == 'tuple:0' and call.func.attr == 'read_chunk_body' \
                        and isinstance(call.func.value, ast.Name) and call.func.value.id in chunk_locals
                    if not good:
                        why = '`%s` comes from `%s` (%s), not from the content element (first item) of %s.read_chunk_body(): ' \
                              'chunk framing or raw data would be fed to the decoder' % (
                                  arg.id, norm_text(v)[:60] if v is not None else kind, kind, sorted(chunk_locals)[0])
                else:
                    good = okc and kind == 'assign' and call.func.attr == 'read' and norm_text(call.func.value) == 'self._connection'
                    if not good:
                        why = '`%s` comes from `%s`, not from self._connection.read(...)' % (
                            arg.id, norm_text(v)[:60] if v is not None else kind)
                src_nodes.extend(cfg.nodes_of(st))
        if why is None and arg.id == file_name:
            why = 'the file object is decoded'
        if why is None:
            # trimming to the body length must precede decoding
            for t in trims:
                for tn in cfg.nodes_of(t):
                    p = cfg.find_path(n, lambda m: m is tn, edge_ok=F.normal, stop=lambda m: any(m is s for s in src_nodes))
                    if p is not None:
                        why = 'the bytes are decoded before `%s` cuts them to the body length' % norm_text(t)
        ck.expect(why is None, 'C19-D2', where, cons, 'per-read decoding is not applied to exactly the content bytes: %s' % why,
                  fi.loc(c), okmsg='%s: argument is exactly the content bytes read' % cons)
        # output written
        ok, p, res = _written(fi, cfg, n, stmt, c, file_name, lambda m: m is cfg.exit or m is n)
        ck.expect(ok, 'C19-D2', where, '%s.write(<result of %s>)' % (file_name, cons),
                  'the decoded bytes of a read are not written to the file on every path (something else, or nothing, is written)',
                  fi.loc(c), path=describe_path(p) if p else None)

    # ---- the reader's control flow never depends on what the decoder returned: a piece of compressed data may decode to
    #      nothing (header bytes, a block still incomplete), so "empty output" says nothing about the end of a chunk or body
    for n, c in dec_nodes:
        rname = None
        if isinstance(n.stmt, ast.Assign) and len(n.stmt.targets) == 1 and isinstance(n.stmt.targets[0], ast.Name):
            rname = n.stmt.targets[0].id
        if rname is None:
            continue
        redef = [m for v, kind, st in defs.get(rname, []) if kind != 'param' and st is not n.stmt for m in cfg.nodes_of(st)]
        for t in [m for m in cfg.nodes if m.kind in ('if', 'while')]:
            if not any(isinstance(x, ast.Name) and x.id == rname for x in ast.walk(t.stmt.test)):
                continue
            leaves = any(isinstance(x, (ast.Break, ast.Return, ast.Continue, ast.Raise)) for b in t.stmt.body + t.stmt.orelse for x in ast.walk(b)) \
                or t.kind == 'while'
            if not leaves:
                continue
            p = cfg.find_path(n, lambda m, t=t: m is t, edge_ok=F.normal, stop=lambda m: any(m is r for r in redef))
            ck.expect(p is None, 'C19-D2', where, 'no loop exit depends on the output of %s' % norm_text(c),
                      '`%s` tests the decoder\'s output to leave or continue the read loop: a read whose bytes decode to nothing (a gzip '
                      'header, a split block) is taken for the end of the chunk / body' % norm_text(t.stmt.test)[:60], fi.loc(t.stmt),
                      path=describe_path(p) if p else None)

    # ---- flush at end of body
    if not flush_nodes:
        ck.bad('C19-D2', where, 'self.%s()' % flush_name, 'the reader never flushes the decoder: bytes buffered in the inflater '
               'at the end of the body are lost', fi.loc())
    else:
        p = F.escapes_without(cfg, cfg.entry, lambda m: is_flush(m) or is_deleg(m))
        ck.expect(p is None, 'C19-D2', where, 'self.%s() on every normal path to the end of the body' % flush_name,
                  'the reader can finish normally without flushing the decoder', fi.loc(),
                  path=describe_path(p) if p else None)
    for n, c in flush_nodes:
        cons = norm_text(c)
        in_loop = any(isinstance(a, (ast.While, ast.For)) for a in U.ancestors(n.stmt, pm))
        p1 = cfg.find_path(n, is_dec, edge_ok=F.normal)
        p2 = cfg.find_path(n, is_flush, edge_ok=F.normal)
        ck.expect(not in_loop and p1 is None and p2 is None, 'C19-D2', where, cons + ' once, after the last read',
                  'the decoder is flushed inside the read loop / before further data is decoded / twice', fi.loc(c),
                  path=describe_path(p1 or p2) if (p1 or p2) else None)
        ok, p, res = _written(fi, cfg, n, n.stmt, c, file_name, lambda m: m is cfg.exit)
        ck.expect(ok, 'C19-D2', where, '%s.write(<result of %s>)' % (file_name, cons),
                  'the bytes returned by the final flush are not written to the file', fi.loc(c),
                  path=describe_path(p) if p else None)


def _check_read_body(ctx, rb, setup, readers):
    ck = ctx.check
    cfg = ctx.cfg(rb)
    where = rb.qual
    names = {r.name for r in readers}
    live = [n for n in cfg.nodes if n.kind in ('stmt', 'return', 'if')]

    def calls_self(n, pred):
        return [c for c in F.node_calls(n) if isinstance(c.func, ast.Attribute) and isinstance(c.func.value, ast.Name)
                and c.func.value.id == 'self' and pred(c.func.attr)]
    setups = [(n, c) for n in live for c in calls_self(n, lambda a: a == setup.name)]
    rcalls = [(n, c) for n in live for c in calls_self(n, lambda a: a in names)]
    raw = 'raw' if 'raw' in rb.params or any(a.arg == 'raw' for a in rb.node.args.kwonlyargs) else None
    if not setups:
        ck.bad('C19-D2', where, 'self.%s(response)' % setup.name, 'read_body never sets the decoder up: Content-Encoding is ignored '
               '(or a stale decoder is used)', rb.loc())
        return
    resp_args = {norm_text(c.args[0]) for n, c in rcalls if c.args}
    for n, c in setups:
        ck.expect(len(c.args) == 1 and norm_text(c.args[0]) in resp_args, 'C19-D2', where, norm_text(c),
                  'the decoder is chosen from something other than the response whose body is read', rb.loc(c))
    is_setup = lambda m: any(m is n for n, c in setups)

    def edge_ok(a, b, k):
        if not F.normal(a, b, k):
            return False
        if raw and a.kind == 'if' and k in ('T', 'F'):
            t = a.stmt.test
            neg = False
            while isinstance(t, ast.UnaryOp) and isinstance(t.op, ast.Not):
                t, neg = t.operand, not neg
            if isinstance(t, ast.Name) and t.id == raw and ((k == 'T') != neg):
                return False        # the raw branch: no decoding wanted
        return True
    for n, c in rcalls:
        p = cfg.find_path(cfg.entry, lambda m: m is n, edge_ok=edge_ok, stop=is_setup)
        ck.expect(p is None, 'C19-D2', where, '%s before %s' % (norm_text(setups[0][1]), norm_text(c)),
                  'a non-raw body can be read before the decoder for this response is chosen', rb.loc(c),
                  path=describe_path(p) if p else None)


def _check_chunk_body(ctx):
    """The first item of read_chunk_body() is the content: bytes read from the
    connection inside the chunk, or b'' for the terminator."""
    repo, ck = ctx.repo, ctx.check
    fi = repo.func(CHUNKED + '.read_chunk_body')
    defs = U.local_defs(fi.node)
    rets = [r for r in walk_no_nested(fi.node) if isinstance(r, ast.Return)]
    n_content = 0
    for r in rets:
        v = r.value
        why = None
        if not (isinstance(v, ast.Tuple) and len(v.elts) == 2):
            why = 'does not return a (content, raw) pair'
        else:
            e = v.elts[0]
            if isinstance(e, ast.Constant) and e.value == b'':
                pass
            elif isinstance(e, ast.Name) and defs.get(e.id) and all(
                    kind == 'assign' and isinstance(d, (ast.YieldFrom, ast.Await)) and isinstance(d.value, ast.Call)
                    and U.attr_name(d.value) == 'read' and norm_text(d.value.func.value) == 'self._connection'
                    for d, kind, st in defs[e.id]):
                n_content += 1
            else:
                why = 'the content item `%s` is not the bytes read from the connection inside the chunk' % norm_text(e)
        ck.expect(why is None, 'C19-D2', fi.qual, norm_text(r), 'read_chunk_body %s: framing bytes would be decoded' % why, fi.loc(r))
    if not n_content:
        ck.bad('C19-D2', fi.qual, 'return (data, data)', 'read_chunk_body never returns chunk content', fi.loc())


def _check_use(ctx, fi, call, field, kind):
    """D3 for one use `self.<field>.<decompress|flush>(...)` in a Stream helper."""
    repo, ck = ctx.repo, ctx.check
    where = fi.qual
    fn = fi.node
    cfg = ctx.cfg(fi)
    pm = U.parents(fn)
    stmt = U.enclosing_stmt(call, pm)
    cons = norm_text(call)
    nodes = cfg.nodes_of(stmt)
    if not nodes:
        raise AnalysisError('%s: statement not in CFG: %s' % (where, norm_text(stmt)))

    # (1) a handler for zlib.error around the call that raises ProtocolError and cannot complete normally
    handler = None
    child = stmt
    for a in U.ancestors(stmt, pm):
        if isinstance(a, ast.Try) and any(s is child for s in a.body):
            handler = next((h for h in a.handlers if _handler_catches_zlib(repo, fi.module, h)), None)
            if handler is not None:
                break
        child = a
    if handler is None:
        ck.bad('C19-D3', where, cons, 'no handler for zlib.error around the decoder call: corrupt compressed data escapes as '
               'zlib.error instead of ProtocolError', fi.loc(call))
    else:
        raises = [r for r in walk_no_nested(handler) if isinstance(r, ast.Raise)]
        bad_raise = None
        for r in raises:
            e = r.exc.func if isinstance(r.exc, ast.Call) else r.exc
            ci = repo.resolve_class_expr(fi.module, e) if e is not None else None
            if ci is None or not any(b.qual == PROTOCOL_ERROR for b in repo.mro(ci)):
                bad_raise = r
        p = None
        for hn in cfg.nodes_of(handler):
            p = p or cfg.find_path(hn, lambda m: m is cfg.exit, edge_ok=F.normal)
        ck.expect(bool(raises) and bad_raise is None and p is None, 'C19-D3', where, cons + ': zlib.error -> ProtocolError',
                  'the zlib.error handler %s: corrupt data is not reported as a protocol error' % (
                      'can complete normally (the error is swallowed)' if p is not None else
                      'raises `%s`, not ProtocolError' % norm_text(bad_raise) if bad_raise is not None else 'does not raise'),
                  fi.loc(handler), path=describe_path(p) if p else None)

    # (2) reached only when a decoder is installed
    def edge_ok(a, b, k):
        if not F.normal(a, b, k):
            return False
        if a.kind == 'if' and k in ('T', 'F') and _truths(a.stmt.test, k == 'T').get(field) is True:
            return False
        return True
    p = None
    for n in nodes:
        p = p or cfg.find_path(cfg.entry, lambda m: m is n, edge_ok=edge_ok)
    ck.expect(p is None, 'C19-D3', where, cons + ' only if self.%s' % field,
              'the decoder is used on a path where none is installed (identity bodies would fail)', fi.loc(call),
              path=describe_path(p) if p else None)

    # (3) argument and result
    if kind == 'decompress':
        okarg = len(call.args) == 1 and not call.keywords and len(fi.params) > 1 and isinstance(call.args[0], ast.Name) \
            and call.args[0].id == fi.params[1] and not [d for d in U.local_defs(fn).get(fi.params[1], []) if d[1] != 'param']
        ck.expect(okarg, 'C19-D3', where, cons + ': argument is the data handed in',
                  'the decoder is not fed exactly the bytes handed to %s' % fi.name, fi.loc(call))
    res_name = None
    if isinstance(stmt, ast.Return) and stmt.value is call:
        returned = True
    elif isinstance(stmt, ast.Assign) and stmt.value is call and len(stmt.targets) == 1 and isinstance(stmt.targets[0], ast.Name):
        res_name = stmt.targets[0].id
        returned = any(isinstance(r, ast.Return) and isinstance(r.value, ast.Name) and r.value.id == res_name
                       for r in walk_no_nested(fn))
    else:
        returned = False
    ck.expect(returned, 'C19-D3', where, cons + ': result returned', 'the decoder output is not what %s returns' % fi.name, fi.loc(call))
    # (4) pass-through when no decoder is installed; no implicit None
    others = [r for r in walk_no_nested(fn) if isinstance(r, ast.Return) and r is not stmt
              and not (res_name and isinstance(r.value, ast.Name) and r.value.id == res_name)
              and not (handler is not None and _contains(handler, r))]
    for r in others:
        if kind == 'decompress':
            good = isinstance(r.value, ast.Name) and len(fi.params) > 1 and r.value.id == fi.params[1]
            msg = 'without a decoder the data must be returned unchanged'
        else:
            good = isinstance(r.value, ast.Constant) and r.value.value == b''
            msg = "without a decoder the flush must return b''"
        ck.expect(good, 'C19-D3', where, 'no decoder: ' + norm_text(r), msg, fi.loc(r))
    implicit = [p_ for p_, k in cfg.exit.pred if F.normal(p_, cfg.exit, k) and p_.kind != 'return'
                and not (p_.kind == 'join' and 'ret' in p_.label)]
    ck.expect(not implicit, 'C19-D3', where, 'every normal path returns bytes',
              '%s can fall off its end and return None' % fi.name, fi.loc())


# ====================================================================== driver
def _raw_flag_sites(ctx):
    """`raw=True` switches the content decoder (and the chunk decoding) off.  At every call of a function that has a `raw`
    parameter the value bound to it is a boolean constant or the caller's own `raw` parameter - never some other value that happens
    to land in that position (a time-out passed positionally is truthy)."""
    repo, ck, res = ctx.repo, ctx.check, ctx.res
    n = 0
    for f in repo.funcs.values():
        if not f.module.name.startswith(('wpull.protocol.http', 'wpull.processor', 'wpull.proxy')) or f.module.name.endswith('_test'):
            continue
        for c in U.calls(f.node):
            if U.attr_name(c) not in ('download', 'read_body'):
                continue
            for g in res.callee_funcs(f, c, allow_name=True, count=False):
                ps = [p for p in g.params if p not in ('self', 'cls')]
                if 'raw' not in ps:
                    continue
                i = ps.index('raw')
                a = c.args[i] if i < len(c.args) and not any(isinstance(x, ast.Starred) for x in c.args[:i + 1]) else None
                for k in c.keywords:
                    if k.arg == 'raw':
                        a = k.value
                if a is None:
                    continue        # default
                n += 1
                ok = (isinstance(a, ast.Constant) and isinstance(a.value, bool)) or (isinstance(a, ast.Name) and a.id == 'raw')
                ck.expect(ok, 'C19-D2', f.qual, '%s(...): raw <- %s' % (U.attr_name(c), norm_text(a)),
                          'the value bound to `raw` of %s is `%s`, not a boolean constant or the caller\'s raw flag: when it is truthy the '
                          'content coding is not removed (and chunk framing is left in the body)' % (g.qual.split(':')[-1], norm_text(a)), f.loc(c))
                break
    ck.info['raw_flag_sites'] = n


def run(ctx):
    repo, ck = ctx.repo, ctx.check
    dmod = repo.module(DEC)
    repo.module(STR)
    ck.assume('zlib semantics as documented (and confirmed in witness/): decompressobj.flush() does not raise on an incomplete '
              'stream, `eof` is the only truncation signal; one byte of input is never rejected by zlib')
    ck.assume('the body readers never hand an empty piece to the decoder (each breaks on empty data before decoding); '
              'a prefix of length <= 1 is therefore present in every first piece')
    ck.assume('decides the split-independence of the format decision and the error/flush discipline on all paths, '
              'not output equality for all payloads (zlib is trusted)')
    ck.rule('C19-D1', 'in every decoder\'s decompress() each store of decoder state is control-dependent only on decoder state, on a '
                      'slice of constant length <= 1 of the piece, or on a longer constant prefix of a buffer whose length is tested '
                      'first - never on whether processing the piece raised; after a deciding path the next piece takes a steady '
                      'path with the same action; the gzip magic is a prefix of 1f 8b and selects the inflater; the deflate decoder '
                      'tries zlib-wrapped first and raw deflate in the zlib.error handler; wbits values folded')
    ck.rule('C19-D2', 'Content-Encoding table (gzip/x-gzip -> GzipDecompressor, deflate -> DeflateDecompressor, otherwise None; value '
                      'lower-cased); decoder chosen before any non-raw reader runs; in each body reader the per-read decode gets '
                      'exactly the content bytes (connection read, or item 0 of read_chunk_body) after trimming, its output is '
                      'written, the flush is reached once on every normal path after the loop and its output written')
    ck.rule('C19-D3', 'every use of the decoder object in Stream is reached only with a decoder installed, sits in a try whose '
                      'zlib.error handler cannot complete normally and raises ProtocolError, is fed the data handed in and its '
                      'result returned; without a decoder data passes through unchanged / b\'\'')
    ck.rule('C19-D4', 'for each decoder wired to a Content-Encoding: flush() reaches the inflater\'s flush exactly in the state in '
                      'which decompress() inflates, and consults `.eof` (raising zlib.error/ProtocolError) before reporting success')

    simple = repo.cls(DEC + ':SimpleGzipDecompressor')
    gz = repo.cls(DEC + ':GzipDecompressor')
    df = repo.cls(DEC + ':DeflateDecompressor')
    roles = {gz.qual: 'gzip', df.qual: 'deflate'}

    # ------------------------------------------------------------------ D1
    sniffs = {}
    for ci in dmod.classes.values():
        if 'decompress' in ci.methods:
            sniffs[ci.qual] = _check_sniffer(ctx, ci, roles.get(ci.qual))
    for ci in (gz, df):
        if ci.qual not in sniffs:
            # no own decompress(): inherits a non-sniffing one; nothing decides a format here
            ck.ok('C19-D1', ci.qual, 'no own decompress(): no format decision', nontrivial=False)
    if 'decompress' not in gz.methods or 'decompress' not in df.methods:
        ck.bad('C19-D1', (gz if 'decompress' not in gz.methods else df).qual, 'decompress()',
               'the sniffing decoder no longer defines decompress(): gzip/identity resp. zlib/raw deflate are not told apart')
    _check_gzip_ctor(ctx, simple)

    # ------------------------------------------------------------------ D4
    for ci in (gz, df):
        _check_flush(ctx, ci, sniffs.get(ci.qual))

    # ------------------------------------------------------------------ D2 / D3
    stream = repo.cls(STREAM)
    field, setup = _decoder_field(ctx, stream)
    _check_encoding_table(ctx, setup, field)
    from .common import header_name_key_rule
    header_name_key_rule(ctx, 'C19-D2')

    uses = []
    for m in stream.methods.values():
        for c in U.calls(m.node):
            if isinstance(c.func, ast.Attribute) and U.is_self_attr(c.func.value, field):
                uses.append((m, c, c.func.attr))
    by_kind = {}
    for m, c, attr in uses:
        by_kind.setdefault(attr, []).append((m, c))
    for kind in ('decompress', 'flush'):
        if kind not in by_kind:
            ck.bad('C19-D3', STREAM, 'self.%s.%s(...)' % (field, kind), 'Stream never calls the decoder\'s %s()' % kind)
    for attr, lst in sorted(by_kind.items()):
        for m, c in lst:
            if attr in ('decompress', 'flush'):
                _check_use(ctx, m, c, field, attr)
            else:
                ck.bad('C19-D3', m.qual, norm_text(c), 'unexpected use of the decoder object (only decompress/flush are part of its protocol)', m.loc(c))
    if 'decompress' not in by_kind or 'flush' not in by_kind:
        return
    dec_fns = {m.qual: m for m, c in by_kind['decompress']}
    flush_fns = {m.qual: m for m, c in by_kind['flush']}
    if len(dec_fns) != 1 or len(flush_fns) != 1:
        raise AnalysisError('decoder used from several helpers: %s / %s' % (sorted(dec_fns), sorted(flush_fns)))
    dec_fn = list(dec_fns.values())[0]
    flush_fn = list(flush_fns.values())[0]

    rb = repo.func(STREAM + '.read_body')
    readers = []
    for y in walk_no_nested(rb.node):
        if isinstance(y, (ast.YieldFrom, ast.Await)) and isinstance(y.value, ast.Call) and isinstance(y.value.func, ast.Attribute) \
                and isinstance(y.value.func.value, ast.Name) and y.value.func.value.id == 'self':
            m = repo.find_method(stream, y.value.func.attr)
            if m is not None and m not in readers:
                readers.append(m)
    # readers reached only by delegation from another reader
    changed = True
    while changed:
        changed = False
        for r in list(readers):
            for c in U.calls(r.node):
                if isinstance(c.func, ast.Attribute) and isinstance(c.func.value, ast.Name) and c.func.value.id == 'self' \
                        and c.func.attr.startswith('_read_body'):
                    m = repo.find_method(stream, c.func.attr)
                    if m is not None and m not in readers:
                        readers.append(m)
                        changed = True
    ck.expect(len(readers) >= 3, 'C19-D2', rb.qual, 'three body readers dispatched: %s' % sorted(r.name for r in readers),
              'read_body dispatches to %d reader(s) (chunked, by length, until close expected)' % len(readers), rb.loc())
    _check_read_body(ctx, rb, setup, readers)
    names = {r.name for r in readers}
    for r in readers:
        _check_reader(ctx, r, names, dec_fn.name, flush_fn.name)
    _check_chunk_body(ctx)
    _raw_flag_sites(ctx)
    if getattr(ctx, 'prop', None) == 'C19':
        # the decoder sees the content bytes only if the chunk framing is removed exactly (rules shared with C08)
        from . import c08
        from .common import RemapCtx
        c08.d4_chunk(RemapCtx(ctx, {'C08-D4': 'C19-D2'}))
