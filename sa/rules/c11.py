"""C11 - URL parsing and joining are total: any text gives a result or a ValueError.

Exception-escape analysis over wpull/url.py and its callers, a termination
(unconditional self-call / call-cycle) check, and the handlers at the call sites
(DESIGN.md section 3, C11-D1..D3).
"""
import ast

from ..index import dotted, walk_no_nested, norm_text, AnalysisError
from ..escape import Escape
from ..cfg import describe_path
from .. import util as U

URL = 'wpull.url'

# entry point -> may ValueError escape?
ENTRIES = {
    'wpull.url:URLInfo.parse': True,
    'wpull.url:normalize': True,
    'wpull.url:urljoin': True,
    'wpull.url:parse_url_or_log': False,
    'wpull.scraper.util:urljoin_safe': False,
}
# documented attributes that must be readable on every result
ACCESSORS = ['url', 'query_map', 'hostname_with_port', 'to_dict', 'is_port_default', 'is_ipv6', 'split_path',
             '__repr__', '__hash__', '__eq__', '__ne__']


def _accessors(ui):
    """The documented ones plus whatever the class offers for reading today: every property and every public method that
    takes nothing but self (a field turned into a lazily computed property is an accessor like any other)."""
    out = list(ACCESSORS)
    for name, m in sorted(ui.methods.items()):
        if name in out or name.startswith('_'):
            continue
        decos = {dotted(d) or '' for d in m.node.decorator_list}
        if decos & {'classmethod', 'staticmethod'}:
            continue
        a = m.node.args
        required = len(a.args) - len(a.defaults) - 1
        if m.is_property or required <= 0:
            out.append(name)
    return out


def run(ctx):
    repo, ck, res = ctx.repo, ctx.check, ctx.res
    mod = repo.module(URL)
    ck.assume('the `encoding` argument names an existing codec (callers pass detected codecs); non-str input is out of scope')
    ck.assume('stdlib callees raise only what the external-raiser table lists (DESIGN-tables.md H)')
    ck.rule('C11-D1', 'exception types that can leave URLInfo.parse / normalize / urljoin and every documented accessor of '
                      'URLInfo are ValueError or subclasses; none can leave parse_url_or_log and urljoin_safe')
    ck.rule('C11-D1b', 'every documented accessor can be read on the result for a non-network scheme (mailto:, javascript: ...), whose '
                       'authority/query/host fields are None: no accessor dereferences such a field, directly or through the helper it '
                       'hands it to, without a None/truthiness guard')
    ck.rule('C11-D2', 'no function in wpull/url.py calls itself (or a call cycle) on every path to a return')
    ck.rule('C11-D3', 'every caller of the raising variants that handles scraped/redirect data wraps the call in an '
                      '`except ValueError` (or a superclass) handler')

    esc = Escape(repo, res)
    # ------------------------------------------------------------------ D1
    entries = dict(ENTRIES)
    ui = repo.cls(URL + ':URLInfo')
    for a in _accessors(ui):
        m = ui.methods.get(a)
        if m is not None:
            entries[m.qual] = False      # a parsed result's attributes "can all be read": an accessor may not raise at all
    for q in sorted(entries):
        esc.escapes(repo.func(q))       # all summaries first: the justification below looks at every accessor's callees
    for q, allow_value_error in sorted(entries.items()):
        fi = repo.func(q)
        items = esc.escapes(fi)
        for it in sorted(items):
            t = it.type
            if it.kind == 'assert' and _assert_implied(repo, mod, it):
                ck.ok('C11-D1', q, 'assert implied by a dominating check: ' + it.origin)
                continue
            is_value = esc.is_sub(t, 'ValueError')
            if not allow_value_error:
                why = _validated_in_parse(ctx, esc, ui, it)
                if why:
                    ck.ok('C11-D1', q, '%s from %s - infeasible: %s' % (t, it.origin, why))
                    continue
            if is_value and allow_value_error:
                ck.ok('C11-D1', q, '%s from %s' % (t, it.origin))
            else:
                ck.bad('C11-D1', q, '%s at %s' % (t, it.origin.split(' ', 1)[1] if ' ' in it.origin else it.origin),
                       '%s can escape %s (source: %s)%s' % (
                           t, q, it.origin, '' if not is_value else ' - this function must not raise at all'),
                       it.origin.split(' ')[0])
        if not items:
            ck.ok('C11-D1', q, 'nothing escapes')

    # ------------------------------------------------------------------ D1b
    _none_field_rule(ctx, ui)

    # ------------------------------------------------------------------ D2
    _selfcheck_decreasing()
    funcs = [f for f in repo.funcs.values() if f.module is mod]
    # direct self-calls on every path
    graph = {}
    for f in funcs:
        callees = set()
        for c in U.calls(f.node):
            for g in res.callee_funcs(f, c, allow_name=False, count=False):
                if g.module is mod:
                    callees.add(g.qual)
        for n, m in res.property_loads(f, f.node):
            if m.module is mod:
                callees.add(m.qual)
        graph[f.qual] = callees
    sccs = _sccs(graph)
    for f in funcs:
        scc = next((s for s in sccs if f.qual in s), {f.qual})
        recursive = f.qual in graph.get(f.qual, ()) or len(scc) > 1
        if not recursive:
            ck.ok('C11-D2', f.qual, 'not recursive', nontrivial=False)
            continue
        cfg = ctx.cfg(f)

        def in_cycle(n, f=f, scc=scc):
            if n.stmt is None or n.kind in ('def',):
                return False
            node = n.stmt
            if n.kind in ('if', 'while'):
                node = n.stmt.test
            elif n.kind == 'for':
                node = n.stmt.iter
            elif n.kind == 'with':
                node = ast.Module(body=[ast.Expr(i.context_expr) for i in n.stmt.items], type_ignores=[])
            elif n.kind == 'handler':
                return False
            for c in U.calls(node):
                for g in res.callee_funcs(f, c, allow_name=False, count=False):
                    if g.qual in scc:
                        return True
            return False
        p = cfg.find_path(cfg.entry, lambda n: n is cfg.exit, edge_ok=lambda a, b, k: not k.startswith('x:'),
                          stop=in_cycle)
        # find_path treats a goal that is also a stop node fine; a path ending at EXIT that avoids the cycle is a base case
        # every call back into the cycle must work on a strictly smaller input, otherwise nothing bounds the depth
        und = _undecreasing_calls(f.node, {g.split(':')[-1].split('.')[-1] for g in scc})
        ck.expect(not und, 'C11-D2', f.qual, 'every recursive call passes a strict part of a parameter',
                  'recursive call %s passes no strictly smaller argument (slice or split part of a parameter): nothing bounds the '
                  'recursion depth, so some input never terminates (RecursionError)' % (norm_text(und[0])[:80] if und else ''),
                  f.loc(und[0]) if und else f.loc())
        ck.expect(p is not None, 'C11-D2', f.qual, 'recursion has a base case',
                  'every path to a return of %s passes a call back into %s: unbounded recursion (RecursionError) for every input'
                  % (f.qual, sorted(scc)), f.loc())

    # ------------------------------------------------------------------ D3
    sites = {
        'wpull.url:parse_url_or_log': ('parse',),
        'wpull.scraper.util:urljoin_safe': ('urljoin',),
        'wpull.protocol.http.web:WebSession._process_redirect': ('next_location', '_request_factory', 'prepare_for_send'),
        'wpull.application.tasks.database:InputURLTask._read_input_urls': ('parse',),   # urljoin with --base is user input: a ValueError there is allowed by the property
    }
    for q, names in sites.items():
        fi = repo.func(q)
        pm = U.parents(fi.node)
        found = 0
        for c in U.calls(fi.node):
            if U.attr_name(c) in names:
                found += 1
                ok = False
                for a in U.ancestors(c, pm):
                    if isinstance(a, ast.Try) and any(_within(b, c) for b in a.body):
                        for h in a.handlers:
                            ts = esc.handler_types(fi, h)
                            if any(esc.is_sub('ValueError', t) for t in ts):
                                ok = True
                ck.expect(ok, 'C11-D3', q, norm_text(c)[:80],
                          'call that can raise ValueError on hostile input is not inside an `except ValueError` handler',
                          fi.loc(c))
        if not found:
            ck.bad('C11-D3', q, 'call of %s' % '/'.join(names), 'expected URL parse/join call not found in %s' % q, fi.loc())
    from .common import redirect_target_guarded_rule
    redirect_target_guarded_rule(ctx, 'C11-D3')
    # scraped links reach the table only through the non-raising variant
    for q in ('wpull.pipeline.session:ItemSession.add_child_url', 'wpull.pipeline.session:ItemSession.add_url'):
        if repo.has_func(q):
            fi = repo.func(q)
            names = {U.attr_name(c) for c in U.calls(fi.node)}
            if 'parse' in names and 'parse_url_or_log' not in names:
                ck.bad('C11-D3', q, 'URLInfo.parse', 'raising URL parser used on scraped links', fi.loc())
    add_url = repo.func('wpull.pipeline.session:ItemSession.add_url') if repo.has_func('wpull.pipeline.session:ItemSession.add_url') else None
    if add_url is not None:
        names = {U.attr_name(c) for c in U.calls(add_url.node)}
        ck.expect('parse_url_or_log' in names, 'C11-D3', add_url.qual, 'parse_url_or_log(url)',
                  'ItemSession.add_url no longer uses the non-raising parser', add_url.loc())
    pr = repo.cls('wpull.processor.rule:ProcessingRule')
    v = pr.class_assigns.get('parse_url')
    okp = v is not None and any((dotted(n) or '').endswith('parse_url_or_log') for n in ast.walk(v))
    ck.expect(okp, 'C11-D3', pr.qual, 'parse_url = parse_url_or_log',
              'ProcessingRule.parse_url is not the non-raising parser', pr.module.path)
    _join_base_rule(ctx, esc)
    ck.info['escape_unknown_externals'] = dict(sorted(esc.unknown_external.items(), key=lambda kv: -kv[1])[:40])


def _join_base_rule(ctx, esc):
    """wpull.url.urljoin reads `base_url.partition(':')` for a scheme-relative link: a base that can be None turns `//host/x` in a
    scraped document into an AttributeError, which `urljoin_safe` (ValueError only) does not catch.  The base handed to either join
    is therefore never a value that may be None: a local all of whose definitions are non-None (parameters are the caller's duty;
    `a or b` is as good as b; the or-None helpers of the repository - urljoin_safe itself - are None-able), or it is tested first."""
    repo, ck, res = ctx.repo, ctx.check, ctx.res
    from ..escape import guarded_truthy
    n_sites = 0

    def nullable(f, defs, e, depth=0):
        if e is None or depth > 6:
            return None
        if isinstance(e, ast.Constant):
            return 'None' if e.value is None else None
        if isinstance(e, ast.BoolOp) and isinstance(e.op, ast.Or):
            return nullable(f, defs, e.values[-1], depth + 1)
        if isinstance(e, ast.BoolOp):
            return next((w for w in (nullable(f, defs, v, depth + 1) for v in e.values) if w), None)
        if isinstance(e, ast.IfExp):
            return nullable(f, defs, e.body, depth + 1) or nullable(f, defs, e.orelse, depth + 1)
        if isinstance(e, ast.Name):
            for v, k, st in defs.get(e.id, []):
                if k == 'param':
                    continue
                if k != 'assign':
                    continue
                w = nullable(f, defs, v, depth + 1)
                if w:
                    return '%s = %s' % (e.id, w) if len(w) < 80 else w
            return None
        if isinstance(e, ast.Call):
            for g in res.callee_funcs(f, e, allow_name=True, count=False):
                if esc._can_return_none(g):
                    return '%s() may return None' % g.name
            if U.attr_name(e) == 'get' and len(e.args) == 1:
                return norm_text(e)[:40] + ' may be None'
        return None

    for f in repo.funcs.values():
        mn = f.module.name
        if mn.startswith(('wpull.thirdparty', 'wpull.testing')) or mn.endswith('_test') or mn == 'wpull.converter':
            continue
        defs = None
        for c in U.calls(f.node):
            if U.attr_name(c) not in ('urljoin_safe', 'urljoin') and not (isinstance(c.func, ast.Name) and c.func.id in ('urljoin_safe', 'urljoin')):
                continue
            if 'urllib' in norm_text(c.func) or not c.args:
                continue
            n_sites += 1
            defs = defs or U.local_defs(f.node)
            b = c.args[0]
            why = nullable(f, defs, b)
            if why and isinstance(b, ast.Name) and guarded_truthy(f.node, b.id, c):
                why = None
            ck.expect(not why, 'C11-D3', f.qual, '%s(%s, ...): the base is not None' % (U.attr_name(c) or c.func.id, norm_text(b)[:40]),
                      'the base of this join can be None (%s): a scheme-relative link (`//host/x`) then raises AttributeError in '
                      'wpull.url.urljoin, which no caller catches' % why, f.loc(c))
    if n_sites < 10:
        raise AnalysisError('expected at least ten URL join sites (found %d)' % n_sites)


_STR_ONLY = {'match', 'search', 'fullmatch', 'sub', 'subn', 'split', 'findall', 'finditer', 'join', 'startswith', 'endswith', 'fnmatch', 'fnmatchcase'}


def _derefs_param(repo, res, fi, pname, depth=0):
    """Does fi use its parameter `pname` in a way that fails for None (attribute, subscript, iteration, len, `in`)
    without a guard - directly or by handing it to another function of the module that does?"""
    from ..escape import guarded_truthy
    if depth > 3:
        return None
    for n in walk_no_nested(fi.node):
        hit = None
        if isinstance(n, ast.Attribute) and isinstance(n.value, ast.Name) and n.value.id == pname and isinstance(n.ctx, ast.Load):
            hit = n
        elif isinstance(n, ast.Subscript) and isinstance(n.value, ast.Name) and n.value.id == pname:
            hit = n
        elif isinstance(n, (ast.For, ast.comprehension)) and isinstance(n.iter, ast.Name) and n.iter.id == pname:
            hit = n.iter
        elif isinstance(n, ast.Compare) and any(isinstance(op, (ast.In, ast.NotIn)) for op in n.ops) and any(
                isinstance(c, ast.Name) and c.id == pname for c in n.comparators):
            hit = n
        elif isinstance(n, ast.Call):
            if dotted(n.func) == 'len' and n.args and isinstance(n.args[0], ast.Name) and n.args[0].id == pname:
                hit = n
            else:
                if U.attr_name(n) in _STR_ONLY and any(isinstance(a, ast.Name) and a.id == pname for a in n.args) \
                        and not res.callee_funcs(fi, n, allow_name=False, count=False):
                    hit = n            # pattern.match(None), str.join(None), 'x'.startswith(None): TypeError
                for i, a in enumerate(n.args):
                    if isinstance(a, ast.Name) and a.id == pname:
                        for g in res.callee_funcs(fi, n, allow_name=False, count=False):
                            gp = [p for p in g.params if p not in ('self', 'cls')]
                            if i < len(gp) and not guarded_truthy(fi.node, pname, n):
                                sub = _derefs_param(repo, res, g, gp[i], depth + 1)
                                if sub:
                                    return '%s -> %s' % (norm_text(n)[:50], sub)
        if hit is not None and not guarded_truthy(fi.node, pname, hit):
            return '%s in %s [%s]' % (norm_text(hit)[:50], fi.qual.split(':')[-1], fi.loc(hit))
    return None


def _none_field_rule(ctx, ui):
    repo, ck, res = ctx.repo, ctx.check, ctx.res
    from ..dtable import Interp, fmt_val
    parse = repo.func(URL + ':URLInfo.parse')
    init = repo.func(URL + ':URLInfo.__init__')
    all_fields = [t.attr for s_ in walk_no_nested(init.node) if isinstance(s_, ast.Assign) for t in s_.targets if U.is_self_attr(t)]
    # the early return for non-network schemes
    early = None
    for i in walk_no_nested(parse.node):
        if isinstance(i, ast.If) and isinstance(i.test, ast.Compare) and isinstance(i.test.ops[0], ast.NotIn) \
                and dotted(i.test.comparators[0]) == 'RELATIVE_SCHEME_DEFAULT_PORTS' and i.body and isinstance(i.body[-1], ast.Return):
            early = i
    if early is None:
        ck.ok('C11-D1b', parse.qual, 'no result is produced for non-network schemes', nontrivial=False)
        return
    set_there = {t.attr for s_ in early.body if isinstance(s_, ast.Assign) for t in s_.targets
                 if isinstance(t, ast.Attribute) and isinstance(t.value, ast.Name)}
    # fields assigned before the branch on every path (e.g. info.encoding)
    for s_ in parse.node.body:
        if s_ is early:
            break
        if isinstance(s_, ast.Assign):
            for t in s_.targets:
                if isinstance(t, ast.Attribute) and isinstance(t.value, ast.Name):
                    set_there.add(t.attr)
    none_fields = [f for f in all_fields if f not in set_there and not f.startswith('_')]
    ck.info['non_network_none_fields'] = none_fields
    for a in _accessors(ui):
        m = ui.methods.get(a)
        if m is None:
            continue
        it = Interp(repo, m, rename=False)
        try:
            leaves = it.leaves()
        except Exception:
            continue
        bad = None
        for o in leaves:
            ok_leaf = True
            for k, v in o.val.items():
                if k[0] == 'in' and k[1] == 'self.scheme' and k[2] == 'RELATIVE_SCHEME_DEFAULT_PORTS' and v is True:
                    ok_leaf = False
                if k[0] == 'T' and k[1] == 'RELATIVE_SCHEME_DEFAULT_PORTS.get(self.scheme)' and v is True:
                    ok_leaf = False
                for f in none_fields + ['_query_map', '_url']:
                    if k[0] == 'T' and k[1] == 'self.' + f and v is True:
                        ok_leaf = False
                    if k[0] == 'is' and k[1] == 'self.' + f and k[2] == 'None' and v is False:
                        ok_leaf = False
            if not ok_leaf:
                continue
            texts = list(o.effects) + ([norm_text(o.value)] if o.value is not None else [])
            for t in texts:
                try:
                    tree = ast.parse(t)
                except SyntaxError:
                    continue
                for n in ast.walk(tree):
                    if isinstance(n, (ast.Attribute, ast.Subscript)) and U.is_self_attr(n.value) and n.value.attr in none_fields \
                            and not (isinstance(n, ast.Attribute) and isinstance(getattr(n, 'ctx', None), ast.Store)):
                        bad = bad or 'self.%s is None here but `%s` is evaluated [%s]' % (n.value.attr, norm_text(n)[:50], fmt_val(o.val))
                    if isinstance(n, ast.Call):
                        for i, arg in enumerate(n.args):
                            if U.is_self_attr(arg) and arg.attr in none_fields:
                                for g in res.callee_funcs(m, n, allow_name=False, count=False):
                                    gp = [p for p in g.params if p not in ('self', 'cls')]
                                    if i < len(gp):
                                        why = _derefs_param(repo, res, g, gp[i])
                                        if why:
                                            bad = bad or 'self.%s (None for non-network schemes) is passed to %s which evaluates %s' % (
                                                arg.attr, g.qual.split(':')[-1], why)
        ck.expect(bad is None, 'C11-D1b', m.qual, 'readable when authority/query fields are None',
                  'reading this accessor on a parsed non-network URL (e.g. mailto:x) raises AttributeError/TypeError: %s' % bad, m.loc())
    _none_field_consumers(ctx, none_fields)


def _scheme_test(repo, mod, test, base, s):
    """Value of a guard expression over `<base>.scheme` for the scheme string s: True / False / None (cannot tell)."""
    def is_scheme(e):
        return isinstance(e, ast.Attribute) and e.attr == 'scheme' and norm_text(e.value) == base
    def consts(e):
        if isinstance(e, (ast.Tuple, ast.List, ast.Set)) and all(isinstance(x, ast.Constant) for x in e.elts):
            return [x.value for x in e.elts]
        if isinstance(e, ast.Constant) and isinstance(e.value, str):
            return None
        try:
            v = repo.fold(mod, e)
        except Exception:
            return None
        if isinstance(v, dict):
            return list(v)
        if isinstance(v, (tuple, list, set, frozenset)):
            return list(v)
        return None
    t = test
    if isinstance(t, ast.UnaryOp) and isinstance(t.op, ast.Not):
        v = _scheme_test(repo, mod, t.operand, base, s)
        return None if v is None else (not v)
    if isinstance(t, ast.BoolOp):
        vs = [_scheme_test(repo, mod, x, base, s) for x in t.values]
        if isinstance(t.op, ast.Or):
            return True if any(v is True for v in vs) else (None if any(v is None for v in vs) else False)
        return False if any(v is False for v in vs) else (None if any(v is None for v in vs) else True)
    if isinstance(t, ast.Compare) and len(t.ops) == 1 and is_scheme(t.left):
        op, r = t.ops[0], t.comparators[0]
        if isinstance(op, (ast.In, ast.NotIn)):
            cs = consts(r)
            if cs is None:
                return None
            return (s in cs) == isinstance(op, ast.In)
        if isinstance(op, (ast.Eq, ast.NotEq)) and isinstance(r, ast.Constant):
            return (s == r.value) == isinstance(op, ast.Eq)
    if isinstance(t, ast.Call) and isinstance(t.func, ast.Attribute) and is_scheme(t.func.value) and t.func.attr in ('startswith', 'endswith') \
            and len(t.args) == 1:
        a = t.args[0]
        vals = [a.value] if isinstance(a, ast.Constant) and isinstance(a.value, str) else consts(a)
        if vals is None:
            return None
        return any(getattr(s, t.func.attr)(v) for v in vals)
    return None


def _none_field_consumers(ctx, none_fields):
    """Outside wpull/url.py: a URLInfo taken from a scraped link may be the result for a non-network scheme, whose authority /
    query / fragment / host fields are None.  Whoever dereferences such a field (method call, subscript, a helper that needs a str)
    first pins the scheme to the network schemes - by a guard that is decided, here, for every probe scheme outside the parser's own
    table (including the near misses `httpx`, `https+x`, `ftps`) - or tests the field itself."""
    repo, ck, res = ctx.repo, ctx.check, ctx.res
    from ..escape import guarded_truthy
    table = repo.fold(repo.module(URL), ast.Name(id='RELATIVE_SCHEME_DEFAULT_PORTS', ctx=ast.Load()))
    if not isinstance(table, dict) or 'http' not in table:
        raise AnalysisError('RELATIVE_SCHEME_DEFAULT_PORTS is not a constant table')
    probes = sorted({k + suf for k in table for suf in ('s', 'x', '+unix', '-equiv', 'ss')} | {'mailto', 'javascript', 'data', 'file', 'about', 'urn', 'tel'})
    probes = [p for p in probes if p not in table]
    n_sites = 0
    for f in repo.funcs.values():
        mn = f.module.name
        if mn == URL or mn.startswith(('wpull.thirdparty', 'wpull.testing')) or mn.endswith('_test'):
            continue
        sites = []
        for n in walk_no_nested(f.node):
            fld = None
            if isinstance(n, (ast.Attribute, ast.Subscript)) and isinstance(n.value, ast.Attribute) and n.value.attr in none_fields \
                    and isinstance(getattr(n, 'ctx', None), ast.Load):
                fld = n.value
                what = norm_text(n)[:50]
            elif isinstance(n, ast.Call):
                for i, a in enumerate(n.args):
                    if isinstance(a, ast.Attribute) and a.attr in none_fields:
                        for g in res.callee_funcs(f, n, allow_name=True, count=False):
                            gp = [p for p in g.params if p not in ('self', 'cls')]
                            if i < len(gp):
                                why = _derefs_param(repo, res, g, gp[i])
                                if why:
                                    fld, what = a, '%s -> %s' % (norm_text(n)[:40], why)
            if fld is None:
                continue
            base = norm_text(fld.value)
            if not (base.endswith('url_info') or base.endswith('_info') or base == 'info'):
                continue
            sites.append((n, fld, base, what))
        if not sites:
            continue
        parents = U.parents(f.node)
        for n, fld, base, what in sites:
            n_sites += 1
            ok = False
            # (a) the field itself is tested: `X.query and X.query[...]`, `if X.fragment:`
            cur = n
            while id(cur) in parents and not ok:
                par = parents[id(cur)]
                if isinstance(par, ast.BoolOp) and isinstance(par.op, ast.And):
                    idx = next((i for i, v in enumerate(par.values) if v is cur or any(x is cur for x in ast.walk(v))), 0)
                    ok = any(norm_text(v) == norm_text(fld) for v in par.values[:idx])
                if isinstance(par, (ast.If, ast.IfExp)) and any(x is cur for b in ([par.body] if isinstance(par, ast.IfExp) else par.body) for x in ast.walk(b)) \
                        and norm_text(par.test) == norm_text(fld):
                    ok = True
                cur = par
            # (b) a scheme guard: an earlier `if <test>: return/raise/continue` of an enclosing block that every probe takes, or
            #     an enclosing `if <test>:` no probe enters
            why_not = 'no guard on %s.scheme precedes it' % base
            cur = n
            while id(cur) in parents and not ok:
                par = parents[id(cur)]
                if isinstance(par, ast.If) and any(x is cur for b in par.body for x in ast.walk(b)):
                    vs = [_scheme_test(repo, f.module, par.test, base, s) for s in probes]
                    if all(v is False for v in vs):
                        ok = True
                for fldname in ('body', 'orelse', 'finalbody'):
                    blk = getattr(par, fldname, None)
                    if isinstance(blk, list) and cur in blk:
                        for st in blk[:blk.index(cur)]:
                            if isinstance(st, ast.If) and st.body and isinstance(st.body[-1], (ast.Return, ast.Raise, ast.Continue)):
                                vs = {s: _scheme_test(repo, f.module, st.test, base, s) for s in probes}
                                if any(v is not None for v in vs.values()):
                                    miss = [s for s, v in vs.items() if v is not True]
                                    if not miss:
                                        ok = True
                                    else:
                                        why_not = 'the guard `%s` lets the scheme(s) %s through, for which the parser leaves the field None' % (
                                            norm_text(st.test)[:60], ', '.join(repr(s) for s in miss[:4]))
                cur = par
            ck.expect(ok, 'C11-D1b', f.qual, '%s: field of a network-scheme URL (or tested)' % what.split(' [')[0],
                      '`%s` needs a str but %s is None for every scheme outside the parser\'s table: %s - a scraped link with such a scheme '
                      'ends the crawl with AttributeError/TypeError' % (what, norm_text(fld), why_not), f.loc(n))
    ck.info['none_field_consumer_sites'] = n_sites
    if n_sites < 3:
        raise AnalysisError('expected the URL rewriter\'s uses of query/fragment among the consumers of scheme-dependent fields (found %d)' % n_sites)


def _within(root, node):
    return root is node or any(n is node for n in ast.walk(root))


def _undecreasing_calls(fn, names):
    """Calls of one of `names` inside fn none of whose arguments is a strict part of a parameter of fn: a slice with a constant
    lower bound >= 1 or a constant negative upper bound, or a local unpacked from / indexed out of partition()/split() of a parameter."""
    a = fn.args
    params = {x.arg for x in a.posonlyargs + a.args + a.kwonlyargs}
    defs = U.local_defs(fn)

    def strict_part(e, depth=0):
        if depth > 3:
            return False
        if isinstance(e, ast.Subscript) and isinstance(e.value, ast.Name) and e.value.id in params and isinstance(e.slice, ast.Slice):
            lo, hi = e.slice.lower, e.slice.upper
            if isinstance(lo, ast.Constant) and isinstance(lo.value, int) and lo.value >= 1:
                return True
            if isinstance(hi, ast.UnaryOp) and isinstance(hi.op, ast.USub) and isinstance(hi.operand, ast.Constant) and hi.operand.value >= 1:
                return True
            return False
        if isinstance(e, ast.Subscript) and isinstance(e.value, ast.Call) and U.attr_name(e.value) in ('partition', 'rpartition', 'split', 'rsplit') \
                and isinstance(e.value.func.value, ast.Name) and e.value.func.value.id in params and e.value.args:
            return True
        if isinstance(e, ast.Name) and e.id not in params:
            ds = defs.get(e.id, [])
            return bool(ds) and all(
                (k.startswith('tuple:') and isinstance(v, ast.Call) and U.attr_name(v) in ('partition', 'rpartition', 'split', 'rsplit')
                 and isinstance(v.func.value, ast.Name) and v.func.value.id in params and v.args)
                or (k == 'assign' and v is not None and strict_part(v, depth + 1)) for v, k, s_ in ds)
        return False
    out = []
    for c in U.calls(fn):
        nm = c.func.id if isinstance(c.func, ast.Name) else (c.func.attr if isinstance(c.func, ast.Attribute) else None)
        if nm in names and not (isinstance(c.func, ast.Attribute) and not isinstance(c.func.value, ast.Name)):
            if isinstance(c.func, ast.Attribute) and c.func.value.id not in ('self', 'cls'):
                continue      # urllib.parse.urljoin(...) is not this module's urljoin
            if not any(strict_part(x) for x in list(c.args) + [k.value for k in c.keywords]):
                out.append(c)
    return out


def _selfcheck_decreasing():
    """Positive and negative example for the zero-instance rule (must hold on every run)."""
    bad = ast.parse("def f(a, b):\n    if b.startswith('//'):\n        return f(a, 'x:' + b)\n    return a\n").body[0]
    good = ast.parse("def g(s):\n    if not s:\n        return 0\n    head, sep, rest = s.partition('/')\n    return g(s[1:]) + g(rest)\n").body[0]
    if len(_undecreasing_calls(bad, {'f'})) != 1 or _undecreasing_calls(good, {'g'}):
        raise AnalysisError('C11-D2 self-check failed: the decreasing-argument detector no longer separates its two examples')


_VIP = {}


def mod_assign(repo, name):
    v = repo.module(URL).assigns.get(name)
    return v if v is not None else ast.Constant(value='')


def _validated_in_parse(ctx, esc, ui, it):
    """An accessor re-applies a normaliser to a stored field; the exception cannot occur there when URLInfo.parse - the only
    writer of that field - has applied the same normaliser with the same (default) arguments to the stored value before
    returning: whatever it raises, it raises inside parse."""
    repo, res = ctx.repo, ctx.res
    key = it
    if key in _VIP:
        return _VIP[key]
    _VIP[key] = None
    parse = ui.methods.get('parse')
    if parse is None:
        return None
    # the object under construction in parse
    obj = None
    for n in walk_no_nested(parse.node):
        if isinstance(n, ast.Assign) and isinstance(n.value, ast.Call) and norm_text(n.value.func) in ('URLInfo', 'cls') and isinstance(n.targets[0], ast.Name):
            obj = n.targets[0].id
    if obj is None:
        return None
    validated = {}      # (callee name, field) -> True
    pm = U.parents(parse.node)
    for c in U.calls(parse.node):
        if isinstance(c.func, ast.Name) and len(c.args) == 1 and not c.keywords and isinstance(c.args[0], ast.Attribute) \
                and isinstance(c.args[0].value, ast.Name) and c.args[0].value.id == obj:
            if any(isinstance(a, (ast.Try, ast.If, ast.For, ast.While)) for a in U.ancestors(c, pm)):
                continue
            fld = c.args[0].attr
            stores = [n for n in walk_no_nested(parse.node) if isinstance(n, ast.Assign) and any(
                isinstance(t, ast.Attribute) and isinstance(t.value, ast.Name) and t.value.id == obj and t.attr == fld for t in n.targets)]
            if stores and all(st.lineno < c.lineno for st in stores):
                validated[(c.func.id, fld)] = True
        elif isinstance(c.func, ast.Name) and len(c.args) == 1 and not c.keywords and isinstance(c.args[0], ast.Name):
            # the normaliser applied to the raw local X, the field being stored as percent_decode(X): unquoting with the default
            # codec (UTF-8, errors='replace') yields input characters and decoded scalars only, so it cannot make text
            # unencodable that was encodable (premise about urllib.parse.unquote; its defaults are checked here)
            if any(isinstance(a, (ast.Try, ast.If, ast.For, ast.While)) for a in U.ancestors(c, pm)):
                continue
            x = c.args[0].id
            for n in walk_no_nested(parse.node):
                if isinstance(n, ast.Assign) and len(n.targets) == 1 and isinstance(n.targets[0], ast.Attribute) \
                        and isinstance(n.targets[0].value, ast.Name) and n.targets[0].value.id == obj \
                        and isinstance(n.value, ast.Call) and norm_text(n.value.func) in ('percent_decode', 'urllib.parse.unquote') \
                        and len(n.value.args) == 1 and not n.value.keywords and isinstance(n.value.args[0], ast.Name) and n.value.args[0].id == x \
                        and norm_text(mod_assign(repo, 'percent_decode')) in ('urllib.parse.unquote', ''):
                    validated[(c.func.id, n.targets[0].attr)] = True
    if not validated:
        return None
    # the field is written by parse only
    for (fn_, fld) in validated:
        for m in ui.methods.values():
            if m is parse:
                continue
            for n in walk_no_nested(m.node):
                if isinstance(n, (ast.Assign, ast.AugAssign)):
                    tg = n.targets if isinstance(n, ast.Assign) else [n.target]
                    if any(U.is_self_attr(t, fld) for t in tg) and not (
                            m.name == '__init__' and isinstance(n, ast.Assign) and isinstance(n.value, ast.Constant) and n.value.value is None):
                        return None
    # every call in the non-parsing methods of URLInfo through which the item can arrive has a validated form
    sites = 0
    for m in list(ui.methods.values()):
        if 'classmethod' in m.decorators or 'staticmethod' in m.decorators:
            continue
        for c in U.calls(m.node):
            for g in res.callee_funcs(m, c, allow_name=False, count=False):
                if g.cls is ui:
                    continue
                got = set()
                for (qq, _env), items in esc.final.items():
                    if qq == g.qual:
                        got |= items
                if it in got:
                    sites += 1
                    okc = isinstance(c.func, ast.Name) and len(c.args) == 1 and not c.keywords and U.is_self_attr(c.args[0]) \
                        and (c.func.id, c.args[0].attr) in validated
                    if not okc:
                        return None
    if sites:
        _VIP[key] = 'URLInfo.parse applies the same normaliser to the stored %s before it returns (%d accessor call site(s))' % (
            '/'.join(sorted({f for _, f in validated})), sites)
    return _VIP[key]


def _assert_implied(repo, mod, it):
    """Frozen, commented implication table (DESIGN C11-D1): the bracket asserts in
    hostname_with_port are implied by parse_hostname's forbidden-character check
    (FORBIDDEN_HOSTNAME_CHARS contains '[' and ']') and by the IPv6 branch returning
    ipaddress.IPv6Address(...).compressed (never bracketed).  Both facts are
    re-established from the source on every run."""
    txt = it.origin
    if "assert '[' not in self.hostname" in txt or "assert ']' not in self.hostname" in txt:
        try:
            chars = repo.fold(mod, ast.parse('FORBIDDEN_HOSTNAME_CHARS').body[0].value)
        except ValueError:
            return False
        chars = set(chars) if not isinstance(chars, str) else set(chars)
        if not {'[', ']'} <= {c for c in chars}:
            return False
        ph = repo.func(URL + ':URLInfo.parse_hostname')
        has_check = any(isinstance(n, ast.Raise) for n in walk_no_nested(ph.node)) and any(
            isinstance(n, ast.Name) and n.id == 'FORBIDDEN_HOSTNAME_CHARS' for n in ast.walk(ph.node))
        p6 = repo.func(URL + ':URLInfo.parse_ipv6_hostname')
        compressed = any(isinstance(n, ast.Attribute) and n.attr == 'compressed' for n in ast.walk(p6.node))
        # ipaddress accepts a zone id ("fe80::1%<anything>", Python >= 3.9) and .compressed keeps it verbatim, brackets
        # included: the literal must be refused when it contains '%' (or the result checked against the forbidden set)
        zone_refused = False
        for n in walk_no_nested(p6.node):
            if isinstance(n, ast.If) and n.body and isinstance(n.body[-1], ast.Raise) and any(
                    isinstance(c, ast.Compare) and isinstance(c.ops[0], ast.In) and isinstance(c.left, ast.Constant) and c.left.value == '%'
                    for c in ast.walk(n.test)):
                zone_refused = True
            if isinstance(n, ast.If) and n.body and isinstance(n.body[-1], ast.Raise) and any(
                    isinstance(x, ast.Name) and x.id == 'FORBIDDEN_HOSTNAME_CHARS' for x in ast.walk(n.test)):
                zone_refused = True
        return has_check and compressed and zone_refused
    return False


def _sccs(graph):
    index = {}
    low = {}
    stack = []
    on = set()
    out = []
    counter = [0]

    def strong(v):
        index[v] = low[v] = counter[0]
        counter[0] += 1
        stack.append(v)
        on.add(v)
        for w in graph.get(v, ()):
            if w not in graph:
                continue
            if w not in index:
                strong(w)
                low[v] = min(low[v], low[w])
            elif w in on:
                low[v] = min(low[v], index[w])
        if low[v] == index[v]:
            comp = set()
            while True:
                w = stack.pop()
                on.discard(w)
                comp.add(w)
                if w == v:
                    break
            out.append(comp)

    import sys
    sys.setrecursionlimit(10000)
    for v in list(graph):
        if v not in index:
            strong(v)
    return out
