"""C12 - the connection pool never shares, over-allocates, leaks or deadlocks.

Lock / counter pairing on every exit including cancellation at every suspension
point, writers of the busy/ready sets, the bound guard, wake-ups, suspension inside
held regions and lock order (DESIGN.md section 3, C12-D1..D7).
"""
import ast

from ..index import dotted, walk_no_nested, norm_text, AnalysisError
from ..cfg import describe_path
from .. import util as U
from .. import locks as L
from .. import flow as F
from ..dtable import Interp, compare, fmt_val

POOL = 'wpull.network.pool'


def _subscript_of(node, field):
    return isinstance(node, ast.Subscript) and U.is_self_attr(node.value, field)


def run(ctx):
    repo, ck, res = ctx.repo, ctx.check, ctx.res
    mod = repo.module(POOL)
    hp = repo.cls(POOL + ':HostPool')
    cp = repo.cls(POOL + ':ConnectionPool')
    ck.assume('asyncio semantics of CPython 3.4-3.6: cooperative scheduling, cancellation only at `yield from`, '
              'Condition.wait() re-acquires the lock before re-raising, acquire() of a free lock does not suspend')
    ck.assume('decides pairing/ordering on all paths; fairness and global liveness over all schedules are not decided')
    ck.rule('C12-D1', 'every explicit acquire of a pool lock is released on every path to a normal or exceptional exit '
                      '(exception edges: every suspension point, every raise/assert, every call outside the table of total callees)')
    ck.rule('C12-D2', 'the per-host waiter count incremented in ConnectionPool.acquire is decremented on every exit, '
                      'including failure or cancellation of the inner acquire')
    ck.rule('C12-D3', 'busy/ready are mutated only by acquire/release/clean under the lock; a connection becomes busy only '
                      'after leaving `ready` or being created under `len(busy) < max_connections`')
    ck.rule('C12-D4', 'release updates the sets, then notifies a waiter, then releases the lock, on every normal path')
    ck.rule('C12-D5', 'inside a held region the only suspensions are wait() on the same condition or a call that takes a '
                      'lock later in the lock order; the lock-order graph is acyclic')
    ck.rule('C12-D6', 'clean drops a host entry iff it has no waiters and no connections, and drops both maps together')
    ck.rule('C12-D7', 'sessions register every connection they acquire and release all of them on exit')
    ck.rule('C12-D8', 'cancellation and failure keep the bookkeeping whole: (a) a waiter cancelled in wait() passes the wake-up it may '
                      'have consumed on (notify in a CancelledError/BaseException handler, then re-raise); (b) awaiting a deferred release '
                      'is shielded from the cancellation of the task that happens to drain it; (c) a pool wrapper that does further '
                      'work after checking a connection out gives it back on every exception edge before the connection is returned; '
                      '(d) every override of acquire returns the connection')

    fields = {}
    for ci in (hp, cp):
        fields[ci.qual] = L.lock_fields(repo, ci)
    if set(fields[hp.qual]) != {'_lock', '_condition'} and not fields[hp.qual]:
        raise AnalysisError('HostPool lock fields not found')
    ck.info['lock_fields'] = {q: {k: (v.kind, v.over) for k, v in f.items()} for q, f in fields.items()}

    # ------------------------------------------------------------------ D1 / D5
    regions = []
    for ci in (hp, cp):
        for m in ci.methods.values():
            cfg = ctx.cfg(m)
            for r in L.held_regions(cfg, m, fields[ci.qual]):
                regions.append(r)
                if r.form == 'with':
                    ck.ok('C12-D1', m.qual, 'with (yield from self.%s): released by construction' % r.field)
                    continue
                if r.leaks:
                    for path in r.leaks:
                        last = path[-1]
                        prev = path[-2][0] if len(path) > 1 else None
                        ck.bad('C12-D1', m.qual, 'self.%s.acquire() -> %s via %s' % (
                            r.field, last[0].kind, (last[1] + ' at ' + norm_text(L.node_expr(prev))[:60]) if prev is not None and L.node_expr(prev) is not None else last[1]),
                            'lock self.%s acquired at line %s is still held when the function exits through %s '
                            '(%s): every later client of this host blocks forever' % (
                                r.field, r.acquire_node.lineno, last[0].kind, last[1]),
                            m.loc(r.acquire_node.stmt), describe_path(list(path)))
                else:
                    ck.ok('C12-D1', m.qual, 'self.%s.acquire()@L%s released on all %d-node region exits' % (
                        r.field, r.acquire_node.lineno, len(r.nodes)))
    explicit = [r for r in regions if r.form == 'explicit']
    if len(regions) < 5:
        ck.bad('C12-D1', POOL, 'held regions', 'expected at least 5 lock regions in HostPool/ConnectionPool, found %d' % len(regions))

    # lock order: edges L1 -> L2 when a region of L1 awaits a function that acquires L2
    order_edges = set()
    for r in regions:
        cls_fields = fields[r.fi.cls.qual]
        group = cls_fields[r.field].group
        for n in r.nodes:
            for y in L.suspensions(n):
                v = y.value
                ok = False
                what = norm_text(v)
                if isinstance(v, ast.Call) and isinstance(v.func, ast.Attribute) and v.func.attr == 'wait' \
                        and U.is_self_attr(v.func.value) and v.func.value.attr in cls_fields \
                        and cls_fields[v.func.value.attr].group == group and cls_fields[v.func.value.attr].kind == 'Condition':
                    ok = True
                    why = 'wait() on the same condition'
                elif isinstance(v, ast.Call):
                    callees = res.callee_funcs(r.fi, v, allow_name=True, count=False)
                    if callees:
                        inner_ok = True
                        for g in callees:
                            if g.cls is None or g.cls.qual not in fields:
                                inner_ok = False
                                continue
                            gcfg = ctx.cfg(g)
                            gregs = L.held_regions(gcfg, g, fields[g.cls.qual])
                            for gr in gregs:
                                order_edges.add(((r.fi.cls.name, group), (g.cls.name, fields[g.cls.qual][gr.field].group)))
                            # callee must not suspend outside its own lock acquisition / same-condition waits
                            for gn in gcfg.nodes:
                                for gy in L.suspensions(gn):
                                    gv = gy.value
                                    if U.is_self_attr(gv) and gv.attr in fields[g.cls.qual]:
                                        continue     # with (yield from lock)
                                    if isinstance(gv, ast.Call) and isinstance(gv.func, ast.Attribute) \
                                            and gv.func.attr == 'acquire' and U.is_self_attr(gv.func.value) \
                                            and gv.func.value.attr in fields[g.cls.qual]:
                                        continue
                                    # a wait() in the callee gives up only the callee's own lock: the caller's lock stays
                                    # held for as long as the wait lasts (every other host is blocked meanwhile)
                                    inner_ok = False
                        ok = inner_ok
                        why = 'awaits %s, which %s' % (', '.join(g.qual for g in callees), 'only takes locks later in the order' if inner_ok else 'can wait on a condition or suspend elsewhere')
                    else:
                        why = 'unresolved'
                elif U.is_self_attr(v) and v.attr in cls_fields:
                    ok = cls_fields[v.attr].group != group
                    if ok:
                        order_edges.add(((r.fi.cls.name, group), (r.fi.cls.name, cls_fields[v.attr].group)))
                    why = 'nested lock'
                else:
                    why = 'foreign suspension'
                ck.expect(ok, 'C12-D5', r.fi.qual, 'while holding self.%s: yield from %s' % (r.field, what[:70]),
                          'suspension on %s while holding self.%s: the lock is held across an unbounded wait (%s)' % (what[:70], r.field, why),
                          r.fi.loc(y), okmsg='while holding self.%s: %s (%s)' % (r.field, what[:50], why))
    # acyclic
    nodes = {a for a, b in order_edges} | {b for a, b in order_edges}
    graph = {n: {b for a, b in order_edges if a == n} for n in nodes}
    cyc = _has_cycle(graph)
    ck.expect(not cyc, 'C12-D5', POOL, 'lock order %s acyclic' % sorted('%s.%s->%s.%s' % (a[0], a[1], b[0], b[1]) for a, b in order_edges),
              'lock-order cycle: %s' % cyc)

    # ------------------------------------------------------------------ D2
    acq = repo.func(cp.qual + '.acquire')
    cfg = ctx.cfg(acq)
    W = '_host_pool_waiters'

    def is_inc(n):
        s = n.stmt
        if n.kind != 'stmt':
            return False
        if isinstance(s, ast.AugAssign) and isinstance(s.op, ast.Add) and _subscript_of(s.target, W):
            return True
        if isinstance(s, ast.Assign) and any(_subscript_of(t, W) for t in s.targets) and isinstance(s.value, ast.Constant) \
                and s.value.value == 1:
            return True
        return False

    def is_dec(n):
        s = n.stmt
        if n.kind == 'stmt' and isinstance(s, ast.AugAssign) and isinstance(s.op, ast.Sub) and _subscript_of(s.target, W) \
                and isinstance(s.value, ast.Constant) and s.value.value == 1:
            return True
        # `if key in self._host_pool_waiters: waiters[key] -= 1` : nothing to undo on the false branch
        if n.kind == 'if' and isinstance(s.test, ast.Compare) and isinstance(s.test.ops[0], ast.In) \
                and U.is_self_attr(s.test.comparators[0], W) and not s.orelse \
                and any(isinstance(b, ast.AugAssign) and isinstance(b.op, ast.Sub) and _subscript_of(b.target, W) for b in s.body):
            return True
        return False
    incs = [n for n in cfg.nodes if is_inc(n)]
    if not incs:
        ck.bad('C12-D2', acq.qual, 'waiter count increment', 'ConnectionPool.acquire no longer registers a waiter', acq.loc())
    for n in incs:
        def edge_ok(a, b, k):
            if not k.startswith('x:'):
                return True
            return L.exception_edge_counts(a, k)
        p = cfg.find_path(n, lambda m: m in (cfg.exit, cfg.xexit), edge_ok=edge_ok, stop=is_dec,
                          first_edges=lambda a, b, k: not k.startswith('x:'))
        ck.expect(p is None, 'C12-D2', acq.qual, 'waiters[key] incremented (%s) is decremented on every exit' % norm_text(n.stmt),
                  'the waiter count registered at line %s is not undone when the function leaves through %s: the host '
                  'entry is never dropped' % (n.lineno, describe_path(p[-2:]) if p else ''), acq.loc(n.stmt),
                  path=describe_path(p) if p else None)
    decs = [n for n in cfg.nodes if is_dec(n)]
    # no double decrement: from a decrement no other decrement is reachable
    for n in decs:
        p = cfg.find_path(n, is_dec, edge_ok=lambda a, b, k: True)
        ck.expect(p is None or all(m.stmt is n.stmt or (n.kind == 'if' and any(m.stmt is x for x in ast.walk(n.stmt))) or
                                   (m.kind == 'if' and any(n.stmt is x for x in ast.walk(m.stmt))) for m, _ in p[-1:]),
                  'C12-D2', acq.qual, 'no second decrement after %s' % norm_text(n.stmt)[:50],
                  'the waiter count can be decremented twice on one path', acq.loc(n.stmt), path=describe_path(p) if p else None)

    # ------------------------------------------------------------------ D3
    allowed = {
        (hp.qual + '.__init__', 'ready', 'assign'), (hp.qual + '.__init__', 'busy', 'assign'),
        (hp.qual + '.acquire', 'ready', 'pop'), (hp.qual + '.acquire', 'busy', 'add'),
        (hp.qual + '.release', 'busy', 'remove'), (hp.qual + '.release', 'ready', 'add'),
        (hp.qual + '.clean', 'ready', 'remove'),
    }
    MUT = {'add', 'remove', 'pop', 'discard', 'clear', 'update', 'difference_update', 'intersection_update',
           'symmetric_difference_update', 'append', 'extend', 'insert'}
    seen = set()
    region_nodes = {}
    for r in regions:
        region_nodes.setdefault(r.fi.qual, set()).update(id(n.stmt) for n in r.nodes)
    for f in repo.funcs.values():
        if f.module.name.startswith('wpull.thirdparty'):
            continue
        pm = None
        for n in walk_no_nested(f.node):
            hit = None
            if isinstance(n, ast.Call) and isinstance(n.func, ast.Attribute) and n.func.attr in MUT \
                    and isinstance(n.func.value, ast.Attribute) and n.func.value.attr in ('busy', 'ready'):
                recv = n.func.value.value
                is_pool = (isinstance(recv, ast.Name) and recv.id == 'self' and f.cls is not None and f.cls.qual == hp.qual) \
                    or any(t.qual == hp.qual for t in res.type_of(f, recv))
                if is_pool:
                    hit = (f.qual, n.func.value.attr, n.func.attr)
            elif isinstance(n, (ast.Assign, ast.AugAssign)):
                tg = n.targets if isinstance(n, ast.Assign) else [n.target]
                for t in tg:
                    if isinstance(t, ast.Attribute) and t.attr in ('busy', 'ready') and (
                            (isinstance(t.value, ast.Name) and t.value.id == 'self' and f.cls is not None and f.cls.qual == hp.qual)
                            or any(x.qual == hp.qual for x in res.type_of(f, t.value))):
                        hit = (f.qual, t.attr, 'assign')
            if hit is None:
                continue
            seen.add(hit)
            if hit not in allowed:
                ck.bad('C12-D3', f.qual, norm_text(n), 'HostPool.%s mutated (%s) outside acquire/release/clean' % (hit[1], hit[2]), f.loc(n))
                continue
            if hit[2] != 'assign':
                pm = pm or U.parents(f.node)
                st = U.enclosing_stmt(n, pm)
                inside = id(st) in region_nodes.get(f.qual, set())
                ck.expect(inside, 'C12-D3', f.qual, norm_text(n) + ' under the pool lock',
                          '%s is executed without holding the pool lock' % norm_text(n), f.loc(n))
    for need in sorted(allowed - seen):
        ck.bad('C12-D3', need[0], '%s.%s' % (need[1], need[2]), 'expected set update %s.%s not found in %s' % (need[1], need[2], need[0]))
    # acquisition loop decision table
    hacq = repo.func(hp.qual + '.acquire')
    # every wait() on a pool condition is re-checked: the wait node lies on a CFG cycle (predicate loop)
    for ci in (hp, cp):
        for m in ci.methods.values():
            mcfg = ctx.cfg(m)
            for n in mcfg.nodes:
                e = L.node_expr(n)
                if e is None:
                    continue
                for c in U.calls(e, attr='wait'):
                    if U.is_self_attr(c.func.value) and c.func.value.attr in fields[ci.qual]:
                        back = mcfg.find_path(n, lambda x, n=n: x is n, edge_ok=lambda a, b, k: not k.startswith('x:'))
                        ck.expect(back is not None, 'C12-D3', m.qual, 'self.%s.wait() inside a loop that re-tests the predicate' % c.func.value.attr,
                                  'the condition wait is not in a loop: a woken waiter does not re-check, so it can create a connection '
                                  'while the host is at its limit (or take one that a third client already took)', m.loc(c))
    loops = [n for n in walk_no_nested(hacq.node) if isinstance(n, ast.While)]
    if len(loops) != 1:
        ck.bad('C12-D3', hacq.qual, 'acquisition loop', 'HostPool.acquire no longer chooses its connection in one predicate loop '
               '(found %d while-loops): reuse / create-under-bound / wait cannot be re-evaluated after a wake-up' % len(loops), hacq.loc())
        loops = []
    for loop in loops:
        it = Interp(repo, hacq, body=loop.body)
        leaves = it.leaves()
        bad_rows = []
        for o in leaves:
            v = o.val
            ready = v.get(('T', 'self.ready'))
            cmpv = _ord(v, it.t('len(self.busy)'), it.t('self.max_connections'))
            want = 'reuse' if ready else ('create' if cmpv == 'lt' else 'wait')
            got = _acq_outcome(hacq, loop, o, it)
            if got != want or (not ready and cmpv is None):
                bad_rows.append('%s -> code %s, reference %s' % (fmt_val(v), got, want))
        a, b = sorted([it.t('len(self.busy)'), it.t('self.max_connections')])
        extra_atoms = {k for o in leaves for k in o.val if not (k[0] == 'raises' and '.wait()' in k[1])} - {('T', 'self.ready'), ('ord', a, b)}
        ck.expect(not bad_rows and not extra_atoms and len(leaves) >= 3, 'C12-D3', hacq.qual,
                  'acquisition table (%d rows): idle connection reused, else created iff len(busy) < max, else wait' % len(leaves),
                  'acquisition decision differs from the reference: %s %s' % ('; '.join(bad_rows[:3]), sorted(extra_atoms) or ''), hacq.loc(loop))
    # busy.add(connection) after the loop, with the connection chosen in the loop
    adds = [c for c in U.calls(hacq.node, attr='add') if isinstance(c.func.value, ast.Attribute) and c.func.value.attr == 'busy']
    okadd = len(adds) == 1 and bool(loops) and adds[0].lineno > loops[0].end_lineno and len(adds[0].args) == 1 and isinstance(adds[0].args[0], ast.Name)
    rets = [r for r in walk_no_nested(hacq.node) if isinstance(r, ast.Return)]
    if okadd:
        cname = adds[0].args[0].id
        okadd = all(isinstance(r.value, ast.Name) and r.value.id == cname for r in rets) and bool(rets)
        # the connection variable is bound only inside the acquisition loop (ready.pop() / factory())
        cdefs = U.local_defs(hacq.node).get(cname, [])
        okadd = okadd and bool(cdefs) and all(st.lineno >= loops[0].lineno and st.lineno <= loops[0].end_lineno for v, k, st in cdefs)
    ck.expect(okadd, 'C12-D3', hacq.qual, 'busy.add(connection) after the loop; the same connection is returned',
              'the connection handed out is not the one registered as busy', hacq.loc())

    # ------------------------------------------------------------------ D4
    rel = repo.func(hp.qual + '.release')
    rcfg = ctx.cfg(rel)

    def has_call(n, recv_attr, meth):
        e = L.node_expr(n)
        if e is None:
            return False
        for c in U.calls(e, attr=meth):
            v = c.func.value
            if isinstance(v, ast.Attribute) and v.attr == recv_attr:
                return True
        return False
    removes = [n for n in rcfg.nodes if has_call(n, 'busy', 'remove')]
    cond_names = [k for k, v in fields[hp.qual].items() if v.kind == 'Condition']
    lock_names = list(fields[hp.qual])

    def is_notify(n):
        return any(has_call(n, c, 'notify') or has_call(n, c, 'notify_all') for c in cond_names)

    def is_release(n):
        return any(has_call(n, c, 'release') for c in lock_names)
    if not removes:
        ck.bad('C12-D4', rel.qual, 'busy.remove(connection)', 'release no longer removes the connection from busy', rel.loc())
    for n in removes:
        normal = lambda a, b, k: not k.startswith('x:')
        p = rcfg.find_path(n, lambda m: is_release(m) or m is rcfg.exit, edge_ok=normal, stop=is_notify)
        ck.expect(p is None, 'C12-D4', rel.qual, 'remove -> notify -> release on every normal path',
                  'a normal path from the set update reaches the lock release/exit without notifying a waiter: '
                  'a waiting client is not woken although a slot is free', rel.loc(n.stmt), path=describe_path(p) if p else None)
    adds = [n for n in rcfg.nodes if has_call(n, 'ready', 'add')]
    for n in adds:
        p = rcfg.find_path(n, lambda m: is_release(m) or m is rcfg.exit, edge_ok=lambda a, b, k: not k.startswith('x:'), stop=is_notify)
        ck.expect(p is None, 'C12-D4', rel.qual, 'ready.add -> notify on every normal path',
                  'the connection is made ready after the notification (or without one)', rel.loc(n.stmt))
    # reuse flag decides ready.add
    okreuse = any(isinstance(i, ast.If) and isinstance(i.test, ast.Name) and i.test.id in rel.params and not i.orelse
                  and any(norm_text(b) == 'self.ready.add(%s)' % rel.params[1] for b in i.body) for i in walk_no_nested(rel.node))
    ck.expect(okreuse, 'C12-D4', rel.qual, 'connection returned to `ready` iff reuse', 'reuse handling in release changed', rel.loc())

    # ------------------------------------------------------------------ D6
    clean = repo.func(cp.qual + '.clean')
    dels = [n for n in walk_no_nested(clean.node) if isinstance(n, ast.Delete)]
    pm = U.parents(clean.node)
    okd = False
    # the guard of each `del` is the conjunction of its enclosing tests inside the loop over the host pools (any nesting / operand
    # order / spelling of "no waiters"), compared by truth table with `not waiters[k] and pool.empty()`
    for lp_ in walk_no_nested(clean.node):
        b_ = {}
        if not (isinstance(lp_, ast.For) and U.like(lp_.target, '(L_k, L_p)', b_) and 'self._host_pools.items()' in norm_text(lp_.iter)):
            continue
        k_, p_ = b_['L_k'], b_['L_p']
        inloop = [d for d in dels if any(a is lp_ for a in U.ancestors(d, pm))]
        tg = [t for d in inloop for t in d.targets]
        guards = [U.guard_of(d, pm, stop=lp_) for d in inloop]
        ref = 'not self._host_pool_waiters[%s] and %s.empty()' % (k_, p_)
        from ..dtable import same_bool

        def norm_guard(g):
            # `waiters[k] == 0` is the same atom as `not waiters[k]` for a counter
            class Z(ast.NodeTransformer):
                def visit_Compare(self, n):
                    self.generic_visit(n)
                    if len(n.ops) == 1 and isinstance(n.ops[0], (ast.Eq, ast.NotEq)):
                        a_, c_ = n.left, n.comparators[0]
                        if isinstance(a_, ast.Constant):
                            a_, c_ = c_, a_
                        if isinstance(c_, ast.Constant) and c_.value == 0 and not isinstance(c_.value, bool):
                            return a_ if isinstance(n.ops[0], ast.NotEq) else ast.UnaryOp(op=ast.Not(), operand=a_)
                    return n
            return ast.fix_missing_locations(Z().visit(g))
        okd = len(inloop) >= 1 and len(tg) == 2 and all(g is not None and same_bool(norm_guard(g), ref) for g in guards) \
            and any(norm_text(t) == 'self._host_pools[%s]' % k_ for t in tg) and any(norm_text(t) == 'self._host_pool_waiters[%s]' % k_ for t in tg)
    ck.expect(okd and len(dels) == 2, 'C12-D6', clean.qual, 'del both maps iff no waiters and pool.empty()',
              'host bookkeeping is not dropped exactly when the host has no waiters and no connections', clean.loc())
    emp = repo.func(hp.qual + '.empty')
    oke = any(isinstance(r, ast.Return) and norm_text(r.value) in ('not self.ready and (not self.busy)', 'not self.busy and (not self.ready)',
                                                                  'not (self.ready or self.busy)', 'not (self.busy or self.ready)')
              for r in walk_no_nested(emp.node))
    ck.expect(oke, 'C12-D6', emp.qual, 'empty() iff no ready and no busy connections', 'HostPool.empty() changed', emp.loc())
    # new host entry: pool and waiter count created together
    okn = False
    for i in walk_no_nested(acq.node):
        b_ = {}
        if not isinstance(i, ast.If):
            continue
        if U.like(i.test, 'L_k not in self._host_pools', b_) or U.like(i.test, 'not L_k in self._host_pools', b_):
            new_b, old_b = i.body, i.orelse
        elif U.like(i.test, 'L_k in self._host_pools', b_) or U.like(i.test, 'not L_k not in self._host_pools', b_):
            new_b, old_b = i.orelse, i.body
        else:
            continue
        k_ = b_['L_k']
        tb = ' ; '.join(norm_text(b) for b in new_b)
        eb = ' ; '.join(norm_text(b) for b in old_b)
        okn = 'self._host_pools[%s] = HostPool(' % k_ in tb and 'self._host_pool_waiters[%s] = 1' % k_ in tb \
            and 'self._host_pools[%s]' % k_ in eb and 'self._host_pool_waiters[%s] += 1' % k_ in eb
        mh = [c for b in new_b for c in U.calls(b, name='HostPool')]
        okn = okn and len(mh) == 1 and norm_text(U.kwarg(mh[0], 'max_connections', 1) or ast.Constant(value=None)) == 'self._max_host_count'
    ck.expect(okn, 'C12-D6', acq.qual, 'host pool created with the configured per-host limit together with its waiter count',
              'host pool creation / waiter registration changed (limit not wired or maps out of step)', acq.loc())

    # ------------------------------------------------------------------ D7
    bs = repo.cls('wpull.protocol.abstract.client:BaseSession')
    ac = repo.func(bs.qual + '._acquire_connection')
    acfg = ctx.cfg(ac)
    acq_nodes = [n for n in acfg.nodes if n.kind == 'stmt' and any(U.attr_name(c) in ('acquire', 'acquire_proxy') for c in U.calls(n.stmt))]
    def is_reg(n):
        return n.kind == 'stmt' and any(norm_text(c).startswith('self._connections.add(') for c in U.calls(n.stmt))
    if not acq_nodes:
        raise AnalysisError('BaseSession._acquire_connection: no pool acquire found')
    for n in acq_nodes:
        p = acfg.find_path(n, lambda m: m is acfg.exit, edge_ok=lambda a, b, k: not k.startswith('x:'), stop=is_reg)
        ck.expect(p is None, 'C12-D7', ac.qual, norm_text(n.stmt)[:60] + ' -> self._connections.add(connection)',
                  'a connection obtained from the pool can be returned without being registered for release', ac.loc(n.stmt))
    ex = repo.func(bs.qual + '.__exit__')
    ecfg = ctx.cfg(ex)
    def is_recycle(n):
        return n.kind == 'stmt' and any(norm_text(c) == 'self.recycle()' for c in U.calls(n.stmt))
    p = ecfg.find_path(ecfg.entry, lambda m: m is ecfg.exit, edge_ok=lambda a, b, k: not k.startswith('x:'), stop=is_recycle)
    ck.expect(p is None, 'C12-D7', ex.qual, '__exit__ -> recycle() on every normal path',
              'a session can exit without returning its connections to the pool', ex.loc(), path=describe_path(p) if p else None)
    # every session-like __exit__ of the protocol layer: nothing that can fail stands between the entry and the recycle it is
    # about to make (a listener notified first, raising, would leave the connection checked out for good)
    TOTAL_BEFORE_RECYCLE = {'abort', 'close', 'debug', 'info', 'warning', 'isinstance', 'issubclass'}
    n_exits = 0
    for f in repo.funcs.values():
        if f.name != '__exit__' or not f.module.name.startswith('wpull.protocol.'):
            continue
        fcfg = ctx.cfg(f)
        rnodes = [n for n in fcfg.stmt_nodes() if any(U.attr_name(c) == 'recycle' for c in F.node_calls(n))]
        if not rnodes:
            continue
        n_exits += 1
        bad = None
        for n in fcfg.stmt_nodes():
            if n in rnodes:
                continue
            risky = [c for c in F.node_calls(n) if (U.attr_name(c) or (c.func.id if isinstance(c.func, ast.Name) else '')) not in TOTAL_BEFORE_RECYCLE]
            if not risky:
                continue
            pending = fcfg.find_path(n, lambda m: m in rnodes, edge_ok=F.normal) is not None
            if not pending:
                continue
            for d, k in n.succ:
                if k.startswith('x:') and k not in ('x:attr', 'x:subscript'):
                    if d is fcfg.exit or d in getattr(fcfg, 'exits', ()) or fcfg.find_path(d, lambda m: m is fcfg.exit, edge_ok=lambda a, b, kk: True, stop=lambda m: m in rnodes) is not None \
                            or not d.succ:
                        bad = (n, risky[0])
        ck.expect(bad is None, 'C12-D7', f.qual, 'nothing that can raise precedes recycle()',
                  '`%s` runs before the connections are handed back: if it raises (a listener of the session event failing on I/O) '
                  'recycle() is skipped and the connection stays checked out' % (norm_text(bad[1])[:70] if bad else ''), f.loc(bad[0].stmt) if bad else f.loc())
    if n_exits < 2:
        raise AnalysisError('expected the __exit__ of BaseSession and of WebSession to recycle their connections')
    # overrides of recycle(): the inherited release comes before anything that can raise (a listener notified first, failing,
    # would skip it)
    for f in repo.funcs.values():
        if f.name != 'recycle' or f.cls is None or not f.module.name.startswith('wpull.protocol.') or f.cls.qual == bs.qual:
            continue
        fcfg = ctx.cfg(f)
        sup = [n for n in fcfg.stmt_nodes() if any(norm_text(c.func) == 'super().recycle' for c in F.node_calls(n))]
        if not sup:
            continue
        bad = None
        for n in fcfg.stmt_nodes():
            if n in sup:
                continue
            risky = [c for c in F.node_calls(n) if (U.attr_name(c) or (c.func.id if isinstance(c.func, ast.Name) else '')) not in TOTAL_BEFORE_RECYCLE | {'warn', 'done', '_', 'super'}]
            if risky and fcfg.find_path(n, lambda x: x in sup, edge_ok=F.normal) is not None:
                bad = (n, risky[0])
        ck.expect(bad is None, 'C12-D7', f.qual, 'super().recycle() precedes everything that can raise',
                  '`%s` runs before the inherited recycle(): if it raises, the connections of this session are never released' % (
                      norm_text(bad[1])[:70] if bad else ''), f.loc(bad[0].stmt) if bad else f.loc())
    # the inner session a wrapper session recycles in its __exit__ is stored in that field before anything is done with it
    for f in repo.funcs.values():
        if f.cls is None or not f.module.name.startswith('wpull.protocol.') or '__exit__' not in f.cls.methods:
            continue
        exf = f.cls.methods['__exit__']
        inner_fields = {x.attr for x in ast.walk(exf.node) if U.is_self_attr(x) and any(U.attr_name(c) == 'recycle' and norm_text(c.func.value) == 'self.' + x.attr for c in U.calls(exf.node))}
        for fld in sorted(inner_fields):
            fcfg = ctx.cfg(f)
            for n in fcfg.stmt_nodes():
                creates = [c for c in F.node_calls(n) if U.attr_name(c) == 'session' and 'client' in norm_text(c.func.value)]
                if not creates or not isinstance(n.stmt, ast.Assign):
                    continue
                locals_ = [t.id for t in n.stmt.targets if isinstance(t, ast.Name)]
                stored_here = any(U.is_self_attr(t, fld) for t in n.stmt.targets)
                if stored_here or not locals_:
                    continue
                uses = [x for x in fcfg.stmt_nodes() if x is not n and any(isinstance(c.func, ast.Attribute) and isinstance(c.func.value, ast.Name)
                                                                           and c.func.value.id in locals_ for c in F.node_calls(x))]
                pub = [x for x in fcfg.stmt_nodes() if isinstance(x.stmt, ast.Assign) and any(U.is_self_attr(t, fld) for t in x.stmt.targets)]
                bad = [u for u in uses if fcfg.find_path(n, lambda x, u=u: x is u, edge_ok=F.normal, stop=lambda x: x in pub) is not None]
                ck.expect(not bad, 'C12-D7', f.qual, 'the new session is stored in self.%s before it is used' % fld,
                          'the session is started before it is stored in the field __exit__ recycles: when the start fails, __exit__ finds no '
                          '(or the previous) session and the connection just acquired stays checked out', f.loc(bad[0].stmt) if bad else f.loc())
    # every protocol / web session that is created is driven inside `with` (or handed to an owner that is): __exit__ is the only
    # place that gives the connections of a failed exchange back
    n_sites = 0
    for f in repo.funcs.values():
        if not f.module.name.startswith(('wpull.processor', 'wpull.protocol', 'wpull.proxy')) or f.module.name.endswith('_test'):
            continue
        if f.module.name.startswith('wpull.processor.coprocessor') or f.name in ('main', 'session') or '<locals>' in f.qual:
            continue
        fpm = None
        for c in U.calls(f.node):
            if U.attr_name(c) != 'session' or not isinstance(c.func, ast.Attribute):
                continue
            recv = norm_text(c.func.value)
            if not any(k in recv for k in ('client', 'web_client', 'http_client', 'ftp_client')):
                continue
            n_sites += 1
            fpm = fpm or U.parents(f.node)
            st = U.enclosing_stmt(c, fpm)
            ok = False
            where = ''
            if isinstance(st, ast.With) and any(any(x is c for x in ast.walk(it.context_expr)) for it in st.items):
                ok = True
            elif isinstance(st, ast.Assign):
                names = [t.id for t in st.targets if isinstance(t, ast.Name)] + [t.id for t in ast.walk(st) if isinstance(t, ast.Name) and isinstance(t.ctx, ast.Store)]
                attrs = [t.attr for t in ast.walk(st) if isinstance(t, ast.Attribute) and isinstance(t.ctx, ast.Store) and U.is_self_attr(t)]
                # a local used as `with name:` in the same function
                for w in walk_no_nested(f.node):
                    if isinstance(w, ast.With) and any(isinstance(it.context_expr, ast.Name) and it.context_expr.id in names for it in w.items):
                        ok = True
                # a field of an object whose own __exit__ recycles it (WebSession._current_session), or used as `with self.field:`
                for a in attrs:
                    ex_ = f.cls.methods.get('__exit__') if f.cls is not None else None
                    if ex_ is not None and any(U.is_self_attr(x, a) for x in ast.walk(ex_.node)):
                        ok = True
                    for m2 in (f.cls.methods.values() if f.cls is not None else ()):
                        for w in walk_no_nested(m2.node):
                            if isinstance(w, ast.With) and any(U.is_self_attr(it.context_expr, a) for it in w.items):
                                ok = True
            ck.expect(ok, 'C12-D7', f.qual, '%s is driven inside `with`' % norm_text(c)[:50],
                      'a session is created and used without `with`: when an exchange fails nobody calls its __exit__, and the connection it '
                      'had acquired stays checked out of the pool for ever', f.loc(c))
    if n_sites < 4:
        raise AnalysisError('expected at least four session creation sites in processors / protocol code (found %d)' % n_sites)
    from .common import download_recycles_rule
    download_recycles_rule(ctx, 'C12-D7')
    _no_handle_after_give_back(ctx, bs)
    from .common import delegating_wrapper_rule
    delegating_wrapper_rule(ctx, 'C12-D7')
    from .common import proxy_pool_identity_rule
    proxy_pool_identity_rule(ctx, 'C12-D7')
    rc = repo.func(bs.qual + '.recycle')
    okr = False
    for lp in walk_no_nested(rc.node):
        if isinstance(lp, ast.For) and norm_text(lp.iter) == 'self._connections':
            okr = any(U.attr_name(c) in ('no_wait_release', 'release') for b in lp.body for c in U.calls(b)) \
                and not any(isinstance(x, (ast.If, ast.Break, ast.Continue, ast.Return)) for b in lp.body for x in ast.walk(b))
    okc = any(norm_text(c) == 'self._connections.clear()' for c in U.calls(rc.node))
    ck.expect(okr and okc, 'C12-D7', rc.qual, 'every registered connection released, then the set cleared',
              'recycle does not release every registered connection exactly once', rc.loc())
    nwr = repo.func(cp.qual + '.no_wait_release')
    okn = any(norm_text(c).startswith('self._release_tasks.add(') for c in U.calls(nwr.node)) and any(
        U.attr_name(c) == 'release' and U.is_self_attr(c.func.value) is False and norm_text(c) == 'self.release(connection)' for c in U.calls(nwr.node))
    ck.expect(okn, 'C12-D7', nwr.qual, 'deferred release scheduled and remembered', 'no_wait_release changed', nwr.loc())
    pr = repo.func(cp.qual + '._process_no_wait_releases')
    okp = any(isinstance(y, ast.YieldFrom) for y in ast.walk(pr.node)) and any(
        norm_text(c) == 'self._release_tasks.pop()' for c in U.calls(pr.node))
    first_susp = None
    for n in ctx.cfg(acq).nodes:
        pass
    # deferred releases are drained before the host pool is looked up
    calls_in_order = sorted([c for c in U.calls(acq.node) if isinstance(c.func, ast.Attribute)], key=lambda c: (c.lineno, c.col_offset))
    names = [U.attr_name(c) for c in calls_in_order]
    okdrain = '_process_no_wait_releases' in names and 'acquire' in names and names.index('_process_no_wait_releases') < names.index('acquire')
    ck.expect(okp and okdrain, 'C12-D7', acq.qual, 'deferred releases drained before the next acquire',
              'pending releases are not drained before acquiring', acq.loc())
    # release(): host_pool.release then clean
    rl = repo.func(cp.qual + '.release')
    names = [U.attr_name(c) for c in sorted(U.calls(rl.node), key=lambda c: (c.lineno, c.col_offset))]
    okrl = 'release' in names and 'clean' in names and names.index('release') < names.index('clean')
    ck.expect(okrl, 'C12-D7', rl.qual, 'host_pool.release(connection) then clean()', 'ConnectionPool.release changed', rl.loc())
    _d8_cancellation(ctx, fields)


def _no_handle_after_give_back(ctx, bs):
    """A session gives its connections back in recycle() (at the end of download(), long before the `with` block is left) and is
    aborted afterwards as a matter of course (WebSession.__exit__).  abort() therefore acts on connections only through the
    ownership set recycle() empties: a field that still aliases the connection (the stream built over it) and is not cleared by
    recycle() must not be acted on there - by then the connection may be checked out by somebody else."""
    repo, ck = ctx.repo, ctx.check
    ACQ = ('_acquire_connection', '_acquire_request_connection')
    n_cls = 0
    for c in repo.classes.values():
        if not c.module.name.startswith('wpull.protocol.') or c.qual == bs.qual or bs.qual not in {b.qual for b in repo.mro(c)}:
            continue
        n_cls += 1
        alias = set()
        changed = True
        while changed:
            changed = False
            for m in c.methods.values():
                local_alias = set()
                for st in sorted((x for x in ast.walk(m.node) if isinstance(x, ast.Assign)), key=lambda x: x.lineno):
                    v = st.value
                    if isinstance(v, (ast.YieldFrom, ast.Await)):
                        v = v.value
                    src = False
                    if isinstance(v, ast.Call):
                        if U.attr_name(v) in ACQ:
                            src = True
                        for a in list(v.args) + [k.value for k in v.keywords]:
                            if (U.is_self_attr(a) and a.attr in alias) or (isinstance(a, ast.Name) and a.id in local_alias):
                                src = True
                    elif (U.is_self_attr(v) and v.attr in alias) or (isinstance(v, ast.Name) and v.id in local_alias):
                        src = True
                    if not src:
                        continue
                    for t in st.targets:
                        for x in ast.walk(t):
                            if isinstance(x, ast.Name):
                                local_alias.add(x.id)
                            elif U.is_self_attr(x) and x.attr not in alias:
                                alias.add(x.attr)
                                changed = True
        # fields recycle() clears (itself or through a helper of the class)
        cleared = set()
        rc = c.methods.get('recycle')
        seen = set()
        work = [rc] if rc is not None else []
        while work:
            m = work.pop()
            if m is None or m.qual in seen:
                continue
            seen.add(m.qual)
            for st in ast.walk(m.node):
                if isinstance(st, ast.Assign) and isinstance(st.value, ast.Constant) and st.value.value is None:
                    cleared |= {t.attr for t in st.targets if U.is_self_attr(t)}
            for cl in U.calls(m.node):
                if isinstance(cl.func, ast.Attribute) and isinstance(cl.func.value, ast.Name) and cl.func.value.id == 'self':
                    work.append(c.methods.get(cl.func.attr))
        ab = c.methods.get('abort')
        if ab is None:
            continue
        bad = None
        work, seen = [ab], set()
        while work:
            m = work.pop()
            if m is None or m.qual in seen:
                continue
            seen.add(m.qual)
            for cl in U.calls(m.node):
                if not isinstance(cl.func, ast.Attribute):
                    continue
                r = cl.func.value
                if isinstance(r, ast.Name) and r.id == 'self':
                    if cl.func.attr not in ('recycle',):
                        work.append(c.methods.get(cl.func.attr))
                    continue
                # self.<alias>.method(...) or self.<alias>.<x>.method(...)
                base = r
                while isinstance(base, ast.Attribute) and not U.is_self_attr(base):
                    base = base.value
                if U.is_self_attr(base) and base.attr in alias and base.attr not in cleared and cl.func.attr not in ('closed',):
                    bad = bad or (m, cl, base.attr)
        ck.expect(bad is None, 'C12-D7', ab.qual, 'abort() acts on connections only through the set recycle() empties',
                  '`%s` in %s: self.%s still refers to the connection after recycle() has given it back (recycle does not clear the field) and '
                  'abort() runs after that on every exit of the web session - it then acts on a connection somebody else may have checked out'
                  % ((norm_text(bad[1])[:60], bad[0].name, bad[2]) if bad else ('', '', '')), (bad[0].loc(bad[1]) if bad else ab.loc()))
    if n_cls < 2:
        raise AnalysisError('expected the HTTP and the FTP session classes below BaseSession (found %d)' % n_cls)


_EXC_PROBES = {
    # name -> base classes (Python >= 3.8: CancelledError is a BaseException)
    'asyncio.CancelledError': ('BaseException',), 'KeyboardInterrupt': ('BaseException',), 'GeneratorExit': ('BaseException',),
    'SystemExit': ('BaseException',), 'OSError': ('Exception', 'BaseException'), 'ValueError': ('Exception', 'BaseException'),
    'asyncio.TimeoutError': ('Exception', 'BaseException'),
}


def _exit_test(test, P, val='exc_val', typ='exc_type'):
    """Value of an __exit__ guard for an exception of class P in flight: True / False / None (cannot tell)."""
    def sub(tname):
        tname = tname.replace('concurrent.futures.', 'asyncio.')
        if tname in ('CancelledError',):
            tname = 'asyncio.CancelledError'
        if tname == P:
            return True
        if tname in ('Exception', 'BaseException'):
            return tname in _EXC_PROBES[P]
        return False          # an unrelated class (StopIteration, ...)
    t = test
    if isinstance(t, ast.UnaryOp) and isinstance(t.op, ast.Not):
        v = _exit_test(t.operand, P, val, typ)
        return None if v is None else (not v)
    if isinstance(t, ast.BoolOp):
        vs = [_exit_test(x, P, val, typ) for x in t.values]
        if isinstance(t.op, ast.Or):
            return True if any(v is True for v in vs) else (None if any(v is None for v in vs) else False)
        return False if any(v is False for v in vs) else (None if any(v is None for v in vs) else True)
    if isinstance(t, ast.Name) and t.id in (val, typ):
        return True
    if isinstance(t, ast.Compare) and len(t.ops) == 1 and isinstance(t.left, ast.Name) and t.left.id in (val, typ) \
            and isinstance(t.comparators[0], ast.Constant) and t.comparators[0].value is None:
        if isinstance(t.ops[0], (ast.Is, ast.Eq)):
            return False
        if isinstance(t.ops[0], (ast.IsNot, ast.NotEq)):
            return True
    if isinstance(t, ast.Call) and isinstance(t.func, ast.Name) and t.func.id in ('isinstance', 'issubclass') and len(t.args) == 2 \
            and isinstance(t.args[0], ast.Name) and t.args[0].id in (val, typ):
        ts = t.args[1].elts if isinstance(t.args[1], ast.Tuple) else [t.args[1]]
        names = [dotted(x) for x in ts]
        if any(n is None for n in names):
            return None
        return any(sub(n) for n in names)
    return None


def _d8_cancellation(ctx, fields):
    repo, ck, res = ctx.repo, ctx.check, ctx.res
    # (e) a session left through cancellation (or any other BaseException) is aborted like one left through an error: the guard of
    #     abort() in every __exit__ of the protocol layer holds for CancelledError / KeyboardInterrupt / GeneratorExit too.  A session
    #     that is merely recycled hands a connection with a half-read reply back to the pool.
    n_ex = 0
    for f in repo.funcs.values():
        if f.name != '__exit__' or not f.module.name.startswith('wpull.protocol.') or len(f.params) < 4:
            continue
        pm = U.parents(f.node)
        for c in U.calls(f.node):
            if U.attr_name(c) != 'abort':
                continue
            n_ex += 1
            conds = []
            cur = c
            for a in U.ancestors(c, pm):
                if isinstance(a, ast.If):
                    inbody = any(cur is x or any(cur is y for y in ast.walk(x)) for x in a.body)
                    # tests that do not mention the exception arguments (is there a session at all?) are not about the exception
                    if any(isinstance(x, ast.Name) and x.id in f.params[1:4] for x in ast.walk(a.test)):
                        conds.append((a.test, inbody))
                cur = a
            bad = None
            for P in sorted(_EXC_PROBES):
                for t, pos in conds:
                    v = _exit_test(t, P, f.params[2], f.params[1])
                    if v is None:
                        bad = bad or ('cannot decide `%s` for %s' % (norm_text(t)[:60], P))
                    elif v != pos:
                        bad = bad or ('`%s` is %s for %s' % (norm_text(t)[:60], v, P))
            ck.expect(bad is None, 'C12-D8', f.qual, 'abort() is reached for every exception in flight, cancellation included',
                      'a session left through cancellation is not aborted (%s): its connection goes back to the pool with an exchange half '
                      'done, and the next user reads the rest of this reply as the answer to its own command' % bad, f.loc(c))
    if n_ex < 2:
        raise AnalysisError('expected the abort() calls in BaseSession.__exit__ and WebSession.__exit__ (found %d)' % n_ex)
    pool_classes = [repo.cls(q) for q in fields]
    # (a) wait() sites
    n_wait = 0
    for ci in pool_classes:
        for m in ci.methods.values():
            pm = U.parents(m.node)
            for y in [n for n in walk_no_nested(m.node) if isinstance(n, ast.YieldFrom)]:
                v = y.value
                if not (isinstance(v, ast.Call) and isinstance(v.func, ast.Attribute) and v.func.attr == 'wait' and U.is_self_attr(v.func.value)
                        and v.func.value.attr in fields[ci.qual] and fields[ci.qual][v.func.value.attr].kind == 'Condition'):
                    continue
                n_wait += 1
                cond = v.func.value.attr
                ok = False
                for a in U.ancestors(y, pm):
                    if isinstance(a, ast.Try) and any(y is x for b in a.body for x in ast.walk(b)):
                        for h in a.handlers:
                            types = [norm_text(t) for t in (h.type.elts if isinstance(h.type, ast.Tuple) else [h.type])] if h.type is not None else ['BaseException']
                            if any(t in ('asyncio.CancelledError', 'CancelledError', 'BaseException') for t in types) \
                                    and any(isinstance(c, ast.Call) and U.attr_name(c) in ('notify', 'notify_all') and U.is_self_attr(c.func.value, cond) for c in U.calls(h)) \
                                    and h.body and isinstance(h.body[-1], ast.Raise) and h.body[-1].exc is None:
                                # ... on every path through the handler (a wake-up passed on only when some condition holds
                                # is lost when it does not: the waiter cannot know what the notifier had in mind)
                                cfg = ctx.cfg(m)
                                first = [n for n in cfg.nodes if n.stmt is h.body[0] and n.kind != 'join']
                                last = [n for n in cfg.nodes if n.stmt is h.body[-1]]

                                def passes_on(n, cond=cond):
                                    return any(U.attr_name(c) in ('notify', 'notify_all') and U.is_self_attr(c.func.value, cond) for c in F.node_calls(n))
                                if first and last and not passes_on(first[0]):
                                    pth = cfg.find_path(first[0], lambda x: x in last, edge_ok=F.normal, stop=passes_on)
                                    ok = pth is None
                                else:
                                    ok = bool(first and last)
                    if isinstance(a, (ast.FunctionDef, ast.AsyncFunctionDef)):
                        break
                ck.expect(ok, 'C12-D8', m.qual, 'yield from self.%s.wait() re-notifies when cancelled' % cond,
                          'a waiter that has been notified and is cancelled before it runs swallows the wake-up: the connection that was '
                          'released stays idle while another client keeps waiting', m.loc(y))
    if n_wait == 0:
        ck.bad('C12-D8', POOL, 'a wait() on a pool condition', 'no condition wait found in the pool classes (expected HostPool.acquire)')
    # (b) draining deferred releases
    cp = repo.cls(POOL + ':ConnectionPool')
    n_drain = 0
    for m in cp.methods.values():
        defs = U.local_defs(m.node)
        for y in [n for n in walk_no_nested(m.node) if isinstance(n, ast.YieldFrom)]:
            v = y.value
            inner = v.args[0] if isinstance(v, ast.Call) and (dotted(v.func) or '').endswith('shield') and v.args else v
            if isinstance(inner, ast.Name) and any(vv is not None and '_release_tasks' in norm_text(vv) for vv, k, s_ in defs.get(inner.id, [])):
                n_drain += 1
                ck.expect(inner is not v, 'C12-D8', m.qual, 'yield from asyncio.shield(<deferred release task>)',
                          'the deferred release is awaited directly: cancelling the client that happens to drain it cancels the release, '
                          'and the connection stays checked out for ever', m.loc(y))
    if n_drain == 0:
        ck.bad('C12-D8', cp.qual, 'deferred release tasks are awaited somewhere', 'no await of a deferred release task found')
    # (c) wrappers that check a connection out and then do more work; (d) acquire overrides return it
    for ci in [c for c in repo.classes.values() if c is not cp and cp in repo.mro(c)]:
        for m in ci.methods.values():
            cfg = ctx.cfg(m)
            if m.name == 'acquire':
                rets = [n for n in cfg.nodes if n.kind == 'return']
                okret = bool(rets) and all(n.stmt.value is not None for n in rets) and \
                    cfg.find_path(cfg.entry, lambda x: x is cfg.exit, edge_ok=F.normal, stop=lambda x: x.kind == 'return') is None
                ck.expect(okret, 'C12-D8', m.qual, 'acquire returns the connection on every path',
                          'this override of acquire checks a connection out and returns None: the caller can neither use nor release it', m.loc())
            for n in cfg.stmt_nodes():
                st = n.stmt
                if not (isinstance(st, ast.Assign) and len(st.targets) == 1 and isinstance(st.targets[0], ast.Name)):
                    continue
                acqs = [c for c in F.node_calls(n, 'acquire') if norm_text(c.func.value) == 'super()']
                if not acqs:
                    continue
                nm = st.targets[0].id
                # direct hand-over (`x = yield from super().acquire(...); return x`) needs nothing
                nxt = [d for d, k in n.succ if F.normal(n, d, k)]
                if all(d.kind == 'return' for d in nxt):
                    continue

                def gives_back(x, nm=nm):
                    return any(U.attr_name(c) in ('release', 'no_wait_release') and c.args and norm_text(c.args[0]) == nm for c in F.node_calls(x))
                # an exception edge after the check-out must reach a release of that connection before it leaves the function
                def edge(a, b, k):
                    if k in ('x:attr', 'x:subscript'):
                        return False                      # attribute access / map stores on pool objects do not fail
                    if k.startswith('x:') and a.kind == 'stmt' and all(U.attr_name(c) in ('close', 'debug', 'info', 'warning') for c in F.node_calls(a)) \
                            and F.node_calls(a):
                        return False                      # closing the connection / logging are total here
                    return True
                p = cfg.find_path(n, lambda x: x is cfg.xexit, edge_ok=edge, stop=gives_back,
                                  first_edges=lambda a, b, k: F.normal(a, b, k))
                ck.expect(p is None, 'C12-D8', m.qual, '%s is released when the work after the check-out fails' % nm,
                          'an exception (or cancellation) after the connection was checked out leaves it checked out for ever: it is '
                          'neither returned to the caller nor released', m.loc(st), path=describe_path(p) if p else None)
                # ... and is closed before it goes back: a connection whose tunnel / TLS set-up failed half-way is still open and
                # marked as proxied; taken out of the pool again it would carry the next https request in clear text
                for h in [h for t in walk_no_nested(m.node) if isinstance(t, ast.Try) for h in t.handlers
                          if any(gives_back_call(c, nm) for c in U.calls(h))]:
                    closes = [c for c in U.calls(h) if U.attr_name(c) == 'close' and norm_text(c.func.value) == nm]
                    rel = [c for c in U.calls(h) if gives_back_call(c, nm)]
                    # a deferred give-back (no_wait_release) runs after the handler: closing right after scheduling it is as good
                    okc = bool(closes) and (min(c.lineno for c in closes) <= min(c.lineno for c in rel) or all(U.attr_name(c) == 'no_wait_release' for c in rel))
                    ck.expect(okc, 'C12-D8', m.qual, '%s is closed before it is given back after a failed set-up' % nm,
                              'the failure handler returns the connection to the pool without closing it: the pool hands out an open, '
                              'half set-up connection (no tunnel, no TLS) and the next request for that host is written to the proxy as it is', m.loc(h))
            # (e) wrapper maps: what release() pops, acquire must have stored on every path that hands the wrapper out
            maps = {U.attr_name(c) and c.func.value.attr for mm in ci.methods.values() if mm.name in ('release', 'no_wait_release')
                    for c in U.calls(mm.node) if U.attr_name(c) == 'pop' and U.is_self_attr(getattr(c.func, 'value', None))}
            for mp in sorted(x for x in maps if x):
                if m.name not in ('acquire', 'acquire_proxy'):
                    continue
                for rn in [n for n in cfg.nodes if n.kind == 'return' and n.stmt.value is not None]:
                    v = rn.stmt.value
                    # `return ssl_connection` where ssl_connection is the wrapper of the pooled connection
                    wrappers = set()
                    for st2 in walk_no_nested(m.node):
                        if isinstance(st2, ast.Assign) and len(st2.targets) == 1 and isinstance(st2.targets[0], ast.Name):
                            vt = norm_text(st2.value)
                            if 'start_tls' in vt or vt.endswith('.wrapped_connection'):
                                wrappers.add(st2.targets[0].id)
                    hands_wrapper = (isinstance(v, ast.Name) and v.id in wrappers) or 'wrapped_connection' in norm_text(v)
                    if not hands_wrapper:
                        continue

                    def stores_map(x, mp=mp):
                        stx = x.stmt
                        return isinstance(stx, ast.Assign) and any(isinstance(t, ast.Subscript) and U.is_self_attr(t.value, mp) for t in stx.targets)
                    p2 = cfg.find_path(cfg.entry, lambda x, rn=rn: x is rn, edge_ok=F.normal, stop=stores_map)
                    ck.expect(p2 is None, 'C12-D8', m.qual, 'self.%s[wrapper] is stored on every path that returns the wrapper' % mp,
                              'a path hands out the wrapping connection without recording which pooled connection it wraps: release() then '
                              'passes the wrapper itself to the base pool (KeyError in the deferred release, the real connection stays busy)',
                              m.loc(rn.stmt), path=describe_path(p2) if p2 else None)


def gives_back_call(c, nm):
    return U.attr_name(c) in ('release', 'no_wait_release') and c.args and norm_text(c.args[0]) == nm


def _ord(val, a, b):
    """Order of a relative to b under valuation (keys are stored with sorted operands)."""
    if a <= b:
        return val.get(('ord', a, b))
    r = val.get(('ord', b, a))
    return {'lt': 'gt', 'gt': 'lt', 'eq': 'eq', None: None}[r]


def _acq_outcome(fi, loop, o, it):
    """Classify a leaf of the acquisition loop body from the final binding of the local it assigned."""
    if o.kind == 'break':
        vals = [v for v in o.env.values() if 'self.ready.pop()' in v or 'self._connection_factory()' in v or 'C0()' in v]
        if len(vals) == 1:
            if 'self.ready.pop()' in vals[0]:
                return 'reuse'
            return 'create'
        return 'other:break with %s' % sorted(o.env.items())
    if any('.wait()' in e for e in o.effects):
        return 'wait'
    # the wait itself was cancelled / raised (handled by passing the wake-up on and re-raising): still the "wait" decision
    if o.kind == 'raise' and any(k[0] == 'raises' and '.wait()' in k[1] and v != 'no' for k, v in o.val.items()):
        return 'wait'
    return 'other:%s:%s' % (o.kind, ' ; '.join(o.effects))


def _has_cycle(graph):
    state = {}

    def visit(n, path):
        state[n] = 1
        for m in graph.get(n, ()):
            if state.get(m) == 1:
                return path + [n, m]
            if m not in state:
                r = visit(m, path + [n])
                if r:
                    return r
        state[n] = 2
        return None
    for n in list(graph):
        if n not in state:
            r = visit(n, [])
            if r:
                return r
    return None
