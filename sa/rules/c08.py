"""C08 - HTTP/1.1 responses are delimited per RFC 7230 whatever the segmentation.

Framing-choice and no-body decision tables against RFC 7230 section 3.3.3, counter
discipline of the length and chunk readers, must-raise paths for truncated messages,
header block reader, keep-alive decision and who-may-read (DESIGN.md section 3,
C08-D1..D7).  Equality of the delivered bytes for every split is not decided here.
"""
import ast
import http.client
import itertools
import re
import re._constants as C

from ..index import dotted, walk_no_nested, norm_text, AnalysisError
from ..cfg import describe_path
from .. import util as U
from .. import flow as F
from .. import regexs as RX
from ..dtable import Interp, _Need, fmt_val, txt
from ..locks import node_expr

STREAM = 'wpull.protocol.http.stream'
CHUNKED = 'wpull.protocol.http.chunked'
HUTIL = 'wpull.protocol.http.util'
REQ = 'wpull.protocol.http.request'
CLIENT = 'wpull.protocol.http.client'
NV = 'wpull.namevalue'
NETERR = 'wpull.errors:NetworkError'
PROTOERR = 'wpull.errors:ProtocolError'

# ---------------------------------------------------------------------------- helpers
_FLIP = {ast.Lt: ast.Gt, ast.Gt: ast.Lt, ast.LtE: ast.GtE, ast.GtE: ast.LtE, ast.Eq: ast.Eq, ast.NotEq: ast.NotEq}
_NEG = {ast.Lt: ast.GtE, ast.GtE: ast.Lt, ast.Gt: ast.LtE, ast.LtE: ast.Gt, ast.Eq: ast.NotEq, ast.NotEq: ast.Eq}


def _const_int(e):
    if isinstance(e, ast.Constant) and isinstance(e.value, int) and not isinstance(e.value, bool):
        return e.value
    if isinstance(e, ast.UnaryOp) and isinstance(e.op, ast.USub):
        v = _const_int(e.operand)
        return -v if v is not None else None
    return None


def int_rel(test):
    """Canonical (subject text, rel, const) of `subject OP int-constant`; rel in
    lt/gt/eq/ne with `<= c` folded to `< c+1`, `>= c` to `> c-1`, `not` pushed in and
    the constant moved to the right."""
    neg = False
    while isinstance(test, ast.UnaryOp) and isinstance(test.op, ast.Not):
        neg = not neg
        test = test.operand
    if not (isinstance(test, ast.Compare) and len(test.ops) == 1):
        return None
    a, op, b = test.left, type(test.ops[0]), test.comparators[0]
    if op not in _FLIP:
        return None
    ca, cb = _const_int(a), _const_int(b)
    if cb is None and ca is not None:
        a, b, cb, op = b, a, ca, _FLIP[op]
    elif cb is None:
        return None
    if neg:
        op = _NEG[op]
    if op is ast.LtE:
        return (norm_text(a), 'lt', cb + 1)
    if op is ast.GtE:
        return (norm_text(a), 'gt', cb - 1)
    return (norm_text(a), {ast.Lt: 'lt', ast.Gt: 'gt', ast.Eq: 'eq', ast.NotEq: 'ne'}[op], cb)


def positive_edge(test, name):
    """Edge kind ('T'/'F') of an if/while on which `name > 0` holds, else None."""
    r = int_rel(test)
    if r is None or r[0] != name:
        return None
    if r[1:] == ('gt', 0):
        return 'T'
    if r[1:] == ('lt', 1):
        return 'F'
    return None


def negative_edge(test, name):
    r = int_rel(test)
    if r is None or r[0] != name:
        return None
    if r[1:] == ('lt', 0):
        return 'T'
    if r[1:] == ('gt', -1):
        return 'F'
    return None


def empty_edge(test, name):
    """Edge of a test on which the bytes/int value `name` is empty / zero."""
    neg = False
    t = test
    while isinstance(t, ast.UnaryOp) and isinstance(t.op, ast.Not):
        neg = not neg
        t = t.operand
    if norm_text(t) in (name, 'len(%s)' % name, 'bool(%s)' % name):
        return 'T' if neg else 'F'
    if isinstance(t, ast.Compare) and len(t.ops) == 1 and isinstance(t.ops[0], (ast.Eq, ast.NotEq)):
        sides = [t.left, t.comparators[0]]
        texts = [norm_text(s) for s in sides]
        if name in texts:
            other = sides[1 - texts.index(name)]
            if isinstance(other, ast.Constant) and other.value in (b'', 0):
                eq = isinstance(t.ops[0], ast.Eq)
                return 'T' if (eq != neg) else 'F'
    r = int_rel(test)
    if r is not None and r[0] in (name, 'len(%s)' % name):
        if r[1:] in (('lt', 1), ('eq', 0)):
            return 'T'
        if r[1:] in (('gt', 0), ('ne', 0)):
            return 'F'
    return None


def no_lf_edge(test, name, allow_empty=False):
    """Edge on which the line `name` does NOT end with LF (with allow_empty: or is empty - the bare end-of-stream test)."""
    neg = False
    t = test
    while isinstance(t, ast.UnaryOp) and isinstance(t.op, ast.Not):
        neg = not neg
        t = t.operand
    txt = norm_text(t)
    if allow_empty and txt in (name, 'len(%s)' % name):
        return 'T' if neg else 'F'
    if allow_empty and txt in ("%s == b''" % name, "b'' == %s" % name, 'len(%s) == 0' % name):
        return 'F' if neg else 'T'
    if txt in ("%s.endswith(b'\\n')" % name, "%s[-1:] == b'\\n'" % name, "b'\\n' == %s[-1:]" % name):
        return 'T' if neg else 'F'
    if txt in ("%s[-1:] != b'\\n'" % name, "b'\\n' != %s[-1:]" % name):
        return 'F' if neg else 'T'
    return None


def if_nodes(cfg, kinds=('if',)):
    return [n for n in cfg.nodes if n.kind in kinds]


def edges_where(cfg, fn, kinds=('if', 'while')):
    """{(node id, edge kind)} for branch nodes where fn(test) names an edge."""
    out = set()
    for n in cfg.nodes:
        if n.kind in kinds:
            k = fn(n.stmt.test)
            if k:
                out.add((n.id, k))
    return out


def other(k):
    return 'F' if k == 'T' else 'T'


def path_avoiding(cfg, start, goal, banned=(), stop=None, first=None):
    """A normal-edge path start -> goal that uses no banned (node id, kind) edge."""
    banned = set(banned)

    def ok(a, b, k):
        return F.normal(a, b, k) and (a.id, k) not in banned
    fe = None
    if first is not None:
        fe = lambda a, b, k: k == first
    return cfg.find_path(start, goal, edge_ok=ok, stop=stop, first_edges=fe)


def body_ids(stmts):
    ids = set()
    for s in stmts:
        for x in ast.walk(s):
            ids.add(id(x))
    return ids


def branch_raises(repo, fi, cfg, node, kind, allowed):
    """Does the `kind` branch of if-node `node` leave only by raising one of `allowed`
    (canonical class names, subclasses accepted)?  -> (ok, detail)."""
    stmts = node.stmt.body if kind == 'T' else node.stmt.orelse
    if not stmts:
        return False, 'branch is empty'
    inside = body_ids(stmts)
    reach = []
    for d, k in node.succ:
        if k == kind:
            reach.append(d)
            reach.extend(cfg.reachable([d], edge_ok=F.normal))
    raises = []
    for m in reach:
        if m.stmt is None or id(m.stmt) not in inside:
            return False, 'the branch continues normally (reaches %s)' % (
                m.kind if m.stmt is None else 'line %s' % getattr(m.stmt, 'lineno', '?'))
        if m.kind == 'raise':
            raises.append(m.stmt)
    if not raises:
        return False, 'no raise in the branch'
    for r in raises:
        exc = r.exc.func if isinstance(r.exc, ast.Call) else r.exc
        cn = repo.canon_exc(fi.module, exc) if exc is not None else None
        anc = repo.exc_ancestors(cn) if cn else []
        if not any(a in anc for a in allowed):
            return False, 'raises %s, not %s' % (norm_text(r.exc) if r.exc is not None else 'bare', '/'.join(a.split(':')[-1] for a in allowed))
    return True, ''


def call_nodes(cfg, attr, recv=None):
    return F.stmt_nodes_where(cfg, F.has_call(attr, recv=recv))


def assigned_name(node, index=None):
    """Name bound by an Assign node (element `index` of a tuple target)."""
    s = node.stmt
    if not isinstance(s, ast.Assign) or len(s.targets) != 1:
        return None
    t = s.targets[0]
    if index is None:
        return t.id if isinstance(t, ast.Name) else None
    if isinstance(t, (ast.Tuple, ast.List)) and len(t.elts) > index and isinstance(t.elts[index], ast.Name):
        return t.elts[index].id
    return None


def name_writes(fn, name):
    return [d for d in U.local_defs(fn).get(name, []) if d[1] != 'param']


def is_decrement(stmt, target_text, amount_text):
    """`target -= amount` or `target = target - amount`."""
    if isinstance(stmt, ast.AugAssign) and isinstance(stmt.op, ast.Sub):
        return norm_text(stmt.target) == target_text and norm_text(stmt.value) == amount_text
    if isinstance(stmt, ast.Assign) and len(stmt.targets) == 1 and norm_text(stmt.targets[0]) == target_text:
        v = stmt.value
        return isinstance(v, ast.BinOp) and isinstance(v.op, ast.Sub) and norm_text(v.left) == target_text \
            and norm_text(v.right) == amount_text
    return False


def is_increment(stmt, target_text, amount_text):
    if isinstance(stmt, ast.AugAssign) and isinstance(stmt.op, ast.Add):
        return norm_text(stmt.target) == target_text and norm_text(stmt.value) == amount_text
    if isinstance(stmt, ast.Assign) and len(stmt.targets) == 1 and norm_text(stmt.targets[0]) == target_text:
        v = stmt.value
        return isinstance(v, ast.BinOp) and isinstance(v.op, ast.Add) \
            and {norm_text(v.left), norm_text(v.right)} == {target_text, amount_text}
    return False


def leaves_obs(it, observe, feasible=None):
    """Decision-tree leaves [(valuation, outcome, observed value)], forking also over the
    atoms that evaluating the returned expression needs."""
    out = []
    stack = [{}]
    while stack:
        val = stack.pop()
        if feasible is not None and not feasible(val):
            continue
        try:
            o = it.run(val)
            v = observe(o, lambda e, _v=val: it.truth(e, _v))
        except _Need as n:
            it.atoms.setdefault(n.key, n.domain)
            for d in reversed(n.domain):
                v2 = dict(val)
                v2[n.key] = d
                stack.append(v2)
            continue
        out.append((val, o, v))
        if len(out) > 2048:
            raise AnalysisError('%s: decision table too large' % it.fi.qual)
    return out


def full_table(it, lv):
    """Total function {frozenset(assignment items): value} over all atoms seen."""
    keys = sorted(it.atoms, key=str)
    table = {}
    for combo in itertools.product(*[it.atoms[k] for k in keys]):
        a = dict(zip(keys, combo))
        for val, o, v in lv:
            if all(a.get(k) == x for k, x in val.items()):
                table[tuple(combo)] = v
                break
    return keys, table


# ------------------------------------------------------- a tiny matcher over sre parse trees
def rx_accepts(rx, s, anchored):
    """Does the parsed pattern accept string `s` (re.match semantics when anchored,
    else re.search)?  Supports the operators a token test can reasonably use."""
    ic = rx.ignorecase

    def m(seq, i, pos, k):
        if i == len(seq):
            return k(pos)
        op, av = seq[i]
        if op in (C.LITERAL, C.NOT_LITERAL, C.ANY, C.IN):
            if pos < len(s) and RX.can_match_char(rx, (op, av), ord(s[pos])):
                return m(seq, i + 1, pos + 1, k)
            return False
        if op is C.AT:
            if av in (C.AT_BEGINNING, C.AT_BEGINNING_STRING):
                return pos == 0 and m(seq, i + 1, pos, k)
            if av is C.AT_END:
                return (pos == len(s) or (pos == len(s) - 1 and s[pos] == '\n')) and m(seq, i + 1, pos, k)
            if av is C.AT_END_STRING:
                return pos == len(s) and m(seq, i + 1, pos, k)
            raise AnalysisError('regex %r: anchor outside the supported language' % rx.pattern)
        if op is C.SUBPATTERN:
            return m(list(av[3]), 0, pos, lambda p: m(seq, i + 1, p, k))
        if op is C.BRANCH:
            return any(m(list(b), 0, pos, lambda p: m(seq, i + 1, p, k)) for b in av[1])
        if RX.is_repeat(op):
            lo, hi, sub = av
            sub = list(sub)

            def rep(count, p):
                if count >= lo and m(seq, i + 1, p, k):
                    return True
                if count < hi and count <= len(s) + lo:
                    return m(sub, 0, p, lambda q: (q > p or count < lo) and rep(count + 1, q))
                return False
            return rep(0, pos)
        raise AnalysisError('regex %r: operator %s outside the supported language' % (rx.pattern, op))

    seq = list(rx.parsed)
    starts = [0] if anchored else range(len(s) + 1)
    return any(m(seq, 0, st, lambda p: True) for st in starts)


def fold_codes(repo, mod, expr, _d=0):
    """Fold a set of status codes: frozenset/set/tuple/list/itertools.chain/range/literals/http.client names."""
    if _d > 8:
        raise ValueError('depth')
    if isinstance(expr, ast.Call):
        d = dotted(expr.func) or ''
        if d in ('frozenset', 'set', 'tuple', 'list') and len(expr.args) <= 1:
            return frozenset(fold_codes(repo, mod, expr.args[0], _d + 1)) if expr.args else frozenset()
        if d in ('itertools.chain', 'chain'):
            out = set()
            for a in expr.args:
                out |= set(fold_codes(repo, mod, a, _d + 1))
            return frozenset(out)
        if d == 'range':
            args = [fold_codes(repo, mod, a, _d + 1) for a in expr.args]
            if all(isinstance(a, int) for a in args):
                return frozenset(range(*args))
        raise ValueError('cannot fold call %s' % d)
    if isinstance(expr, (ast.Tuple, ast.List, ast.Set)):
        out = set()
        for e in expr.elts:
            v = fold_codes(repo, mod, e, _d + 1)
            out |= set(v) if isinstance(v, frozenset) else {v}
        return frozenset(out)
    if isinstance(expr, ast.BinOp) and isinstance(expr.op, ast.BitOr):
        return frozenset(fold_codes(repo, mod, expr.left, _d + 1)) | frozenset(fold_codes(repo, mod, expr.right, _d + 1))
    if isinstance(expr, ast.Constant) and isinstance(expr.value, int):
        return expr.value
    d = dotted(expr)
    if d:
        if d.startswith('http.client.') and hasattr(http.client, d.split('.')[-1]):
            return int(getattr(http.client, d.split('.')[-1]))
        r = repo.resolve_name(mod, d)
        if r and r[0] == 'const':
            return fold_codes(repo, r[1], r[2], _d + 1)
        if r and r[0] == 'external' and r[1].startswith('http.client.') and hasattr(http.client, r[1].split('.')[-1]):
            return int(getattr(http.client, r[1].split('.')[-1]))
    raise ValueError('cannot fold %s' % norm_text(expr))


def _stable(text):
    """Finding keys carry no instance counts (they change with unrelated edits)."""
    text = re.sub(r' ?\(\d+[^)]*\)', '', text)
    text = re.sub(r' at \d+ site\(s\)', '', text)
    return re.sub(r'\b\d+ (use\(s\)|construction site\(s\))', r'\1', text)


def _is_groups_item(fi, e, idx):
    """e is `<name>[idx]` where <name> is bound to `<match>.groups()`."""
    if isinstance(e, ast.Subscript) and isinstance(e.value, ast.Name) and isinstance(e.slice, ast.Constant) and e.slice.value == idx:
        d = U.local_defs(fi.node).get(e.value.id, [])
        return bool(d) and all(v is not None and isinstance(v, ast.Call) and U.attr_name(v) == 'groups' for v, k, s in d)
    return False


def run(ctx):
    repo, ck = ctx.repo, ctx.check
    record = ck.bad
    ck.bad = lambda rid, where, construct, *a, **k: record(rid, where, _stable(construct), *a, **k)
    ck.assume('asyncio.StreamReader semantics: read(n>0) returns b"" only at EOF, readline() returns a line without LF only '
              'at EOF, and EOF is sticky (every later read/readline returns b"")')
    ck.assume('decides the framing decisions, counters and error paths on all control-flow paths; equality of the delivered '
              'bytes for every segmentation and pipelined surplus arriving in a later read are not decided')
    ck.rule('C08-D1', 'framing choice: chunked (token test on Transfer-Encoding) before Content-Length before read-until-close; '
                      'ignore_length turns only `length` into `close`; header names are looked up case-insensitively')
    ck.rule('C08-D2', 'no body iff status in 1xx/204/304 or request method HEAD, irrespective of header fields (RFC 7230 3.3.3); '
                      'the code set folds to exactly those codes and the status code is an int')
    ck.rule('C08-D3', 'length reader: counter from int(Content-Length), decremented by len(bytes just read); exit with counter > 0 '
                      'always raises NetworkError; counter < 0 slices to the limit and closes; unparsable/negative falls back to until-close')
    ck.rule('C08-D4', 'chunk reader: LF-checked size line parsed as hex before ";", negative/unparsable -> ProtocolError; reads are '
                      'min(left, read_size) decremented by len(data); a chunk ends only via another size line; trailer always consumed')
    ck.rule('C08-D5', 'header block: every line LF-checked (NetworkError), block capped at 32768 bytes (ProtocolError), ends at the '
                      'blank line only, empty block refused, parsed from exactly the collected lines')
    ck.rule('C08-D6', 'keep-alive: should_close table (1.0: unless keep-alive; 1.1: iff close); after the body the connection is '
                      'closed when not keep_alive or should_close; until-close reader ends only at EOF; errors close the stream; '
                      'an unfinished session never returns a live connection')
    ck.rule('C08-D7', 'socket input in the HTTP readers is readline() or read(n) with an explicit positive size; nobody else reads')

    d1_framing(ctx)
    d2_no_body(ctx)
    d3_length(ctx)
    d2_interim(ctx)
    d4_chunk(ctx)
    d5_header(ctx)
    d6_keepalive(ctx)
    d6_eof_is_real(ctx)
    d6_read_awaited(ctx)
    from .common import delegating_wrapper_rule
    delegating_wrapper_rule(ctx, 'C08-D6')
    d7_who_reads(ctx)
    ck.rule('C08-D8', 'content coding removal is independent of the segmentation and truncation is detectable: the decoder rules of C19 (format decision on a prefix every first piece contains, decode exactly the content bytes, flush on every framing, zlib errors become protocol errors, eof consulted)')
    from . import c19
    from .common import RemapCtx
    c19.run(RemapCtx(ctx, {'C19-D1': 'C08-D8', 'C19-D2': 'C08-D8', 'C19-D3': 'C08-D8', 'C19-D4': 'C08-D8'}))


def d2_interim(ctx):
    """RFC 7231 6.2: a client MUST be able to parse one or more 1xx responses received prior to a final response, even if it does not
    expect one.  The header block Session.start hands out as *the* response of the exchange is therefore read in a loop that is left
    only on a status outside 1xx: a reader that returns the first block delivers `103 Early Hints` as the answer and leaves the real
    answer in the connection, where it is parsed as the response to the next request."""
    repo, ck = ctx.repo, ctx.check
    st = repo.func('wpull.protocol.http.client:Session.start')
    pm = U.parents(st.node)
    reads = [c for c in U.calls(st.node) if U.attr_name(c) == 'read_response']
    if not reads:
        raise AnalysisError('Session.start: read_response() not found')
    # a re-read loop governed by the status: `while True: read; if final: break` or `read; while interim: read`
    ok = False
    for loop in [x for x in walk_no_nested(st.node) if isinstance(x, ast.While)]:
        if not any(any(c is y for y in ast.walk(loop)) for c in reads):
            continue
        tests = [loop.test] + [x.test for x in ast.walk(loop) if isinstance(x, ast.If)]
        if any(any(isinstance(y, ast.Attribute) and y.attr == 'status_code' for y in ast.walk(t)) for t in tests):
            ok = True
    for c in reads[:1]:
        ck.expect(ok, 'C08-D2', st.qual, 'interim (1xx) responses are read past before the response of the exchange is handed out',
                  'the first header block is returned as the response: `HTTP/1.1 103 Early Hints` (or `100 Continue`) becomes the answer '
                  'with an empty body, and the final response left in the connection is parsed as the answer to the next request on it',
                  st.loc(c))


def d6_read_awaited(ctx, which=('wpull.protocol.http.client:Session.download', 'wpull.protocol.ftp.client:Session.download',
                                 'wpull.protocol.ftp.client:Session.download_listing')):
    """The failure of a body read (peer closed early, bad framing, zlib error, time-out of a read) reaches download()'s caller only
    if the read is awaited in a way that re-raises it: `yield from <read>` directly, through asyncio.wait_for, or - when it is
    parked in asyncio.wait, which never raises a task's exception - by asking the task for its result() / exception().  On every
    normal path from the start of the read to the point the exchange is marked complete one of these is passed."""
    repo, ck = ctx.repo, ctx.check
    n = 0
    for q in which:
        try:
            f = repo.func(q)
        except Exception:
            continue
        cfg = ctx.cfg(f)
        defs = U.local_defs(f.node)
        starts = []
        for name, ds in defs.items():
            for v, k, st in ds:
                vv = v
                if isinstance(vv, ast.Call) and (dotted(vv.func) or '').split('.')[-1] in ('ensure_future', 'async', 'create_task') and vv.args:
                    vv = vv.args[0]
                if k == 'assign' and isinstance(vv, ast.Call) and U.attr_name(vv) in ('read_body', 'read_stream', 'read_listing_content', '_read_body'):
                    starts.append((name, st))
        READS = ('read_body', 'read_stream', 'read_listing_content', '_read_body')
        direct = [x for x in walk_no_nested(f.node) if isinstance(x, (ast.YieldFrom, ast.Await)) and isinstance(x.value, ast.Call)
                  and (U.attr_name(x.value) in READS
                       or ((dotted(x.value.func) or '').endswith('wait_for') and x.value.args and isinstance(x.value.args[0], ast.Call)
                           and U.attr_name(x.value.args[0]) in READS))]
        if not starts and not direct:
            continue
        for name, st in starts:
            n += 1
            node = next((x for x in cfg.stmt_nodes() if x.stmt is st), None)
            if node is None:
                raise AnalysisError('%s: CFG node of the read not found' % q)

            def awaited(x, name=name):
                e = F.node_expr(x) if hasattr(F, 'node_expr') else x.stmt
                if e is None:
                    return False
                for y in ast.walk(e):
                    if isinstance(y, (ast.YieldFrom, ast.Await)):
                        v = y.value
                        if isinstance(v, ast.Name) and v.id == name:
                            return True
                        if isinstance(v, ast.Call) and (dotted(v.func) or '').endswith('wait_for') and v.args and isinstance(v.args[0], ast.Name) \
                                and v.args[0].id == name:
                            return True
                    if isinstance(y, ast.Call) and isinstance(y.func, ast.Attribute) and y.func.attr in ('result', 'exception') \
                            and isinstance(y.func.value, ast.Name) and y.func.value.id == name:
                        return True
                return False
            p = cfg.find_path(node, lambda m: m is cfg.exit, edge_ok=F.normal, stop=awaited)
            ck.expect(p is None, 'C08-D6', f.qual, 'the body read `%s` is awaited so that its failure propagates' % name,
                      'a normal path from the start of the read to the end of %s never asks the read for its outcome (asyncio.wait does not '
                      're-raise): a body cut short, a framing or decoding error ends as a completed exchange' % f.name, f.loc(st))
        for x in direct:
            n += 1
            ck.ok('C08-D6', f.qual, 'the body read is awaited directly (yield from)')
    if n < 1:
        raise AnalysisError('no body read found in the download functions')
    return n


def d6_eof_is_real(ctx):
    """The until-close reader, and the short-read tests of the other two, take an empty read for the end of the stream.  That is
    sound only if the connection layer returns what the transport returned: every value returned by a read / readline method
    of the connection classes is, on every path, the result of the network operation (or of the same method of the base
    class).  A path that makes up an empty read out of a reset or a time-out turns a body cut short into a complete one."""
    repo, ck = ctx.repo, ctx.check
    mod = repo.module('wpull.network.connection')
    n = 0
    for ci in [c for c in repo.classes.values() if c.module is mod]:
        for name in ('read', 'readline'):
            m = ci.methods.get(name)
            if m is None:
                continue
            n += 1
            defs = U.local_defs(m.node)

            def genuine(e, depth=0):
                if isinstance(e, ast.YieldFrom) or isinstance(e, ast.Await):
                    e = e.value
                if isinstance(e, ast.Call):
                    t = norm_text(e.func)
                    return t.endswith('run_network_operation') or t in ('super().read', 'super().readline') \
                        or t.endswith(('reader.read', 'reader.readline'))
                if isinstance(e, ast.Name) and depth < 4:
                    ds = defs.get(e.id, [])
                    return bool(ds) and all(v is not None and k == 'assign' and genuine(v, depth + 1) for v, k, s_ in ds)
                return False
            rets = [r for r in walk_no_nested(m.node) if isinstance(r, ast.Return)]
            bad = [r for r in rets if r.value is None or not genuine(r.value)]
            ck.expect(bool(rets) and not bad, 'C08-D6', m.qual, 'returns the result of the network read on every path',
                      'a path returns something other than what the transport delivered (%s): an error turned into an empty read is taken for '
                      'the end of the body by the until-close reader' % (norm_text(bad[0])[:60] if bad else 'no return'), m.loc(bad[0]) if bad else m.loc())
    if n < 2:
        raise AnalysisError('connection classes: read/readline not found')
    # a read that ended because the close timer closed the connection is a time-out, not an end of stream: run_network_operation asks
    # the timer afterwards, so the timer object must still be the one that was armed - only __init__ and connect may (re)bind it
    for ci in [c for c in repo.classes.values() if c.module is mod]:
        writers = {}
        for m in ci.methods.values():
            for st in F.assigned_attrs(m.node, '_close_timer'):
                writers.setdefault(m.name, []).append(st)
        for name, sts in writers.items():
            ck.expect(name in ('__init__', 'connect'), 'C08-D6', ci.qual + '.' + name, 'self._close_timer is bound in __init__ / connect only',
                      '%s replaces the close timer: the question "did the timer close this connection?" is then put to a fresh object that '
                      'answers no, and a read cut off by the time-out returns b\'\' like a clean end of stream' % name, ci.methods[name].loc(sts[0]))

    # ... and whoever arms the timer around a read also asks it: a read of the transport that runs while the close timer is armed (in a
    # `with self._close_timer.with_timeout()` block of its own, or inside run_network_operation through close_timeout=) must go
    # through the branch of run_network_operation that asks is_timeout() afterwards, i.e. carry close_timeout=
    rno = None
    for ci in [c for c in repo.classes.values() if c.module is mod]:
        rno = rno or ci.methods.get('run_network_operation')
    if rno is None:
        raise AnalysisError('run_network_operation not found')
    asks = False
    for i in walk_no_nested(rno.node):
        if isinstance(i, ast.If) and 'close_timeout' in norm_text(i.test) and 'is not None' in norm_text(i.test):
            armed = [w for w in i.body if isinstance(w, ast.With) and any('with_timeout' in norm_text(it.context_expr) for it in w.items)]
            after = [j for j in i.body if isinstance(j, ast.If) and 'is_timeout()' in norm_text(j.test)
                     and any(isinstance(r, ast.Raise) for r in (j.body if 'not' not in norm_text(j.test) else j.orelse))]
            asks = bool(armed) and bool(after) and i.body.index(after[0]) > i.body.index(armed[0])
    ck.expect(asks, 'C08-D6', rno.qual, 'close_timeout branch: arm the timer, run the task, then ask is_timeout() and raise',
              'run_network_operation no longer turns a read ended by the close timer into NetworkTimedOut', rno.loc())
    n_armed = 0
    for ci in [c for c in repo.classes.values() if c.module is mod]:
        for m in ci.methods.values():
            if m is rno:
                continue
            pm = None
            for c in U.calls(m.node):
                if not norm_text(c.func).endswith('run_network_operation') or not c.args:
                    continue
                a0 = norm_text(c.args[0])
                if 'reader.read' not in a0:
                    continue
                pm = pm or U.parents(m.node)
                under_with = any(isinstance(p_, ast.With) and any('with_timeout' in norm_text(it.context_expr) for it in p_.items)
                                 for p_ in U.ancestors(c, pm))
                has_kw = any(k.arg == 'close_timeout' for k in c.keywords)
                has_wait = any(k.arg == 'wait_timeout' for k in c.keywords)
                n_armed += 1
                ck.expect(has_kw or (has_wait and not under_with), 'C08-D6', m.qual, 'transport read runs with close_timeout= (timer armed and asked)',
                          ('the read runs under the armed close timer but without close_timeout=: when the timer closes a stalled connection the '
                           'read returns b\'\' and nobody asks is_timeout() - the stall is taken for the end of the stream' if under_with else
                           'the read of the transport carries neither close_timeout= nor wait_timeout=: a stalled peer is never timed out, or - armed '
                           'elsewhere - its time-out is taken for the end of the stream'), m.loc(c))
    if n_armed < 2:
        raise AnalysisError('expected the read and readline calls of the connection to go through run_network_operation (found %d)' % n_armed)


# =============================================================================== D1
def _strategy_of(val, strat_keys):
    """Strategies in {chunked,length,close} consistent with the order atoms on the strategy expression."""
    out = []
    for s in ('chunked', 'length', 'close'):
        good = True
        for k in strat_keys:
            if k not in val:
                continue
            const = ast.literal_eval(k[1])
            rel = 'eq' if const == s else ('lt' if const < s else 'gt')
            if val[k] != rel:
                good = False
        if good:
            out.append(s)
    return out


def d1_framing(ctx):
    repo, ck = ctx.repo, ctx.check
    mod = repo.module(STREAM)
    grs = repo.func(STREAM + ':Stream.get_read_strategy')
    rparam = [p for p in grs.params if p not in ('self', 'cls')]
    if not rparam:
        raise AnalysisError('get_read_strategy takes no response parameter')
    # --- the chunked test is a regular-expression match on the Transfer-Encoding value
    rxcalls = [c for c in U.calls(grs.node) if (dotted(c.func) or '') in ('re.match', 're.search', 're.fullmatch')]
    chunk_key = None
    it = Interp(repo, grs)
    if len(rxcalls) != 1:
        ck.bad('C08-D1', grs.qual, 're.match(<chunked token>, Transfer-Encoding value)',
               'the chunked test is no longer a single regular-expression match on the Transfer-Encoding value (%d found)' % len(rxcalls), grs.loc())
    else:
        call = rxcalls[0]
        subj = U.expand_locals(grs.node, call.args[1]) if len(call.args) > 1 else None
        lowered = False
        while isinstance(subj, ast.Call) and isinstance(subj.func, ast.Attribute) and not subj.args and not subj.keywords \
                and subj.func.attr in ('lower', 'casefold', 'strip'):
            lowered = lowered or subj.func.attr != 'strip'
            subj = subj.func.value
        st = norm_text(subj) if subj is not None else ''
        r = rparam[0]
        oks = st in ("%s.fields.get('Transfer-Encoding', '')" % r, "%s.fields.get('Transfer-Encoding') or ''" % r,
                     "(%s.fields.get('Transfer-Encoding') or '')" % r)
        ck.expect(oks, 'C08-D1', grs.qual, 'chunked test subject: %s' % st,
                  'the chunked test does not look at the Transfer-Encoding field value (with "" when absent)', grs.loc(call))
        rx = RX.rx_from_call(repo, mod, call)
        if rx is None or not isinstance(rx.pattern, str):
            ck.bad('C08-D1', grs.qual, norm_text(call), 'the chunked pattern is not a constant string', grs.loc(call))
        else:
            fn = dotted(call.func).split('.')[-1]
            anchored = fn in ('match', 'fullmatch')
            full = fn == 'fullmatch'

            def acc(s):
                if not full:
                    return rx_accepts(rx, s, anchored)
                saved = rx.parsed
                try:
                    rx.parsed = list(saved) + [(C.AT, C.AT_END_STRING)]
                    return rx_accepts(rx, s, True)
                finally:
                    rx.parsed = saved
            must = ['chunked']
            mustnot = ['', 'identity', 'gzip', 'chunkedx', 'chunked2', 'xchunked', 'x-chunked', 'chunke', 'deflate, gzip']
            wrong = [s for s in must if not acc(s)] + [s for s in mustnot if acc(s)]
            ck.expect(not wrong, 'C08-D1', grs.qual, 'pattern %r accepts the token "chunked" and no other token' % rx.pattern,
                      'the chunked pattern %r misclassifies Transfer-Encoding values %r: a chunked body is read by length/close '
                      '(or the reverse) and chunk framing ends up in the payload' % (rx.pattern, wrong), grs.loc(call))
            missed = [s for s in ('Chunked', 'CHUNKED') if not acc(s.lower() if lowered else s)]
            ck.expect(not missed, 'C08-D1', grs.qual,
                      'the chunked token test on Transfer-Encoding is case-sensitive',
                      'transfer-coding names are case-insensitive (RFC 7230 section 4) but pattern %r (flags %s) rejects %r: such a '
                      'response is read by Content-Length/until close and the chunk-size lines are delivered as payload'
                      % (rx.pattern, 'IGNORECASE' if rx.ignorecase else 'none', missed), grs.loc(call),
                      okmsg='chunked test is case-insensitive')
            if not acc('gzip, chunked'):
                if getattr(ctx, 'prop', None) == 'C08':
                    ck.bad('C08-D1', grs.qual, 'a coding list whose final coding is chunked is read as chunked',
                           'RFC 7230 3.3.3 (3): `Transfer-Encoding: gzip, chunked` (or `chunked` on a second field line) is delimited by '
                           'chunks; the token test looks at the start of the first value only, so such a body is read until close - a hang '
                           'on a persistent connection, chunk framing delivered as payload otherwise', grs.loc(call))
                else:
                    ck.remark('C08-D1: a Transfer-Encoding list whose final coding is chunked ("gzip, chunked") is not recognised as '
                              'chunked (a C08 finding; the bytes recorded are still the wire bytes)')
        chunk_key = ('T', txt(it.canon.rename(call)))
    # --- strategy table
    cl_keys = []

    def obs(o, truth):
        if o.kind == 'return' and isinstance(o.value, ast.Constant):
            return o.value.value
        return 'other:%s' % o

    lv = leaves_obs(it, obs)
    values = {v for _, _, v in lv}
    ck.expect(values <= {'chunked', 'length', 'close'} and len(values) == 3, 'C08-D1', grs.qual,
              'strategies returned: %s' % sorted(map(str, values)),
              'get_read_strategy returns %s instead of exactly chunked/length/close' % sorted(map(str, values)), grs.loc())
    pn = it.t(rparam[0])
    for k in it.atoms:
        if k[0] == 'in' and k[2] == pn + '.fields' and k[1].strip('\'"').title() == 'Content-Length':
            cl_keys.append(k)
    badrows = []
    for val, o, v in lv:
        unknown = [k for k in val if k != chunk_key and k not in cl_keys]
        if unknown:
            badrows.append('depends on %s' % fmt_val({k: val[k] for k in unknown}))
            continue
        exp = set()
        for ch in ([val[chunk_key]] if chunk_key in val else [True, False]):
            for cl in ([val[k] for k in cl_keys if k in val][:1] or [True, False]):
                exp.add('chunked' if ch else ('length' if cl else 'close'))
        if exp != {v}:
            badrows.append('%s -> %s, reference %s' % (fmt_val(val) or 'always', v, '/'.join(sorted(exp))))
    ck.expect(not badrows and chunk_key is not None, 'C08-D1', grs.qual,
              'table (%d leaves): chunked match -> chunked; else Content-Length present -> length; else close' % len(lv),
              'framing choice differs from "chunked before Content-Length before close": %s' % '; '.join(badrows[:3]), grs.loc())

    # --- dispatch in read_body (with the ignore_length override) and the close decision (D6)
    rb = repo.func(STREAM + ':Stream.read_body')
    if len(rb.params) < 3:
        raise AnalysisError('read_body signature changed')
    itb = Interp(repo, rb)
    P = {p: itb.t(p) for p in rb.params if p != 'self'}
    req, resp = rb.params[1], rb.params[2]
    nb_key = ('T', itb.t('is_no_body(%s, %s)' % (req, resp)))
    ign = ('T', itb.t('self._ignore_length'))
    ka = ('T', itb.t('self._keep_alive'))
    ok_canon = ign[1].startswith('C') and ka[1].startswith('C')
    ck.expect(ok_canon, 'C08-D1', rb.qual, 'ignore_length / keep_alive are the constructor arguments',
              'self._ignore_length / self._keep_alive are no longer fed by the constructor parameters', rb.loc())
    st_cls = repo.cls(STREAM + ':Stream')
    for fld in ('_ignore_length', '_keep_alive', '_read_size', '_connection'):
        writers = sorted(m.name for m in st_cls.methods.values() if F.assigned_attrs(m.node, fld))
        ck.expect(writers == ['__init__'], 'C08-D1', st_cls.qual, 'self.%s written only by __init__' % fld,
                  'self.%s is rewritten outside the constructor (%s): the framing decision can change mid-stream' % (fld, writers))

    def feas(val):
        sk = [k for k in val if k[0] == 'ord' and 'get_read_strategy(' in k[2]]
        return bool(_strategy_of(val, sk)) if sk else True

    lvb = leaves_obs(itb, lambda o, truth: o.kind, feas)
    READERS = {'_read_body_by_chunk': 'chunked', '_read_body_by_length': 'length', '_read_body_until_close': 'close'}
    rowbad = {}
    rowok = {}
    closebad = []
    nclose = 0
    sc_texts = set()
    for val, o, kind in lvb:
        strat_keys = [k for k in val if k[0] == 'ord' and 'get_read_strategy(' in k[2]]
        sc_keys = [k for k in val if k[0] == 'T' and 'should_close(' in k[1]]
        known = set(strat_keys) | set(sc_keys) | {nb_key, ign, ka}
        if len(rb.params) > 4:
            known.add(('T', P[rb.params[4]]))
        stray = [k for k in val if k not in known]
        readers = []
        for i, e in enumerate(o.effects):
            for name in READERS:
                if e.startswith('yield from self.%s(' % name) or e.startswith('await self.%s(' % name):
                    readers.append((i, name, e))
        if stray:
            rowbad.setdefault('other', []).append('decision depends on %s' % fmt_val({k: val[k] for k in stray}))
            continue
        if nb_key not in val:
            rowbad.setdefault('no-body', []).append('is_no_body(request, response) is not consulted first (%s)' % (fmt_val(val) or 'always'))
            continue
        if val[nb_key]:
            if readers or kind not in ('return', 'end', 'fall', 'exit'):
                rowbad.setdefault('no-body', []).append('a reader runs although no body is expected' if readers else 'the no-body path ends in %s' % kind)
            else:
                rowok.setdefault('no-body', 0)
                rowok['no-body'] += 1
                # the keep-alive decision applies to a message without a body as well (204 / 304 with `Connection: close`, any
                # HTTP/1.0 answer): RFC 7230 6.6 - the connection must not be used again
                closes = any(e in ('self.close()', 'self._connection.close()') for e in o.effects)
                exp = set()
                for a in ([val[ka]] if ka in val else [True, False]):
                    for b in ([val[sc_keys[0]]] if sc_keys else [True, False]):
                        exp.add((not a) or b)
                for k in sc_keys:
                    sc_texts.add(k[1])
                nclose += 1
                if exp != {closes}:
                    closebad.append('no body expected, %s -> %s, reference: close iff not keep_alive or should_close' % (
                        fmt_val({k: v for k, v in val.items() if k == ka or k in sc_keys}) or 'always', 'close' if closes else 'keep open'))
            continue
        for k in strat_keys:
            if not k[2].endswith('get_read_strategy(%s)' % P[resp]):
                rowbad.setdefault('other', []).append('strategy computed from %s' % k[2])
        combos = [(s, g) for s in _strategy_of(val, strat_keys) for g in ([val[ign]] if ign in val else [True, False])]
        for s, g in combos:
            want = 'chunked' if s == 'chunked' else ('length' if s == 'length' and not g else 'close')
            row = '%s/%s' % (s, 'ignore_length' if g else 'honour length')
            got = [READERS[n] for _, n, _ in readers]
            args_ok = all(e.split('(', 1)[1].startswith('%s, %s' % (P[resp], P[rb.params[3]] if len(rb.params) > 3 else '')) for _, _, e in readers)
            if got != [want] or not args_ok:
                rowbad.setdefault(row, []).append('%s -> %s, reference %s reader' % (fmt_val(val), [e for _, _, e in readers] or 'no reader', want))
            else:
                rowok[row] = rowok.get(row, 0) + 1
        # close decision after the body
        if readers:
            after = o.effects[readers[-1][0] + 1:]
            closes = any(e in ('self.close()', 'self._connection.close()') for e in after)
            for k in sc_keys:
                sc_texts.add(k[1])
            exp = set()
            for a in ([val[ka]] if ka in val else [True, False]):
                for b in ([val[sc_keys[0]]] if sc_keys else [True, False]):
                    exp.add((not a) or b)
            nclose += 1
            if exp != {closes}:
                closebad.append('%s -> %s, reference: close iff not keep_alive or should_close' % (
                    fmt_val({k: v for k, v in val.items() if k == ka or k in sc_keys}) or 'always', 'close' if closes else 'keep open'))
    for row in ('no-body', 'chunked/honour length', 'chunked/ignore_length', 'length/honour length', 'length/ignore_length',
                'close/honour length', 'close/ignore_length', 'other'):
        if row in rowbad:
            ck.bad('C08-D1', rb.qual, 'read_body dispatch row %s' % row,
                   'body reader selection differs from the reference (chunked always chunked; length unless ignore_length; else close): %s'
                   % '; '.join(sorted(set(rowbad[row]))[:2]), rb.loc())
        elif row != 'other':
            ck.expect(rowok.get(row, 0) > 0, 'C08-D1', rb.qual, 'read_body dispatch row %s (%d leaves)' % (row, rowok.get(row, 0)),
                      'no path of read_body covers the row %s' % row, rb.loc())
    ck.expect(not closebad and nclose > 0, 'C08-D6', rb.qual, 'after the body: close iff not keep_alive or should_close (%d leaves)' % nclose,
              'connection close decision after the body differs: %s' % '; '.join(sorted(set(closebad))[:3]), rb.loc())
    want_sc = {'should_close(%s.version, %s.fields.get(\'Connection\'))' % (P[v], P[resp]) for v in (req, resp)}
    ok_sc = bool(sc_texts) and all(any(t.endswith(w) for w in want_sc) for t in sc_texts)
    if ok_sc:
        for t in sc_texts:
            c = ast.parse(t, mode='eval').body
            r = repo.resolve_name(rb.module, dotted(c.func) or '')
            ok_sc = ok_sc and r is not None and r[0] == 'func' and r[1].qual == HUTIL + ':should_close'
    ck.expect(ok_sc, 'C08-D6', rb.qual, 'should_close(<version>, response.fields.get(\'Connection\')) from wpull.protocol.http.util',
              'the keep-alive verdict is not computed by should_close from the HTTP version and the Connection field of the response: %s' % sorted(sc_texts), rb.loc())

    # --- field names are looked up case-insensitively
    nv = repo.cls(NV + ':NameValueRecord')
    for mname in ('__getitem__', 'add'):
        m = nv.methods.get(mname)
        if m is None:
            raise AnalysisError('NameValueRecord.%s not found' % mname)
        key = m.params[1]
        subs = [n for n in walk_no_nested(m.node) if isinstance(n, ast.Subscript) and U.is_self_attr(n.value, '_map')]
        ins = [n for n in walk_no_nested(m.node) if isinstance(n, ast.Compare) and any(U.is_self_attr(c, '_map') for c in n.comparators)]
        keys = [n.slice for n in subs] + [n.left for n in ins]
        good = bool(keys)
        for kx in keys:
            e = U.expand_locals(m.node, kx)
            good = good and isinstance(e, ast.Call) and (dotted(e.func) or '') == 'normalize_name' and e.args \
                and isinstance(e.args[0], ast.Name) and e.args[0].id == key
        ck.expect(good, 'C08-D1', m.qual, 'self._map keyed by normalize_name(%s) at %d site(s)' % (key, len(keys)),
                  'header fields are stored/looked up without name normalisation: "content-length" and "Content-Length" become different fields', m.loc())
    over = [x for x in ('get', '__contains__') if x in nv.methods]
    ck.expect(not over, 'C08-D1', nv.qual, 'get / in come from the Mapping mix-in (through __getitem__)',
              'NameValueRecord overrides %s; its name normalisation is not established' % over)
    nn = repo.func(NV + ':normalize_name')
    rets = [r for r in walk_no_nested(nn.node) if isinstance(r, ast.Return)]
    okn = bool(rets)
    for r in rets:
        e = U.expand_locals(nn.node, r.value)
        okn = okn and any(isinstance(c, ast.Call) and U.attr_name(c) == 'title' and isinstance(c.func.value, ast.Name)
                          and c.func.value.id == nn.params[0] for c in ast.walk(e))
    ck.expect(okn, 'C08-D1', nn.qual, 'every result derives from name.title()', 'normalize_name no longer case-folds the field name', nn.loc())


# =============================================================================== D2
def d2_no_body(ctx):
    repo, ck = ctx.repo, ctx.check
    mod = repo.module(STREAM)
    f = repo.func(STREAM + ':is_no_body')
    if len(f.params) < 3:
        raise AnalysisError('is_no_body signature changed')
    it = Interp(repo, f)

    def obs(o, truth):
        if o.kind == 'return' and o.value is not None:
            return bool(truth(o.value))
        if o.kind in ('return', 'fall'):
            return False
        return 'other:' + o.kind

    lv = leaves_obs(it, obs)
    p_req, p_resp, p_codes = (it.t(p) for p in f.params[:3])
    code_key = [k for k in it.atoms if k[0] == 'in' and k[1] == p_resp + '.status_code' and k[2] == p_codes]
    head_key = [k for k in it.atoms if k[0] == 'ord' and k[1] == "'HEAD'" and k[2] in (p_req + '.method.upper()', p_req + '.method')]
    hdr_keys = [k for k in it.atoms if k[0] == 'in' and k[2] == p_resp + '.fields']
    hdr_keys += [k for k in it.atoms if k[0] == 'T' and k[1].startswith(p_resp + '.fields')]
    stray = [k for k in it.atoms if k not in code_key + head_key + hdr_keys]
    ck.expect(len(code_key) == 1 and len(head_key) == 1 and not stray, 'C08-D2', f.qual,
              'conditions: status_code in codes, method == HEAD%s' % (', header tests %s' % [k[1] for k in hdr_keys] if hdr_keys else ''),
              'is_no_body does not decide from "status code in the no-content set" and "request method is HEAD" '
              '(found conditions: %s)' % [fmt_val({k: it.atoms[k][0]}) for k in it.atoms], f.loc())
    if len(code_key) == 1 and len(head_key) == 1 and not stray:
        keys, table = full_table(it, lv)
        ic, ih = keys.index(code_key[0]), keys.index(head_key[0])
        hidx = [keys.index(k) for k in hdr_keys]
        rowbad = []
        nrows = 0
        for combo, v in sorted(table.items(), key=str):
            if any(combo[i] for i in hidx):
                continue
            nrows += 1
            ref = bool(combo[ic]) or combo[ih] == 'eq'
            if v != ref:
                rowbad.append('status %s the set, method %s HEAD -> %s, RFC 7230: %s' % (
                    'in' if combo[ic] else 'not in', '==' if combo[ih] == 'eq' else '!=', v, ref))
        ck.expect(not rowbad, 'C08-D2', f.qual, 'no-header rows (%d): no body iff status in the set or method HEAD' % nrows,
                  'no-body verdict differs from RFC 7230 3.3.3: %s' % '; '.join(rowbad[:3]), f.loc())
        # independence from header fields
        matter = set()
        witness = None
        for combo, v in table.items():
            for i in hidx:
                flipped = list(combo)
                flipped[i] = not combo[i]
                w = table.get(tuple(flipped))
                if w is not None and w != v:
                    matter.add(keys[i])
                    if witness is None and (combo[ic] or combo[ih] == 'eq'):
                        witness = dict(zip(keys, combo))
        if matter:
            desc = ', '.join(sorted('%s in %s' % (k[1], k[2]) if k[0] == 'in' else k[1] for k in matter))
            ck.bad('C08-D2', f.qual, 'no-body verdict depends on header fields: %s' % desc,
                   'RFC 7230 3.3.3 rule 1: a response to HEAD and any 1xx/204/304 response has no body whatever header fields it '
                   'carries; here the verdict also requires these fields to be absent, so a 304 or HEAD response carrying '
                   'Content-Length: n makes the client wait for n body bytes that never come (time-out, or the next response on '
                   'the persistent connection is swallowed as body)', f.loc())
        else:
            ck.ok('C08-D2', f.qual, 'verdict independent of header fields (%d table rows)' % len(table))
    # the default code set
    defaults = f.node.args.defaults
    dexpr = defaults[-1] if defaults and len(defaults) >= 1 and len(f.params) - len(defaults) <= 2 else None
    try:
        codes = fold_codes(repo, mod, dexpr) if dexpr is not None else None
    except ValueError as e:
        raise AnalysisError('cannot fold the no-content code set: %s' % e)
    want = frozenset(range(100, 200)) | {204, 304}
    if codes is None:
        ck.bad('C08-D2', f.qual, 'default no-content code set', 'is_no_body has no default code set', f.loc())
    else:
        miss, extra = sorted(want - codes), sorted(codes - want)
        ck.expect(not miss and not extra, 'C08-D2', f.qual, '%s folds to 1xx + 204 + 304 (%d codes)' % (norm_text(dexpr), len(codes)),
                  'the no-content code set %s: responses with these codes are framed wrongly'
                  % ('lacks %s' % miss[:5] if miss else 'also contains %s' % extra[:5]), f.loc())
    # call sites use the default set
    sites = 0
    for g in repo.funcs.values():
        if not g.module.name.startswith('wpull.') or g is f:
            continue
        for c in U.calls(g.node):
            if (dotted(c.func) or '').split('.')[-1] == 'is_no_body':
                sites += 1
                ck.expect(len(c.args) + len(c.keywords) == 2, 'C08-D2', g.qual, norm_text(c),
                          'is_no_body is called with its own code set', g.loc(c), okmsg='%s uses the default code set' % norm_text(c))
    if sites == 0:
        ck.bad('C08-D2', STREAM, 'is_no_body call sites', 'nobody consults is_no_body any more')
    # the status code is an int taken from the status line
    psl = repo.func(REQ + ':Response.parse_status_line')
    rets = [r for r in walk_no_nested(psl.node) if isinstance(r, ast.Return) and r.value is not None]
    okint = bool(rets)
    for r in rets:
        tup = None
        for n in ast.walk(r.value):
            if isinstance(n, ast.Tuple) and len(n.elts) == 3:
                tup = n
                break
        e = tup.elts[1] if tup is not None else None
        okint = okint and isinstance(e, ast.Call) and dotted(e.func) == 'int' and len(e.args) == 1 \
            and (U.like(e.args[0], 'L_m.group(2)') or _is_groups_item(psl, e.args[0], 1))
    rxs = [RX.rx_from_call(repo, psl.module, c) for c in U.calls(psl.node) if (dotted(c.func) or '') == 're.match']
    rxs = [r for r in rxs if r is not None]
    okrx = len(rxs) == 1
    if okrx:
        groups = [av for op, av in rxs[0].walk() if op is C.SUBPATTERN]
        okrx = len(groups) == 3
        if okrx:
            g2 = list(groups[1][3])
            okrx = len(g2) == 1 and RX.is_repeat(g2[0][0]) and g2[0][1][0] >= 1 \
                and all(RX.class_matches(g2[0][1][2][0], ord(d)) for d in '0123456789') \
                and not RX.class_matches(g2[0][1][2][0], ord('a'))
    ck.expect(okint and okrx, 'C08-D2', psl.qual, 'status code = int(<1-3 digits of the status line>)',
              'the status code is not an int parsed from 1-3 digits: membership in the code set never holds', psl.loc())
    rp = repo.func(REQ + ':Response.parse')
    okp = any(isinstance(s, ast.Assign) and isinstance(s.targets[0], ast.Tuple) and len(s.targets[0].elts) == 3
              and norm_text(s.targets[0].elts[1]) == 'self.status_code' and isinstance(s.value, ast.Call)
              and U.attr_name(s.value) == 'parse_status_line' for s in walk_no_nested(rp.node))
    ck.expect(okp, 'C08-D2', rp.qual, 'self.status_code <- parse_status_line(first line)[1]',
              'Response.parse no longer takes the status code from parse_status_line', rp.loc())


# =============================================================================== D3
def _loop_of(fn, stmt, pm):
    for a in U.ancestors(stmt, pm):
        if isinstance(a, (ast.While, ast.For)):
            return a
        if isinstance(a, (ast.FunctionDef, ast.AsyncFunctionDef)):
            return None
    return None


def _is_logging(stmt):
    return isinstance(stmt, ast.Expr) and isinstance(stmt.value, ast.Call) and (dotted(stmt.value.func) or '').startswith(('_logger.', 'logging.'))


def _loads(node, name):
    e = node_expr(node)
    if e is None:
        return False
    return any(isinstance(x, ast.Name) and x.id == name and isinstance(x.ctx, ast.Load) for x in walk_no_nested(e))


def _remote_errors(repo):
    """The error classes the processors handle per URL (REMOTE_ERRORS), canonical names."""
    pb = repo.module('wpull.processor.base')
    try:
        v = repo.fold(pb, ast.Name(id='REMOTE_ERRORS', ctx=ast.Load()))
    except ValueError as e:
        raise AnalysisError('cannot fold REMOTE_ERRORS: %s' % e)
    return [str(x) for x in v]


def d3_length(ctx):
    repo, ck = ctx.repo, ctx.check
    f = repo.func(STREAM + ':Stream._read_body_by_length')
    cfg = ctx.cfg(f)
    pm = U.parents(f.node)
    loc = f.loc
    reads = call_nodes(cfg, 'read', recv='self._connection')
    rd = reads[0] if len(reads) == 1 else None
    data = assigned_name(rd) if rd is not None else None
    loop = _loop_of(f.node, rd.stmt, pm) if rd is not None else None
    if rd is None or data is None or not isinstance(loop, ast.While):
        ck.bad('C08-D3', f.qual, 'data = yield from self._connection.read(n) inside the counting loop',
               'the length reader no longer has exactly one connection read, assigned to a local, inside a while loop (%d reads)' % len(reads), loc())
        return
    hdr = [n for n in cfg.nodes_of(loop) if n.kind == 'while'][0]
    after = [n for n in cfg.nodes_of(loop) if n.kind == 'join'][0]
    # the counter: the subject of the loop test
    rel = int_rel(loop.test)
    ctr = rel[0] if rel else None
    okc = rel is not None and rel[1:] == ('gt', 0) and ctr.isidentifier()
    ck.expect(okc, 'C08-D3', f.qual, 'while %s: reads continue exactly while the counter is positive' % norm_text(loop.test),
              'the loop condition %s is not "bytes left > 0": the reader stops early or reads past the body' % norm_text(loop.test), loc(loop))
    if not okc:
        return
    # surplus after the body is discarded with the connection (property statement): that needs a read that can see past the
    # body.  A request size capped by the counter can never overrun, so surplus stays buffered, the connection stays open
    # and is parsed as the next response.
    rcall = [c for c in F.node_calls(rd) if U.attr_name(c) == 'read'][0]
    size_names = {x.id for a in list(rcall.args) + [k.value for k in rcall.keywords] for x in ast.walk(U.expand_locals(f.node, a)) if isinstance(x, ast.Name)}
    ck.expect(ctr not in size_names, 'C08-D3', f.qual, 'read size %s is independent of %s' % (norm_text(rcall.args[0]) if rcall.args else '()', ctr),
              'the read is capped by the remaining length: surplus bytes after a length-delimited body can no longer be seen, '
              'so they are not discarded with the connection but parsed as the next response', loc(rd.stmt))
    # (d) counter initialised from int(Content-Length); unparsable / negative -> until close
    writes = name_writes(f.node, ctr)
    inits = [w for w in writes if w[1] == 'assign' and _loop_of(f.node, w[2], pm) is None]
    inloop = [w for w in writes if w not in inits]
    parsed = None
    okinit = len(inits) == 1
    if okinit:
        e = U.expand_locals(f.node, inits[0][0])
        okinit = isinstance(e, ast.Call) and dotted(e.func) == 'int' and len(e.args) == 1 and not e.keywords \
            and isinstance(e.args[0], ast.Subscript) and norm_text(e.args[0].value) == '%s.fields' % f.params[1] \
            and isinstance(e.args[0].slice, ast.Constant) and str(e.args[0].slice.value).title() == 'Content-Length'
        if isinstance(inits[0][0], ast.Name):
            parsed = inits[0][0].id
    ck.expect(okinit, 'C08-D3', f.qual, '%s initialised once from int(response.fields[\'Content-Length\'])' % ctr,
              'the byte counter does not start from the decimal Content-Length value', loc(inits[0][2]) if inits else loc())
    int_nodes = [n for n in cfg.stmt_nodes() if any(dotted(c.func) == 'int' for c in F.node_calls(n))]
    trys = [t for t in walk_no_nested(f.node) if isinstance(t, ast.Try) and int_nodes
            and any(int_nodes[0].stmt is x for b in t.body for x in ast.walk(b))]
    okfb = False
    why = 'int(Content-Length) is not inside a try with a ValueError handler'
    if len(int_nodes) == 1 and trys:
        t = trys[0]
        pv = assigned_name(int_nodes[0]) or parsed
        hs = [h for h in t.handlers if h.type is None or any(
            x in ('ValueError', 'Exception', 'BaseException') for x in
            [norm_text(e) for e in (h.type.elts if isinstance(h.type, ast.Tuple) else [h.type])])]
        if hs:
            h = hs[0]
            hn = cfg.nodes_of(h)
            reach = cfg.reachable(hn, edge_ok=F.normal)
            falls = [n for n in reach if n is hdr]
            p = F.escapes_without(cfg, hn[0], F.has_call('_read_body_until_close', recv='self')) if hn else True
            if falls:
                why = 'after an invalid Content-Length the handler continues into the counting loop'
            elif p is not None:
                why = 'after an invalid Content-Length the handler returns without reading until close: %s' % describe_path(p)
            else:
                negs = [(n, negative_edge(n.stmt.test, pv)) for n in if_nodes(cfg) if pv and negative_edge(n.stmt.test, pv)
                        and any(n.stmt is x for b in t.body for x in ast.walk(b))]
                if len(negs) != 1:
                    why = 'a negative Content-Length is not rejected inside the try (if %s < 0: raise ValueError)' % (pv or 'size')
                else:
                    okr, det = branch_raises(repo, f, cfg, negs[0][0], negs[0][1], ['ValueError'])
                    okfb = okr
                    why = 'negative Content-Length: %s' % det
    ck.expect(okfb, 'C08-D3', f.qual, 'unparsable or negative Content-Length -> ValueError handler -> _read_body_until_close, return',
              'fallback for an invalid Content-Length broken: %s' % why, loc())
    # (a) decrement by len(data just read), once per iteration, before any use
    decs = [n for n in cfg.stmt_nodes() if n.kind == 'stmt' and is_decrement(n.stmt, ctr, 'len(%s)' % data)]
    okdec = len(decs) == 1 and len(inloop) == 1
    if not okdec:
        others = [norm_text(w[2]) for w in inloop]
        ck.bad('C08-D3', f.qual, '%s -= len(%s)' % (ctr, data),
               'the counter is not decremented exactly once per read by the length of the bytes just read (writes in the loop: %s): '
               'a short read is counted as a full one and the body is cut short, or the reader waits for bytes that will not come' % others,
               loc(inloop[0][2]) if inloop else loc(loop))
        return
    dec = decs[0]
    p = path_avoiding(cfg, rd, lambda m: m is hdr, stop=lambda m: m is dec)
    ck.expect(p is None, 'C08-D3', f.qual, '%s -= len(%s) on every way round the loop' % (ctr, data),
              'an iteration can complete without counting the bytes it read', loc(dec.stmt), path=describe_path(p) if p else None)
    redefs = [w for w in name_writes(f.node, data) if w[2] is not rd.stmt]
    # EOF test
    eofs = edges_where(cfg, lambda t: empty_edge(t, data), kinds=('if',))
    okeof = bool(eofs) and all(path_avoiding(cfg, [n for n in cfg.nodes if n.id == i][0], lambda m: m is after, first=k,
                                             stop=lambda m: m is hdr) is not None for i, k in eofs)
    ck.expect(okeof, 'C08-D3', f.qual, 'if not %s: break (EOF leaves the loop)' % data,
              'EOF (an empty read) does not leave the loop: the reader spins or counts nothing forever', loc(rd.stmt))
    # (b) loop exit with counter > 0 -> raise NetworkError
    gk = {n.id: positive_edge(n.stmt.test, ctr) for n in if_nodes(cfg) if positive_edge(n.stmt.test, ctr) and _loop_of(f.node, n.stmt, pm) is None}
    guards = [n for n in if_nodes(cfg) if n.id in gk]
    okg = False
    det = 'no `if %s > 0: raise` after the loop' % ctr
    gpath = None
    if guards:
        gpath = path_avoiding(cfg, after, lambda m: m is cfg.exit, stop=lambda m: m in guards)
        if gpath is not None:
            det = 'the function can return after the loop without testing the counter'
        else:
            okg = True
            for g in guards:
                okr, d = branch_raises(repo, f, cfg, g, gk[g.id], _remote_errors(repo))
                if not okr:
                    okg, det = False, d
    ck.expect(okg, 'C08-D3', f.qual, 'after the loop: if %s > 0: raise <handled remote error>' % ctr,
              'a body cut short by the peer (EOF with %s > 0) is returned as a complete, shorter download: %s' % (ctr, det),
              loc(guards[0].stmt) if guards else loc(loop), path=describe_path(gpath) if gpath else None)
    # (c) overrun: slice to the limit and close, before any use of the data
    overs = [n for n in if_nodes(cfg) if negative_edge(n.stmt.test, ctr) == 'T' and _loop_of(f.node, n.stmt, pm) is loop]
    if len(overs) != 1:
        ck.bad('C08-D3', f.qual, 'if %s < 0: %s = %s[:%s]; close' % (ctr, data, data, ctr),
               'no overrun test in the loop: bytes after the declared length (the next response, or junk) are delivered as body', loc(loop))
        return
    ov = overs[0]
    p = path_avoiding(cfg, rd, lambda m: m is ov, stop=lambda m: m is dec)
    ck.expect(p is None, 'C08-D3', f.qual, 'overrun test after the decrement',
              'the overrun test runs before the counter is updated', loc(ov.stmt))
    inside = body_ids(ov.stmt.body)
    outside = lambda m: m.stmt is None or (id(m.stmt) not in inside and m is not ov)
    accept = (ctr, 'len(%s) + %s' % (data, ctr), '%s + len(%s)' % (ctr, data))

    def is_slice(m):
        s = m.stmt
        return m.kind == 'stmt' and isinstance(s, ast.Assign) and len(s.targets) == 1 and norm_text(s.targets[0]) == data \
            and isinstance(s.value, ast.Subscript) and norm_text(s.value.value) == data and isinstance(s.value.slice, ast.Slice) \
            and (s.value.slice.lower is None or norm_text(s.value.slice.lower) == '0') and s.value.slice.step is None \
            and s.value.slice.upper is not None and norm_text(s.value.slice.upper) in accept

    def is_close(m):
        return bool(F.node_calls(m, 'close', recv='self')) or bool(F.node_calls(m, 'close', recv='self._connection'))
    p1 = path_avoiding(cfg, ov, outside, first='T', stop=is_slice)
    p2 = path_avoiding(cfg, ov, outside, first='T', stop=is_close)
    ck.expect(p1 is None, 'C08-D3', f.qual, 'overrun: %s = %s[:%s]' % (data, data, ctr),
              'on overrun the surplus bytes are not cut off: bytes beyond Content-Length are delivered as body', loc(ov.stmt),
              path=describe_path(p1) if p1 else None)
    ck.expect(p2 is None, 'C08-D3', f.qual, 'overrun: connection closed',
              'on overrun the connection stays open: the surplus (and whatever follows) is parsed as the next response', loc(ov.stmt),
              path=describe_path(p2) if p2 else None)
    stray = [w for w in redefs if id(w[2]) not in inside]
    ck.expect(not stray, 'C08-D3', f.qual, '%s is rewritten only by the overrun slice' % data,
              'the bytes read are replaced before delivery: %s' % [norm_text(w[2]) for w in stray], loc())
    users = [n for n in cfg.stmt_nodes() if _loads(n, data) and n is not dec and n is not ov and id(n.stmt) not in inside
             and not (n.kind == 'if' and empty_edge(n.stmt.test, data)) and not _is_logging(n.stmt)]
    early = [n for n in users if path_avoiding(cfg, rd, lambda m, n=n: m is n, stop=lambda m: m is ov or m is hdr) is not None]
    ck.expect(bool(users) and not early, 'C08-D3', f.qual, '%d use(s) of %s all after the overrun cut' % (len(users), data),
              'the bytes are used before the overrun cut: %s' % [norm_text(n.stmt)[:50] for n in early], loc(early[0].stmt) if early else loc())
    # delivery: the payload is written unless there is no file
    _delivered(ctx, f, cfg, rd, hdr, data)


def _delivered(ctx, f, cfg, rd, nxt, data):
    """On the way from a successful read to the next read the bytes reach file.write (unless `file` is falsy)."""
    ck = ctx.check
    fparam = f.params[2] if len(f.params) > 2 else 'file'
    # edges on which `file` is falsy are the only excuse
    banned = set()
    for n in cfg.nodes:
        if n.kind == 'if':
            t = n.stmt.test
            parts = t.values if isinstance(t, ast.BoolOp) and isinstance(t.op, ast.And) else [t]
            if any(norm_text(x) == fparam for x in parts):
                banned.add((n.id, 'F'))
            k = empty_edge(t, data)
            if k:
                banned.add((n.id, k))
    writes = lambda m: bool(F.node_calls(m, 'write', recv=fparam))
    p = path_avoiding(cfg, rd, lambda m: m is nxt, banned=banned, stop=writes)
    ck.expect(p is None, 'C08-D3' if 'length' in f.name or 'close' in f.name else 'C08-D4', f.qual,
              'bytes read reach %s.write before the next read' % fparam,
              'an iteration can drop the bytes it read without writing them to the file', f.loc(rd.stmt),
              path=describe_path(p) if p else None)


# =============================================================================== D4
def _size_arg_ok(e, line):
    """e is `<line>.split(b';', 1)[0].strip()` up to strip()s and split/partition spelling."""
    def unstrip(x):
        while isinstance(x, ast.Call) and U.attr_name(x) in ('strip', 'rstrip', 'lstrip') and not x.args and isinstance(x.func, ast.Attribute):
            x = x.func.value
        return x
    x = unstrip(e)
    if not (isinstance(x, ast.Subscript) and isinstance(x.slice, ast.Constant) and x.slice.value == 0):
        return False
    c = x.value
    if not (isinstance(c, ast.Call) and U.attr_name(c) in ('split', 'partition') and c.args
            and isinstance(c.args[0], ast.Constant) and c.args[0].value == b';'):
        return False
    if U.attr_name(c) == 'split' and len(c.args) > 1 and not (isinstance(c.args[1], ast.Constant) and c.args[1].value >= 1):
        return False
    base = unstrip(c.func.value)
    return isinstance(base, ast.Name) and base.id == line


def d4_chunk(ctx):
    repo, ck = ctx.repo, ctx.check
    # ------------------------------------------------------------ read_chunk_header
    hdr_idx = [0]
    f = repo.func(CHUNKED + ':ChunkedTransferReader.read_chunk_header')
    cfg = ctx.cfg(f)
    rls = call_nodes(cfg, 'readline', recv='self._connection')
    line = assigned_name(rls[0]) if len(rls) == 1 else None
    if line is None:
        ck.bad('C08-D4', f.qual, 'line = yield from self._connection.readline()', 'the chunk size line is not read by exactly one readline()', f.loc())
    else:
        rl = rls[0]
        ints = [n for n in cfg.stmt_nodes() if any(dotted(c.func) == 'int' for c in F.node_calls(n))]
        size = assigned_name(ints[0]) if len(ints) == 1 else None
        okp = False
        if size is not None:
            c = [c for c in F.node_calls(ints[0]) if dotted(c.func) == 'int'][0]
            base = U.kwarg(c, 'base', 1)
            okp = base is not None and _const_int(base) == 16 and c.args and _size_arg_ok(U.expand_locals(f.node, c.args[0], skip=(line,)), line)
        ck.expect(okp, 'C08-D4', f.qual, 'size = int(%s.split(b\';\', 1)[0].strip(), 16)' % line,
                  'the chunk size is not parsed as the hexadecimal number before any ";" extension of the line read', f.loc(ints[0].stmt) if ints else f.loc())
        # LF check dominates the parse
        # a size line cut off by the peer: "1" of "1f" is harmless as long as the end of the stream is noticed - the cut chunk then ends in
        # an empty read and the next size line is empty (the trailer reader and the body reader have their own end-of-stream rules), so the
        # bare emptiness test is accepted here next to the LF test
        lfs = edges_where(cfg, lambda t: no_lf_edge(t, line, allow_empty=True), kinds=('if',))
        oklf = bool(lfs)
        det = 'no test that the size line ends with LF (or is empty)'
        if lfs and ints:
            for i, k in lfs:
                n = [x for x in cfg.nodes if x.id == i][0]
                okr, d = branch_raises(repo, f, cfg, n, k, [NETERR]) if k == 'T' else (False, 'inverted test')
                if not okr:
                    oklf, det = False, d
            if path_avoiding(cfg, rl, lambda m: m is ints[0], stop=lambda m: m.id in {i for i, _ in lfs}) is not None:
                oklf, det = False, 'the size line can be parsed without the LF test'
        ck.expect(oklf, 'C08-D4', f.qual, 'if not %s.endswith(b\'\\n\'): raise NetworkError, before the size is parsed' % line,
                  'a size line cut off by the peer ("1" of "1f\\r\\n") is parsed as a smaller chunk instead of a network error: %s' % det, f.loc(rl.stmt))
        if size is not None:
            # unparsable -> ProtocolError
            pm = U.parents(f.node)
            okv = False
            for a in U.ancestors(ints[0].stmt, pm):
                if isinstance(a, ast.Try) and any(ints[0].stmt is x for b in a.body for x in ast.walk(b)):
                    for h in a.handlers:
                        types = [norm_text(e) for e in (h.type.elts if isinstance(h.type, ast.Tuple) else [h.type])] if h.type is not None else ['BaseException']
                        if any(t in ('ValueError', 'Exception', 'BaseException') for t in types):
                            hn = cfg.nodes_of(h)[0]
                            reach = cfg.reachable([hn], edge_ok=F.normal)
                            raises = [m for m in reach if m.kind == 'raise']
                            okv = bool(raises) and cfg.exit not in reach and all(
                                PROTOERR in repo.exc_ancestors(repo.canon_exc(f.module, r.stmt.exc.func if isinstance(r.stmt.exc, ast.Call) else r.stmt.exc) or '')
                                for r in raises if r.stmt.exc is not None) and all(r.stmt.exc is not None for r in raises)
                    break
            ck.expect(okv, 'C08-D4', f.qual, 'unparsable size -> ProtocolError', 'a size line that is not hexadecimal does not end in ProtocolError', f.loc(ints[0].stmt))
            negs = [n for n in if_nodes(cfg) if negative_edge(n.stmt.test, size)]
            okn = len(negs) == 1
            det = 'no `if %s < 0` test' % size
            if okn:
                okn, det = branch_raises(repo, f, cfg, negs[0], negative_edge(negs[0].stmt.test, size), [PROTOERR])
                stores = [n for n in cfg.stmt_nodes() if n.kind == 'stmt' and F.assigned_attrs(ast.Module(body=[n.stmt], type_ignores=[]), '_bytes_left')]
                rets = [n for n in cfg.nodes if n.kind == 'return']
                for t in stores + rets:
                    if path_avoiding(cfg, ints[0], lambda m, t=t: m is t, stop=lambda m: m is negs[0]) is not None:
                        okn, det = False, 'the size is used before the sign test'
            ck.expect(okn, 'C08-D4', f.qual, 'if %s < 0: raise ProtocolError, before the size is stored or returned' % size,
                      'a negative chunk size ("-5": int() accepts a sign) is accepted: %s' % det, f.loc(negs[0].stmt) if negs else f.loc())
            st = [s for s in F.assigned_attrs(f.node, '_bytes_left')]
            oks = len(st) == 1 and isinstance(st[0], ast.Assign) and norm_text(st[0].value) == size
            ck.expect(oks, 'C08-D4', f.qual, 'self._bytes_left = %s' % size, 'the per-chunk counter is not initialised from the parsed size', f.loc(st[0]) if st else f.loc())
            rets = [r for r in walk_no_nested(f.node) if isinstance(r, ast.Return)]
            got = [norm_text(e) for e in rets[0].value.elts] if len(rets) == 1 and isinstance(rets[0].value, ast.Tuple) else []
            okr = sorted(got) == sorted([size, line]) and len(got) == 2
            if okr:
                hdr_idx[0] = got.index(size)
            ck.expect(okr, 'C08-D4', f.qual, 'return (%s, %s)' % (size, line), 'read_chunk_header no longer returns (parsed size, raw line)', f.loc())
    # ------------------------------------------------------------ read_chunk_body
    g = repo.func(CHUNKED + ':ChunkedTransferReader.read_chunk_body')
    gcfg = ctx.cfg(g)
    reads = call_nodes(gcfg, 'read', recv='self._connection')
    rls = call_nodes(gcfg, 'readline', recv='self._connection')
    data = assigned_name(reads[0]) if len(reads) == 1 else None
    if data is None:
        ck.bad('C08-D4', g.qual, 'data = yield from self._connection.read(size)', 'the chunk body is not read by exactly one connection read', g.loc())
    else:
        rd = reads[0]
        c = F.node_calls(rd, 'read', recv='self._connection')[0]
        arg = U.expand_locals(g.node, c.args[0]) if len(c.args) == 1 and not c.keywords else None
        okm = isinstance(arg, ast.Call) and dotted(arg.func) == 'min' and len(arg.args) == 2 \
            and {norm_text(a) for a in arg.args} == {'self._bytes_left', 'self._read_size'}
        ck.expect(okm, 'C08-D4', g.qual, 'read(min(self._bytes_left, self._read_size))',
                  'the chunk body read is not limited to min(bytes left in the chunk, read size): it can swallow the chunk terminator '
                  'and the next size line (%s)' % (norm_text(arg) if arg is not None else 'no size'), g.loc(rd.stmt))
        # guarded by counter > 0
        names = {'self._bytes_left'} | {n for n, ds in U.local_defs(g.node).items() if len(ds) == 1 and ds[0][0] is not None
                                         and norm_text(ds[0][0]) == 'self._bytes_left'}
        pos = set()
        for nm in names:
            pos |= edges_where(gcfg, lambda t, nm=nm: positive_edge(t, nm), kinds=('if',))
        q = path_avoiding(gcfg, gcfg.entry, lambda m: m is rd, banned=pos)
        ck.expect(bool(pos) and q is None, 'C08-D4', g.qual, 'the read happens only while bytes left > 0',
                  'read(0) returns b"" at once, which the caller takes for the end of the chunk: the read must be guarded by bytes left > 0',
                  g.loc(rd.stmt), path=describe_path(q) if q else None)
        decs = [n for n in gcfg.stmt_nodes() if n.kind == 'stmt' and is_decrement(n.stmt, 'self._bytes_left', 'len(%s)' % data)]
        wr = [s for s in F.assigned_attrs(g.node, '_bytes_left')]
        okd = len(decs) == 1
        p = F.escapes_without(gcfg, rd, lambda m: m in decs) if okd else None
        resets = [s for s in wr if not (decs and s is decs[0].stmt)]
        okreset = all(isinstance(s, ast.Assign) and isinstance(s.value, ast.Constant) and s.value.value is None for s in resets)
        ck.expect(okd and p is None and okreset, 'C08-D4', g.qual, 'self._bytes_left -= len(%s) after every read' % data,
                  'the chunk counter is not decremented by the length of the bytes just read (writes: %s): after a short read the '
                  'chunk boundary is misplaced' % [norm_text(s) for s in wr], g.loc(decs[0].stmt) if decs else g.loc(rd.stmt),
                  path=describe_path(p) if p else None)
        rets = [n for n in gcfg.nodes if n.kind == 'return' and path_avoiding(gcfg, rd, lambda m, n=n: m is n) is not None]
        okr = bool(rets) and all(isinstance(n.stmt.value, ast.Tuple) and len(n.stmt.value.elts) == 2
                                 and all(norm_text(e) == data for e in n.stmt.value.elts) for n in rets)
        ck.expect(okr, 'C08-D4', g.qual, 'return (%s, %s): content is exactly the bytes read' % (data, data),
                  'read_chunk_body does not return the bytes it read as the content', g.loc())
        # chunk exhausted -> the terminator line is consumed
        p = F.escapes_without(gcfg, gcfg.entry, lambda m: m is rd or m in rls)
        nl = assigned_name(rls[0]) if len(rls) == 1 else None
        okt = len(rls) == 1 and p is None and nl is not None
        if okt:
            caps = [n for n in if_nodes(gcfg) if int_rel(n.stmt.test) == ('len(%s)' % nl, 'gt', 2)]
            okt = len(caps) == 1 and branch_raises(repo, g, gcfg, caps[0], 'T', [PROTOERR])[0]
            endrets = [n for n in gcfg.nodes if n.kind == 'return' and path_avoiding(gcfg, rls[0], lambda m, n=n: m is n) is not None]
            okt = okt and bool(endrets) and all(isinstance(n.stmt.value, ast.Tuple) and len(n.stmt.value.elts) == 2
                                               and isinstance(n.stmt.value.elts[0], ast.Constant) and n.stmt.value.elts[0].value == b''
                                               and norm_text(n.stmt.value.elts[1]) == nl for n in endrets)
        ck.expect(okt, 'C08-D4', g.qual, 'chunk exhausted: one readline() for the CRLF (longer than 2 bytes -> ProtocolError), return (b\'\', line)',
                  'the chunk terminator is not consumed/validated: the next size line is read from the wrong position', g.loc())
    # ------------------------------------------------------------ read_trailer
    t = repo.func(CHUNKED + ':ChunkedTransferReader.read_trailer')
    tcfg = ctx.cfg(t)
    trl = call_nodes(tcfg, 'readline', recv='self._connection')
    tl = assigned_name(trl[0]) if len(trl) == 1 else None
    okt = tl is not None
    p = None
    if okt:
        blank = set()
        for n in if_nodes(tcfg):
            k = blank_line_edge(repo, t.module, n.stmt.test, tl)
            if k:
                blank.add((n.id, k))
        p = path_avoiding(tcfg, trl[0], lambda m: m is tcfg.exit, banned=blank)
        okt = bool(blank) and p is None
    if tl is not None:
        # a trailer cut off by the peer (EOF: a line without LF, possibly empty) is an error, like a header cut off
        from ..dtable import same_bool as _sb
        lfs = [n for n in if_nodes(tcfg) if _sb(U.canon_suffix_tests(n.stmt.test), "not %s.endswith(b'\\n')" % tl)
               and n.stmt.body and isinstance(n.stmt.body[-1], ast.Raise)]
        pl_ = path_avoiding(tcfg, trl[0], lambda m: m is tcfg.exit or m is trl[0], stop=lambda m: m in lfs) if lfs else [(trl[0], '')]
        ck.expect(bool(lfs) and pl_ is None, 'C08-D4', t.qual, "if not %s.endswith(b'\\n'): raise, for every trailer line" % tl,
                  'a chunked message cut off inside the trailer (readline() returns a line without LF, or b\'\' at EOF) is not reported '
                  'as an error: it ends the trailer and the download counts as complete', t.loc(trl[0].stmt))
    ck.expect(okt, 'C08-D4', t.qual, 'trailer lines are read with readline() until the blank line',
              'read_trailer can stop before the blank line that ends the message (`not line.strip()` also stops at a whitespace-only '
              'line and at EOF): the rest is parsed as the next response', t.loc(),
              path=describe_path(p) if p else None)
    # ------------------------------------------------------------ Stream._read_body_by_chunk
    s = repo.func(STREAM + ':Stream._read_body_by_chunk')
    scfg = ctx.cfg(s)
    defs = U.local_defs(s.node)
    rdr = [n for n, ds in defs.items() if any(v is not None and isinstance(v, ast.Call) and (dotted(v.func) or '').endswith('ChunkedTransferReader') for v, k, _ in ds)]
    if len(rdr) != 1:
        raise AnalysisError('_read_body_by_chunk: ChunkedTransferReader local not found')
    r = rdr[0]
    mk = [v for v, k, _ in defs[r] if v is not None][0]
    ck.expect(len(defs[r]) == 1 and [norm_text(a) for a in mk.args] == ['self._connection'] and not mk.keywords, 'C08-D4', s.qual,
              'one ChunkedTransferReader(self._connection) per body', 'the chunk reader is not built once over the stream\'s connection', s.loc())
    H = call_nodes(scfg, 'read_chunk_header', recv=r)
    B = call_nodes(scfg, 'read_chunk_body', recv=r)
    T = call_nodes(scfg, 'read_trailer', recv=r)
    if len(H) != 1 or len(B) != 1 or len(T) != 1:
        ck.bad('C08-D4', s.qual, 'one read_chunk_header / read_chunk_body / read_trailer site',
               'expected one call site each, found %d/%d/%d: a chunked message cannot be read to its end' % (len(H), len(B), len(T)), s.loc())
        return
    H, B, T = H[0], B[0], T[0]
    size, content = assigned_name(H, hdr_idx[0]), assigned_name(B, 0)
    if size is None or content is None:
        ck.bad('C08-D4', s.qual, '(size, raw) = read_chunk_header(); (content, raw) = read_chunk_body()',
               'the results of the chunk reader are not unpacked into (size/content, raw)', s.loc())
        return
    zero = edges_where(scfg, lambda t_: empty_edge(t_, size), kinds=('if', 'while'))
    empt = edges_where(scfg, lambda t_: empty_edge(t_, content), kinds=('if', 'while'))
    # the message ends only through "size == 0" and then the trailer
    p = path_avoiding(scfg, H, lambda m: m is scfg.exit, banned=zero, stop=lambda m: m is H)
    ck.expect(bool(zero) and p is None, 'C08-D4', s.qual, 'the chunk loop ends only on a zero-size chunk',
              'the chunked body can end without a zero-size chunk having been read', s.loc(H.stmt), path=describe_path(p) if p else None)
    p = F.escapes_without(scfg, H, lambda m: m is T)
    ck.expect(p is None, 'C08-D4', s.qual, 'read_trailer() on every way out',
              'the trailer (at least the final CRLF) is left unread: on a persistent connection it is parsed as the start of the next response',
              s.loc(T.stmt), path=describe_path(p) if p else None)
    # a non-zero chunk is read
    p = path_avoiding(scfg, H, lambda m: m is H or m is scfg.exit, banned={(i, k) for i, k in zero}, stop=lambda m: m is B)
    ck.expect(p is None, 'C08-D4', s.qual, 'a non-zero chunk always enters read_chunk_body',
              'a chunk with data can be skipped without reading its bytes', s.loc(H.stmt), path=describe_path(p) if p else None)
    # a chunk is left only when read_chunk_body reported its end (or came back empty-handed), and then via another size line
    p = path_avoiding(scfg, B, lambda m: m is H or m is T or m is scfg.exit, banned=empt, stop=lambda m: m is B)
    ck.expect(bool(empt) and p is None, 'C08-D4', s.qual, 'the chunk is left only when read_chunk_body returns no content',
              'the reader leaves a chunk while it still has content', s.loc(B.stmt), path=describe_path(p) if p else None)
    p = path_avoiding(scfg, B, lambda m: m is scfg.exit or m is T, stop=lambda m: m is H)
    ck.expect(p is None, 'C08-D4', s.qual, 'after a chunk (complete, or cut short by EOF) the next step is read_chunk_header()',
              'a chunk cut short by the peer (read returned b"" inside the chunk) can end the message successfully: no further size line '
              'is demanded, so no NetworkError is raised', s.loc(B.stmt), path=describe_path(p) if p else None)
    _delivered_chunk(ctx, s, scfg, B, content)


def _delivered_chunk(ctx, f, cfg, B, content):
    ck = ctx.check
    fparam = f.params[2] if len(f.params) > 2 else 'file'
    banned = set()
    for n in cfg.nodes:
        if n.kind == 'if':
            t = n.stmt.test
            parts = t.values if isinstance(t, ast.BoolOp) and isinstance(t.op, ast.And) else [t]
            if any(norm_text(x) == fparam for x in parts):
                banned.add((n.id, 'F'))
            k = empty_edge(t, content)
            if k:
                banned.add((n.id, k))
    pm = U.parents(f.node)
    loop = _loop_of(f.node, B.stmt, pm)
    inner = body_ids(loop.body) if loop is not None else set()
    writes = lambda m: bool(F.node_calls(m, 'write', recv=fparam)) and id(m.stmt) in inner
    p = path_avoiding(cfg, B, lambda m: m is B, banned=banned, stop=writes)
    ck.expect(p is None, 'C08-D4', f.qual, 'chunk content reaches %s.write before the next read' % fparam,
              'chunk content can be dropped without being written to the file', f.loc(B.stmt), path=describe_path(p) if p else None)


# =============================================================================== D5
def blank_line_edge(repo, module, test, var):
    """Edge ('T'/'F') of `test` on which `var` is exactly a blank line - CRLF or a bare LF, nothing else.  `not var.strip()`
    is NOT such a test: it is also true for a whitespace-only line (an empty folded continuation) and for b'' (EOF)."""
    neg = False
    t = test
    while isinstance(t, ast.UnaryOp) and isinstance(t.op, ast.Not):
        neg = not neg
        t = t.operand
    if isinstance(t, ast.Compare) and len(t.ops) == 1 and isinstance(t.ops[0], (ast.In, ast.NotIn)) and norm_text(t.left) == var:
        try:
            vals = set(repo.fold(module, t.comparators[0]))
        except (ValueError, TypeError):
            return None
        if vals == {b'\r\n', b'\n'}:
            pos = isinstance(t.ops[0], ast.In)
            return 'T' if pos != neg else 'F'
        return None
    from ..dtable import same_bool
    try:
        if same_bool(t, "%s == b'\\r\\n' or %s == b'\\n'" % (var, var)):
            return 'F' if neg else 'T'
        if same_bool(t, "%s != b'\\r\\n' and %s != b'\\n'" % (var, var)):
            return 'T' if neg else 'F'
    except Exception:
        return None
    return None


def d5_header(ctx):
    repo, ck = ctx.repo, ctx.check
    f = repo.func(STREAM + ':Stream.read_response')
    cfg = ctx.cfg(f)
    pm = U.parents(f.node)
    rls = call_nodes(cfg, 'readline', recv='self._connection')
    data = assigned_name(rls[0]) if len(rls) == 1 else None
    loop = _loop_of(f.node, rls[0].stmt, pm) if data else None
    if data is None or not isinstance(loop, ast.While):
        ck.bad('C08-D5', f.qual, 'data = yield from self._connection.readline() in the header loop',
               'the header block is not read line by line with one readline() inside a loop', f.loc())
        return
    rl = rls[0]
    hdr = [n for n in cfg.nodes_of(loop) if n.kind == 'while'][0]
    after = [n for n in cfg.nodes_of(loop) if n.kind == 'join'][0]
    node_by_id = {n.id: n for n in cfg.nodes}
    # collected lines
    apps = [n for n in cfg.stmt_nodes() if n.kind == 'stmt' and any(
        U.attr_name(c) == 'append' and isinstance(c.func.value, ast.Name) and [norm_text(a) for a in c.args] == [data]
        for c in F.node_calls(n))]
    lst = None
    if len(apps) == 1:
        lst = [c for c in F.node_calls(apps[0]) if U.attr_name(c) == 'append'][0].func.value.id
    # LF test
    lfs = edges_where(cfg, lambda t: no_lf_edge(t, data), kinds=('if',))
    oklf = bool(lfs)
    det = 'no test that the line ends with LF'
    for i, k in lfs:
        okr, d = branch_raises(repo, f, cfg, node_by_id[i], k, [NETERR]) if k == 'T' else (False, 'inverted test')
        if not okr:
            oklf, det = False, d
    lf_ids = {i for i, _ in lfs}
    if oklf:
        for tgt, what in ([(apps[0], 'appended to the header')] if apps else []) + [(after, 'taken as the end of the header')]:
            p = path_avoiding(cfg, rl, lambda m, tgt=tgt: m is tgt, stop=lambda m: m.id in lf_ids or m is rl)
            if p is not None:
                oklf, det = False, 'a line can be %s without the LF test' % what
    ck.expect(oklf, 'C08-D5', f.qual, 'if not %s.endswith(b\'\\n\'): raise NetworkError, for every line' % data,
              'a header cut off by the peer (last line without LF) is not reported as a closed connection: %s' % det, f.loc(rl.stmt))
    # the loop ends only at the blank line
    blank = set()
    for n in if_nodes(cfg):
        t = n.stmt.test
        k = blank_line_edge(repo, f.module, t, data)
        if k:
            blank.add((n.id, k))
    p = path_avoiding(cfg, rl, lambda m: m is after or m is cfg.exit, banned=blank, stop=lambda m: m is rl)
    ck.expect(bool(blank) and p is None, 'C08-D5', f.qual, 'the header loop ends only at the blank line (CRLF or LF)',
              'the header block can end before (or never at) the blank line - a test such as `not line.strip()` also ends it at a '
              'whitespace-only continuation line: the body would start at the wrong byte', f.loc(loop),
              path=describe_path(p) if p else None)
    # the collected block is divided into field lines at LF / CRLF only.  str.splitlines() also breaks at VT, FF, FS, GS, RS,
    # NEL (\x85 - a plain byte of a Latin-1 decoded value), LS and PS: a field value containing one starts a new "field",
    # e.g. a second Content-Length that re-frames the message
    NV = 'wpull.namevalue'
    for q in (NV + ':NameValueRecord.parse', NV + ':unfold_lines'):
        g = repo.func(q)
        bad_sl = [c for c in U.calls(g.node) if U.attr_name(c) == 'splitlines'
                  and not (isinstance(c.func.value, ast.Constant) and isinstance(c.func.value.value, bytes))]
        ck.expect(not bad_sl, 'C08-D5', g.qual, 'field lines are separated at LF / CRLF only',
                  '%s splits the (Latin-1 decoded) header text with str.splitlines(), which also breaks at \\x0b \\x0c \\x1c-\\x1e \\x85 '
                  '\\u2028 \\u2029: `X-A: b\\x85Content-Length: 2` yields an extra Content-Length field and the body is delimited by it'
                  % g.name, g.loc(bad_sl[0]) if bad_sl else g.loc())
    # every non-blank line is collected and counted; the block is capped
    okapp = len(apps) == 1
    p = path_avoiding(cfg, rl, lambda m: m is rl, stop=lambda m: m in apps) if okapp else None
    ck.expect(okapp and p is None, 'C08-D5', f.qual, 'every header line is appended to the collected lines',
              'a header line can be skipped (%d append sites)' % len(apps), f.loc(rl.stmt), path=describe_path(p) if p else None)
    incs = []
    ctr = None
    for n in cfg.stmt_nodes():
        if n.kind == 'stmt' and isinstance(n.stmt, (ast.AugAssign, ast.Assign)):
            tg = n.stmt.target if isinstance(n.stmt, ast.AugAssign) else n.stmt.targets[0]
            if isinstance(tg, ast.Name) and is_increment(n.stmt, tg.id, 'len(%s)' % data):
                incs.append(n)
                ctr = tg.id
    caps = []
    if ctr:
        for n in if_nodes(cfg):
            r = int_rel(n.stmt.test)
            if r and r[0] == ctr and r[1] == 'gt':
                caps.append((n, r[2]))
    okcap = len(incs) == 1 and len(caps) == 1 and caps[0][1] == 32768
    det = 'expected one `%s += len(%s)` and one `if %s > 32768`' % (ctr or 'bytes_read', data, ctr or 'bytes_read')
    p = None
    if okcap:
        okcap, det = branch_raises(repo, f, cfg, caps[0][0], 'T', [PROTOERR])
        p = path_avoiding(cfg, rl, lambda m: m is rl, stop=lambda m: m is incs[0])
        q = path_avoiding(cfg, rl, lambda m: m is rl, stop=lambda m: m is caps[0][0])
        if p is not None or q is not None:
            okcap, det, p = False, 'a line can be read without being counted and checked against the cap', p or q
        zero = [w for w in name_writes(f.node, ctr) if w[2] is not incs[0].stmt]
        if not (len(zero) == 1 and _const_int(zero[0][0]) == 0 and _loop_of(f.node, zero[0][2], pm) is None):
            okcap, det = False, 'the byte count is reset or not started at 0'
    elif len(caps) == 1 and len(incs) == 1:
        det = 'the cap is %s, not 32768 (the CDX/WARC header sniffing relies on that bound)' % caps[0][1]
    ck.expect(okcap, 'C08-D5', f.qual, 'header bytes counted per line; more than 32768 -> ProtocolError',
              'the header block is not capped at 32768 bytes: %s' % det, f.loc(caps[0][0].stmt) if caps else f.loc(loop),
              path=describe_path(p) if p else None)
    # after the loop: empty block refused, parse exactly the collected lines
    parses = [n for n in cfg.stmt_nodes() if any(U.attr_name(c) == 'parse' for c in F.node_calls(n))]
    okp = len(parses) == 1 and lst is not None
    det = 'expected one response.parse(b\'\'.join(lines)) call'
    p = None
    if okp:
        c = [c for c in F.node_calls(parses[0]) if U.attr_name(c) == 'parse'][0]
        a = U.expand_locals(f.node, c.args[0], skip=(lst,)) if len(c.args) == 1 else None
        okp = a is not None and norm_text(a) == "b''.join(%s)" % lst
        det = 'parse argument is %s' % (norm_text(a) if a is not None else '?')
        if okp:
            p = F.escapes_without(cfg, after, lambda m: m is parses[0])
            okp = p is None
            det = 'the function can return without parsing the header'
        rets = [r for r in walk_no_nested(f.node) if isinstance(r, ast.Return)]
        okp = okp and all(norm_text(r.value) == norm_text(c.func.value) for r in rets) and bool(rets)
        lw = name_writes(f.node, lst)
        okp = okp and len(lw) == 1 and isinstance(lw[0][0], ast.List) and not lw[0][0].elts and _loop_of(f.node, lw[0][2], pm) is None
    ck.expect(okp, 'C08-D5', f.qual, 'response.parse(b\'\'.join(collected lines)) and the parsed response is returned',
              'the response is not parsed from exactly the collected header lines: %s' % det, f.loc(parses[0].stmt) if parses else f.loc(),
              path=describe_path(p) if p else None)
    emp = edges_where(cfg, lambda t: empty_edge(t, lst), kinds=('if',)) if lst else set()
    oke = False
    det = 'no `if not %s: raise ProtocolError` after the loop' % (lst or 'lines')
    if emp and parses:
        oke = True
        for i, k in emp:
            okr, d = branch_raises(repo, f, cfg, node_by_id[i], k, [PROTOERR]) if k == 'T' else (False, 'inverted test')
            if not okr:
                oke, det = False, d
        if path_avoiding(cfg, after, lambda m: m is parses[0], stop=lambda m: m.id in {i for i, _ in emp}) is not None:
            oke, det = False, 'the parse can be reached without the emptiness test'
    ck.expect(oke, 'C08-D5', f.qual, 'if not %s: raise ProtocolError before parsing' % (lst or 'lines'),
              'an empty header block (blank line first) is not refused: %s' % det, f.loc())
    # Response.parse: status line split off the block, remaining lines go to the field parser
    rp = repo.func(REQ + ':Response.parse')
    d = rp.params[1]
    oks = any(isinstance(s, ast.Assign) and isinstance(s.value, ast.Call) and U.attr_name(s.value) == 'split'
              and norm_text(s.value) == "%s.split(b'\\n', 1)" % d and isinstance(s.targets[0], ast.Tuple)
              and len(s.targets[0].elts) == 2 and norm_text(s.targets[0].elts[1]) == d for s in walk_no_nested(rp.node))
    okf = any(U.attr_name(c) == 'parse' and norm_text(c.func.value) == 'self.fields' and c.args and norm_text(c.args[0]) == d
              for c in U.calls(rp.node))
    ck.expect(oks and okf, 'C08-D5', rp.qual, 'first line -> status line, the rest -> self.fields.parse',
              'Response.parse no longer splits the status line off the header block and parses the rest as fields', rp.loc())


# =============================================================================== D6
def d6_keepalive(ctx):
    repo, ck = ctx.repo, ctx.check
    f = repo.func(HUTIL + ':should_close')
    it = Interp(repo, f)

    def obs(o, truth):
        if o.kind == 'return' and o.value is not None:
            return bool(truth(o.value))
        return 'other:' + o.kind
    lv = leaves_obs(it, obs)
    p0, p1 = it.t(f.params[0]), it.t(f.params[1])
    ver = [k for k in it.atoms if k[0] == 'ord' and {k[1], k[2]} == {"'HTTP/1.0'", p0}]
    lowered = lambda t: p1 in t and '.lower()' in t
    ka = [k for k in it.atoms if k[0] == 'ord' and ((k[1] == "'keepalive'" and lowered(k[2]) and ".replace('-', '')" in k[2])
                                                     or (k[1] == "'keep-alive'" and lowered(k[2]) and 'replace' not in k[2]))]
    cl = [k for k in it.atoms if k[0] == 'ord' and k[1] == "'close'" and lowered(k[2]) and 'replace' not in k[2]]
    stray = [k for k in it.atoms if k not in ver + ka + cl]
    bad = []
    if len(ver) != 1 or len(ka) != 1 or len(cl) != 1 or stray:
        bad.append('conditions found: %s' % sorted(fmt_val({k: it.atoms[k][1]}) for k in it.atoms))
    else:
        for val, o, v in lv:
            exp = set()
            for a in ([val[ver[0]]] if ver[0] in val else ['lt', 'eq', 'gt']):
                for b in ([val[ka[0]]] if ka[0] in val else ['lt', 'eq', 'gt']):
                    for c in ([val[cl[0]]] if cl[0] in val else ['lt', 'eq', 'gt']):
                        exp.add((b != 'eq') if a == 'eq' else (c == 'eq'))
            if exp != {v}:
                bad.append('%s -> %s, reference %s' % (fmt_val(val), v, sorted(exp)))
    ck.expect(not bad, 'C08-D6', f.qual, 'table (%d leaves): HTTP/1.0 -> close unless Connection: keep-alive; otherwise close iff Connection: close (case-insensitive)' % len(lv),
              'should_close differs from the reference: %s' % '; '.join(bad[:3]), f.loc())
    # until-close reader ends only at EOF
    u = repo.func(STREAM + ':Stream._read_body_until_close')
    ucfg = ctx.cfg(u)
    reads = call_nodes(ucfg, 'read', recv='self._connection')
    data = assigned_name(reads[0]) if len(reads) == 1 else None
    if data is None:
        ck.bad('C08-D6', u.qual, 'data = yield from self._connection.read(n) in a loop', 'the until-close reader has no single connection read', u.loc())
    else:
        rd = reads[0]
        eof = edges_where(ucfg, lambda t: empty_edge(t, data), kinds=('if', 'while'))
        p = path_avoiding(ucfg, rd, lambda m: m is ucfg.exit, banned=eof, stop=lambda m: m is rd)
        q = path_avoiding(ucfg, ucfg.entry, lambda m: m is ucfg.exit, stop=lambda m: m is rd)
        ck.expect(bool(eof) and p is None and q is None, 'C08-D6', u.qual, 'reads until read() returns b"" (EOF) and only then returns',
                  'the until-close reader can return before EOF: the rest of the body is lost and stays in the connection',
                  u.loc(rd.stmt), path=describe_path(p or q) if (p or q) else None)
        loopn = _loop_of(u.node, rd.stmt, U.parents(u.node))
        if loopn is not None:
            _delivered(ctx, u, ucfg, rd, rd, data)
    # errors close the stream
    for q in (':Stream.read_response', ':Stream.read_body'):
        g = repo.func(STREAM + q)
        ck.expect('close_stream_on_error' in g.decorators, 'C08-D6', g.qual, '@close_stream_on_error',
                  'an error while reading (truncation, bad framing, time-out) no longer closes the connection: the half-read '
                  'response stays in it and is parsed as the next one', g.loc())
    dec = repo.func('wpull.protocol.abstract.stream:close_stream_on_error')
    w = repo.funcs.get(dec.qual + '.<locals>.wrapper')
    okw = w is not None
    if okw:
        withs = [x for x in walk_no_nested(w.node) if isinstance(x, ast.With)]
        okw = len(withs) == 1 and any(norm_text(i.context_expr) in ('wpull.util.close_on_error(self.close)', 'close_on_error(self.close)')
                                      for i in withs[0].items) \
            and any(isinstance(y, (ast.YieldFrom, ast.Await)) and isinstance(y.value, ast.Call) and norm_text(y.value.func) == dec.params[0]
                    for b in withs[0].body for y in ast.walk(b))
    ck.expect(okw, 'C08-D6', dec.qual, 'wrapper runs the coroutine inside close_on_error(self.close)', 'close_stream_on_error no longer closes on error', dec.loc())
    coe = repo.func('wpull.util:close_on_error')
    okc = False
    for t in walk_no_nested(coe.node):
        if isinstance(t, ast.Try):
            for h in t.handlers:
                if h.type is None or norm_text(h.type) in ('Exception', 'BaseException'):
                    calls = [c for c in U.calls(h) if norm_text(c) == '%s()' % coe.params[0]]
                    reraise = any(isinstance(r, ast.Raise) and r.exc is None for r in walk_no_nested(h))
                    okc = bool(calls) and reraise
    ck.expect(okc, 'C08-D6', coe.qual, 'except Exception: close_func(); raise', 'close_on_error does not close and re-raise on every Exception', coe.loc())
    sc = repo.func(STREAM + ':Stream.close')
    ck.expect(any(norm_text(c) == 'self._connection.close()' for c in U.calls(sc.node)), 'C08-D6', sc.qual, 'Stream.close -> connection.close()',
              'Stream.close does not close the connection', sc.loc())
    # an unfinished session never hands a live connection back
    dl = repo.func(CLIENT + ':Session.download')
    dcfg = ctx.cfg(dl)
    sets = [n for n in dcfg.stmt_nodes() if n.kind == 'stmt' and isinstance(n.stmt, ast.Assign)
            and norm_text(n.stmt.value) == 'SessionState.response_received']
    allsets = [(g.qual, norm_text(s)) for g in repo.funcs.values() if g.module.name == CLIENT for s in walk_no_nested(g.node)
               if isinstance(s, ast.Assign) and norm_text(s.value) == 'SessionState.response_received']
    rb = call_nodes(dcfg, 'read_body', recv='self._stream')
    okd = len(sets) == 1 and len(allsets) == 1 and len(rb) == 1
    det = 'state writers: %s' % allsets
    if okd:
        c = F.node_calls(rb[0], 'read_body')[0]
        okd = [norm_text(a) for a in c.args[:2]] == ['self._request', 'self._response']
        det = 'read_body arguments %s' % [norm_text(a) for a in c.args]
        fut = assigned_name(rb[0])
        waits = [n for n in dcfg.stmt_nodes() if fut and any(isinstance(y, (ast.YieldFrom, ast.Await)) and fut in U.names_in(y)
                                                             for y in walk_no_nested(n.stmt) if n.kind == 'stmt')]
        if isinstance(rb[0].stmt, ast.Expr):
            waits = [rb[0]]
        if okd and not waits:
            okd, det = False, 'the body read is never awaited'
        if okd:
            p = path_avoiding(dcfg, dcfg.entry, lambda m: m is sets[0], stop=lambda m: m in waits)
            if p is not None:
                okd, det = False, 'the session can be marked complete without the body having been read'
            # an exception from the wait must not reach the state change
            hp = dcfg.find_path(waits[0], lambda m: m is sets[0], edge_ok=lambda a, b, k: (a is waits[0] and k.startswith('x:')) or k == 'catch' or (a is not waits[0] and F.normal(a, b, k)))
            if hp is not None:
                okd, det = False, 'a failed/timed-out body read still marks the session complete'
    ck.expect(okd, 'C08-D6', dl.qual, 'response_received only after read_body(self._request, self._response, ...) completed',
              'the session is marked complete although the response body was not read to its end: %s' % det, dl.loc())
    dn = repo.func(CLIENT + ':Session.done')
    okdn = any(isinstance(r, ast.Return) and norm_text(r.value) in ('self._session_state == SessionState.response_received',
                                                                    'SessionState.response_received == self._session_state')
               for r in walk_no_nested(dn.node))
    rc = repo.func(CLIENT + ':Session.recycle')
    rcfg = ctx.cfg(rc)
    rel = call_nodes(rcfg, 'recycle', recv='super()')
    ab = call_nodes(rcfg, 'abort', recv='super()') + call_nodes(rcfg, 'abort', recv='self')
    notdone = set()
    for n in if_nodes(rcfg):
        k = empty_edge(n.stmt.test, 'self.done()')
        if k:
            notdone.add((n.id, k))
    okrc = okdn and len(rel) == 1 and bool(ab) and bool(notdone)
    if okrc:
        p = path_avoiding(rcfg, rcfg.entry, lambda m: m is rel[0], banned={(i, other(k)) for i, k in notdone}, stop=lambda m: m in ab)
        okrc = p is None
    ck.expect(okrc, 'C08-D6', rc.qual, 'if not self.done(): abort (close connections) before they return to the pool',
              'a session whose response was not read completely returns its connection to the pool alive: the next request on it '
              'is answered by the rest of the old response', rc.loc())
    ba = repo.func('wpull.protocol.abstract.client:BaseSession.abort')
    okab = any(isinstance(l, ast.For) and norm_text(l.iter) == 'self._connections' and any(
        norm_text(c) == '%s.close()' % norm_text(l.target) for b in l.body for c in U.calls(b)) for l in walk_no_nested(ba.node))
    ck.expect(okab, 'C08-D6', ba.qual, 'abort closes every connection of the session', 'BaseSession.abort does not close the session\'s connections', ba.loc())


# =============================================================================== D7
READERS = {
    STREAM + ':Stream.read_response': {'readline'},
    STREAM + ':Stream._read_body_until_close': {'read'},
    STREAM + ':Stream._read_body_by_length': {'read'},
    CHUNKED + ':ChunkedTransferReader.read_chunk_header': {'readline'},
    CHUNKED + ':ChunkedTransferReader.read_chunk_body': {'read', 'readline'},
    CHUNKED + ':ChunkedTransferReader.read_trailer': {'readline'},
}
INPUT_METHODS = {'read', 'readline', 'readexactly', 'readuntil', 'readlines', 'readinto', 'read_until', 'recv', 'feed_data'}


def d7_who_reads(ctx):
    repo, ck = ctx.repo, ctx.check
    seen = {}
    for g in repo.funcs.values():
        if g.module.name not in (STREAM, CHUNKED):
            continue
        for c in U.calls(g.node):
            if not isinstance(c.func, ast.Attribute):
                continue
            recv = norm_text(c.func.value)
            if 'connection' not in recv.lower() and 'reader' not in recv.lower():
                continue
            if recv.endswith('.reader') or '.reader.' in recv + '.' or c.func.attr in INPUT_METHODS:
                if c.func.attr not in INPUT_METHODS and not ('.reader' in recv):
                    continue
                seen.setdefault(g.qual, []).append(c)
                allowed = READERS.get(g.qual)
                if allowed is None:
                    ck.bad('C08-D7', g.qual, norm_text(c), 'socket input outside the six framing readers: bytes consumed here are '
                           'missing from the message the readers delimit', g.loc(c))
                    continue
                if recv != 'self._connection' or c.func.attr not in allowed:
                    ck.bad('C08-D7', g.qual, norm_text(c), 'input call %s.%s() is not readline()/read(n) on the stream\'s connection '
                           '(readexactly/readuntil/raw reader access bypass the counters and the EOF tests)' % (recv, c.func.attr), g.loc(c))
                    continue
                if c.func.attr == 'readline':
                    ck.expect(not c.args and not c.keywords, 'C08-D7', g.qual, norm_text(c), 'readline() takes no argument', g.loc(c))
                else:
                    a = c.args[0] if len(c.args) == 1 and not c.keywords else None
                    e = U.expand_locals(g.node, a) if a is not None else None
                    okn = e is not None and (norm_text(e) == 'self._read_size' or (
                        isinstance(e, ast.Call) and dotted(e.func) == 'min' and len(e.args) == 2 and not e.keywords
                        and 'self._read_size' in [norm_text(x) for x in e.args]))
                    ck.expect(okn, 'C08-D7', g.qual, norm_text(c),
                              'read() without an explicit bounded size (%s): read()/read(-1) consume up to EOF and so take the '
                              'following message or wait for the close' % (norm_text(e) if e is not None else 'no argument'), g.loc(c),
                              okmsg='%s with size %s' % (norm_text(c), norm_text(e) if e is not None else ''))
    for q, allowed in READERS.items():
        repo.func(q)
        got = {c.func.attr for c in seen.get(q, [])}
        ck.expect(got == allowed, 'C08-D7', q, 'reads with %s' % sorted(allowed),
                  'expected input calls %s on self._connection, found %s' % (sorted(allowed), sorted(got)), repo.func(q).loc())
    # the explicit sizes are positive constants
    for q, how in ((STREAM + ':Stream.__init__', 'assign'), (CHUNKED + ':ChunkedTransferReader.__init__', 'param')):
        g = repo.func(q)
        st = F.assigned_attrs(g.node, '_read_size')
        v = None
        if len(st) == 1 and isinstance(st[0], ast.Assign):
            v = _const_int(st[0].value)
            if v is None and isinstance(st[0].value, ast.Name) and st[0].value.id in g.params:
                a = g.node.args
                idx = g.params.index(st[0].value.id) - (len(g.params) - len(a.defaults))
                v = _const_int(a.defaults[idx]) if 0 <= idx < len(a.defaults) else None
        ck.expect(v is not None and v > 0, 'C08-D7', q, 'self._read_size = %s > 0' % v,
                  'the read size is not a positive constant: read(0) returns b"" at once and is taken for EOF', g.loc())
    # the connection layer hands the size through and returns the bytes unchanged
    NET = 'wpull.network.connection'
    br = repo.func(NET + ':BaseConnection.read')
    amt = br.params[1] if len(br.params) > 1 else None
    rc = [c for c in U.calls(br.node) if U.attr_name(c) in INPUT_METHODS and norm_text(c.func.value) == 'self.reader']
    okb = len(rc) == 1 and rc[0].func.attr == 'read' and [norm_text(a) for a in rc[0].args] == [amt] and not rc[0].keywords
    ck.expect(okb, 'C08-D7', br.qual, 'self.reader.read(%s)' % amt,
              'BaseConnection.read does not pass the requested size to StreamReader.read(): the readers\' explicit sizes are ignored', br.loc())
    bl = repo.func(NET + ':BaseConnection.readline')
    rc = [c for c in U.calls(bl.node) if U.attr_name(c) in INPUT_METHODS and norm_text(c.func.value) == 'self.reader']
    ck.expect(len(rc) == 1 and rc[0].func.attr == 'readline' and not rc[0].args, 'C08-D7', bl.qual, 'self.reader.readline()',
              'BaseConnection.readline is not a single StreamReader.readline()', bl.loc())
    cr = repo.func(NET + ':Connection.read')
    sup = [n for n in walk_no_nested(cr.node) if isinstance(n, ast.Assign) and isinstance(n.targets[0], ast.Name)
           and any(norm_text(c) == 'super().read(%s)' % cr.params[1] for c in U.calls(n))]
    okc = len(sup) == 1 and len(name_writes(cr.node, sup[0].targets[0].id)) == 1
    rets = [r for r in walk_no_nested(cr.node) if isinstance(r, ast.Return)]
    okc = okc and bool(rets) and all(norm_text(r.value) == sup[0].targets[0].id for r in rets)
    ck.expect(okc, 'C08-D7', cr.qual, 'returns exactly what super().read(%s) returned' % cr.params[1],
              'Connection.read (bandwidth limiting) alters or re-sizes the bytes read', cr.loc())
    mk = [c for g in repo.funcs.values() if g.module.name.startswith('wpull.') for c in U.calls(g.node)
          if (dotted(c.func) or '').endswith('ChunkedTransferReader')]
    ck.expect(all(len(c.args) == 1 and not c.keywords for c in mk) and bool(mk), 'C08-D7', CHUNKED + ':ChunkedTransferReader',
              '%d construction site(s) use the default read size' % len(mk), 'ChunkedTransferReader is built with a custom read size')
