"""C09 - nothing a server sends can end the crawl: bad input becomes a per-URL error.

Exception-escape analysis (raise sites, asserts, external raisers, unguarded idioms,
minus enclosing handlers; fixpoint over the resolved call graph, constant-context
sensitive) at the protocol and scraping entry points, filtered to sources that
depend on server data (whole-program may-taint), plus handler coverage and sibling
consistency rules (DESIGN.md section 3, C09-D1..D5).
"""
import ast

from ..index import dotted, walk_no_nested, norm_text, AnalysisError
from ..escape import Escape
from ..taint import Taint
from ..dtable import same_bool
from .. import util as U
from .. import flow as F
from .. import regexs as RX
import re._constants as C

NE = 'wpull.errors:NetworkError'
SSLE = 'wpull.errors:SSLVerificationError'
CONN = 'wpull.network.connection:Connection.'
# what the connection layer can raise (asyncio internals are not analysed):
# run_network_operation converts OSError/TimeoutError/SSL errors, but a StreamReader
# limit overrun in readline() surfaces as a bare ValueError.
SUMMARIES = {
    CONN + 'readline': ['ValueError', NE, SSLE],
    CONN + 'read': [NE, SSLE],
    CONN + 'write': [NE, SSLE],
    CONN + 'connect': [NE, SSLE],
    CONN + 'run_network_operation': [NE, SSLE],
    'wpull.network.connection:SSLConnection.connect': [NE, SSLE],
    'wpull.network.dns:Resolver.resolve': [NE],
}

ENTRY_POINTS = [
    'wpull.protocol.http.client:Session.start', 'wpull.protocol.http.client:Session.download',
    'wpull.protocol.http.web:WebSession.start', 'wpull.protocol.http.web:WebSession.download',
    'wpull.protocol.http.robots:RobotsTxtChecker.can_fetch',
    'wpull.protocol.ftp.client:Session.start', 'wpull.protocol.ftp.client:Session.start_listing',
    'wpull.protocol.ftp.client:Session.download', 'wpull.protocol.ftp.client:Session.download_listing',
    'wpull.scraper.base:DemuxDocumentScraper.scrape_info',
    # everything else the processors do with a response (writer sessions, result rules, scraping glue, link queueing)
    'wpull.processor.web:WebProcessorSession.process',
    'wpull.processor.ftp:FTPProcessorSession.process',
    # listeners of the protocol sessions' events run inside the session: the progress indicator (attached by default) reads the
    # response header it is handed
    'wpull.pipeline.progress:ProtocolProgress.update_from_begin_request',
    'wpull.pipeline.progress:ProtocolProgress.update_from_begin_response',
    'wpull.pipeline.progress:ProtocolProgress.update_from_end_response',
    'wpull.pipeline.progress:ProtocolProgress.update_with_data',
]

PROCESSOR_SIDE = ('wpull.writer', 'wpull.processor.web', 'wpull.processor.ftp', 'wpull.processor.rule', 'wpull.processor.base',
                  'wpull.cookiewrapper', 'wpull.cookie', 'wpull.pipeline.progress')

# results that are chosen from a local table or measured on the local file system: the server selects, it does not supply them
CLEAN_CALLS = {'mimetypes.guess_type', 'os.path.getsize', 'os.path.getmtime', 'os.path.exists', 'os.path.isfile', 'os.path.isdir',
               'os.fstat', 'len'}
CLEAN_METHODS = {'tell', 'size'}

# not analysed from the processor entry points (each has its own property or is declared out of scope in DESIGN.md section 7)
OUT_OF_SCOPE_MODULES = ('wpull.thirdparty', 'wpull.processor.coprocessor', 'wpull.driver', 'wpull.warc', 'wpull.database',
                        'wpull.proxy.server', 'wpull.application.hook', 'wpull.application.plugin', 'wpull.converter')
# local file-system failures (disk full, name clash, permissions) are environment errors, not server data
LOCAL_IO = {'open': [], 'os.remove': [], 'os.rename': [], 'os.makedirs': [], 'os.utime': []}

TAINT_SEEDS = [
    ('wpull.protocol.http.request:Response.parse', 'data'),
    ('wpull.scraper.base:DemuxDocumentScraper.scrape_info', 'response'),
    ('wpull.scraper.base:DemuxDocumentScraper.scrape', 'response'),
    ('wpull.scraper.html:HTMLScraper.scrape', 'response'),
    ('wpull.scraper.css:CSSScraper.scrape', 'response'),
    ('wpull.scraper.javascript:JavaScriptScraper.scrape', 'response'),
    ('wpull.scraper.sitemap:SitemapScraper.scrape', 'response'),
    ('wpull.robotstxt:RobotsTxtPool.load_robots_txt', 'text'),
    ('wpull.protocol.ftp.ls.listing:ListingParser.__init__', 'text'),
    ('wpull.protocol.ftp.ls.listing:ListingParser.__init__', 'file'),
]


def _cookie_callbacks(repo):
    """http.cookiejar calls the policy object back: extract_cookies -> policy.set_ok, add_cookie_header -> policy.return_ok /
    domain_return_ok / path_return_ok.  Policies are the repository classes derived from (Default)CookiePolicy."""
    out = {'extract_cookies': [], 'add_cookie_header': [], 'make_cookies': [], 'set_cookie_if_ok': []}
    for ci in repo.classes.values():
        if any(b.endswith('CookiePolicy') for c in repo.mro(ci) for b in repo.external_bases(c)):
            for m, hooks in (('set_ok', ('extract_cookies', 'set_cookie_if_ok')), ('return_ok', ('add_cookie_header',)),
                             ('domain_return_ok', ('add_cookie_header',)), ('path_return_ok', ('add_cookie_header',))):
                if m in ci.methods:
                    for h in hooks:
                        out[h].append(ci.methods[m].qual)
    return {k: v for k, v in out.items() if v}


def _chain(esc, entry, it):
    """A call chain entry -> ... -> function that raises `it` (through functions whose escape set contains it)."""
    has = {}
    for (q, _env), items in esc.final.items():
        if it in items:
            has[q] = True
    fi, _node = esc.sites.get(it, (None, None))
    target = fi.qual if fi is not None else None
    seen, todo = {entry: None}, [entry]
    while todo:
        q = todo.pop(0)
        if q == target:
            out = []
            while q is not None:
                out.append(q)
                q = seen[q]
            return ' -> '.join(reversed(out))
        for c in sorted(esc.call_edges.get(q, ())):
            if c not in seen and (c in has or c == target):
                seen[c] = q
                todo.append(c)
    return None


def _key(esc, it):
    fi, node = esc.sites.get(it, (None, None))
    if fi is None:
        return it.origin, '%s %s' % (it.type, it.origin)
    return fi.qual, '%s: %s' % (it.type.split(':')[-1], norm_text(node)[:90])


def _control_tainted(taint, fi, node):
    """Is `node` of `fi` reached only under a test (or loop, or handler) on server data?"""
    pm = U.parents(fi.node)
    child = node
    for a in U.ancestors(node, pm):
        if isinstance(a, (ast.If, ast.While)) and taint.tainted(fi, a.test):
            return True
        if isinstance(a, (ast.For, ast.AsyncFor)) and taint.tainted(fi, a.iter):
            return True
        for fld in ('body', 'orelse'):
            blk = getattr(a, fld, None)
            if isinstance(blk, list) and any(child is x for x in blk):
                i = [k for k, x in enumerate(blk) if x is child][0]
                for prev in blk[:i]:
                    if isinstance(prev, ast.If) and taint.tainted(fi, prev.test) and prev.body and isinstance(
                            prev.body[-1], (ast.Return, ast.Continue, ast.Break, ast.Raise)):
                        return True
        child = a
    return False


def _tainted_item(taint, esc, it, ctx=None):
    """Does this exception source depend on bytes a server sent?"""
    fi, node = esc.sites.get(it, (None, None))
    if fi is None:
        return it.kind == 'summary'
    if it.kind == 'assert':
        t = node.test
        # type invariants cannot be changed by data values
        if isinstance(t, ast.Call) and dotted(t.func) == 'isinstance':
            return False
        # presence tests of object handles (`assert request`, `assert not self._connection`): the truthiness of an
        # instance of a repository class without __bool__/__len__ does not depend on data
        x = t.operand if isinstance(t, ast.UnaryOp) and isinstance(t.op, ast.Not) else t
        if isinstance(x, (ast.Name, ast.Attribute)):
            types = taint.res.type_of(fi, x)
            if types and all(taint.repo.find_method(ci, '__bool__') is None and taint.repo.find_method(ci, '__len__') is None
                             for ci in types):
                return False
        return taint.tainted(fi, t)
    if it.kind == 'raise':
        pm = U.parents(fi.node)
        child = node
        for a in U.ancestors(node, pm):
            if isinstance(a, (ast.If, ast.While)) and taint.tainted(fi, a.test):
                return True
            if isinstance(a, (ast.For, ast.AsyncFor)) and taint.tainted(fi, a.iter):
                return True
            if isinstance(a, ast.ExceptHandler):
                # raised while handling an error of the try body: depends on data if the body does
                t = pm.get(id(a))
                if isinstance(t, ast.Try) and any(taint.tainted(fi, b) for b in t.body):
                    return True
            # a preceding sibling guard `if <tainted>: return/continue` also makes the raise data dependent
            for fld in ('body', 'orelse'):
                blk = getattr(a, fld, None)
                if isinstance(blk, list) and any(child is x for x in blk):
                    i = [k for k, x in enumerate(blk) if x is child][0]
                    for prev in blk[:i]:
                        if isinstance(prev, ast.If) and taint.tainted(fi, prev.test) and prev.body and isinstance(
                                prev.body[-1], (ast.Return, ast.Continue, ast.Break, ast.Raise)):
                            return True
            child = a
        # a raise that ends a function which branches on server data (e.g. "no pattern matched")
        if taint.func_has_tainted_param(fi) and any(isinstance(x, (ast.If, ast.While)) and taint.tainted(fi, x.test)
                                                     and getattr(x, 'lineno', 0) < node.lineno for x in walk_no_nested(fi.node)):
            return True
        # a helper that does nothing but raise ("cannot continue"): the decision was taken by its caller
        if ctx is not None and not any(isinstance(x, (ast.If, ast.While, ast.For, ast.Try)) for x in walk_no_nested(fi.node)):
            seen_, todo = {fi.qual}, [(fi, 0)]
            while todo:
                g, d = todo.pop()
                for caller, call in _callers_of(ctx, g):
                    if _control_tainted(taint, caller, call):
                        return True
                    if d < 2 and caller.qual not in seen_ and not any(isinstance(x, (ast.If, ast.While, ast.For, ast.Try)) for x in walk_no_nested(caller.node)):
                        seen_.add(caller.qual)
                        todo.append((caller, d + 1))
        return False
    if it.kind == 'none-len':
        # the None was put there by a repository generator for an item of the document it could not process (an unjoinable link):
        # it depends on the document whenever the function handles document data at all
        return taint.tainted(fi, node) or taint.func_has_tainted_param(fi)
    return taint.tainted(fi, node)


def _justified(ctx, esc, it):
    """Frozen, commented table of sources that a dominating check makes infeasible.
    Each entry re-establishes its premise from the current source; otherwise the item
    is reported."""
    repo = ctx.repo
    fi, node = esc.sites.get(it, (None, None))
    if fi is None:
        return None
    text = norm_text(node)
    q = fi.qual
    # 1. Response.parse: data.split(b'\n', 1) always yields two parts because read_response only
    #    joins lines that end with LF and requires at least one line.
    if q == 'wpull.protocol.http.request:Response.parse' and it.kind == 'unpack' and "split(b'\\n', 1)" in text:
        rr = repo.func('wpull.protocol.http.stream:Stream.read_response')
        bnd = {}
        lf = []
        for i in walk_no_nested(rr.node):
            if isinstance(i, ast.If) and i.body and isinstance(i.body[0], ast.Raise):
                t_ = U.canon_suffix_tests(i.test)
                for nm in sorted({x.id for x in ast.walk(t_) if isinstance(x, ast.Name)}):
                    if same_bool(t_, "not %s.endswith(b'\\n')" % nm):
                        lf.append(i)
                        bnd['L_data'] = nm
        empty = [i for i in walk_no_nested(rr.node) if isinstance(i, ast.If) and U.like(i.test, 'not L_lines', bnd)
                 and i.body and isinstance(i.body[-1], ast.Raise)]
        joined = [c for c in U.calls(rr.node) if U.like(c, "L_resp.parse(b''.join(L_lines))", bnd)]
        appended = [c for c in U.calls(rr.node) if U.like(c, 'L_lines.append(L_data)', bnd)]
        ok = bool(lf) and bool(empty) and bool(joined) and bool(appended)
        callers = [f.qual for f in repo.funcs.values() for c in U.calls(f.node)
                   if U.attr_name(c) == 'parse' and isinstance(c.func.value, ast.Name) and f.module.name.startswith('wpull.protocol.http')
                   and any(t.qual.endswith(':Response') for t in ctx.res.type_of(f, c.func.value))]
        if ok and set(callers) <= {rr.qual}:
            return 'the header block always contains LF (read_response joins >=1 LF-terminated lines)'
    # 2. int() of a regex group that matches digits only
    if it.kind == 'external' and isinstance(node, ast.Call) and dotted(node.func) == 'int' and len(node.args) == 1:
        why = _digits_only(ctx, fi, node.args[0])
        if why:
            return why
    # 2b. decoding the ASCII output of a base64/hex encoder cannot fail
    if it.kind == 'external' and isinstance(node, ast.Call) and U.attr_name(node) == 'decode' \
            and isinstance(node.func.value, ast.Call) and (dotted(node.func.value.func) or '') in (
                'base64.b64encode', 'base64.b32encode', 'base64.b16encode', 'base64.urlsafe_b64encode', 'binascii.hexlify'):
        return 'decode() of base64/hex encoder output (always ASCII)'
    # 2c. asserts on attributes the crawler itself sets
    if it.kind == 'assert' and q == 'wpull.protocol.http.request:Request.prepare_for_send' \
            and norm_text(node.test) in ('self.url', 'self.method', 'self.version'):
        pr = repo.func('wpull.protocol.http.web:WebSession._process_redirect')
        guard = False
        for i in walk_no_nested(pr.node):
            b_ = {}
            if isinstance(i, ast.If) and U.like(i.test, 'not L_url', b_) and i.body and isinstance(i.body[-1], ast.Raise):
                d_ = U.local_defs(pr.node).get(b_['L_url'], [])
                guard = guard or any(v is not None and 'next_location' in norm_text(v) for v, k_, s_ in d_)
        init = repo.func('wpull.protocol.http.request:Request.__init__')
        defaults = {a.arg: d for a, d in zip(init.node.args.args[-len(init.node.args.defaults):], init.node.args.defaults)}
        ok = guard and isinstance(defaults.get('method'), ast.Constant) and defaults['method'].value \
            and isinstance(defaults.get('version'), ast.Constant) and defaults['version'].value
        if ok:
            return 'method/version are constructor constants; the redirect URL is non-empty (`if not url: raise ProtocolError` in _process_redirect)'
    if it.kind == 'assert' and q == 'wpull.protocol.http.web:WebSession.start' and norm_text(node.test) == 'request':
        dn = repo.func('wpull.protocol.http.web:WebSession.done')
        lp = repo.func('wpull.processor.web:WebProcessorSession._process_loop')
        ok = any(isinstance(r, ast.Return) and norm_text(r.value) == 'self.next_request() is None' for r in walk_no_nested(dn.node)) \
            and any(isinstance(w, ast.While) and norm_text(w.test) == 'not self._web_client_session.done()' for w in walk_no_nested(lp.node))
        if ok:
            return 'start() runs only while done() is false, i.e. a next request exists (loop condition of _process_loop)'
    if it.kind == 'assert' and q == 'wpull.protocol.ftp.client:Session._init_stream' and norm_text(node.test) == 'not self._control_connection':
        cls = fi.cls
        vals = [norm_text(s_.value) for m in cls.methods.values() for s_ in walk_no_nested(m.node)
                if isinstance(s_, ast.Assign) and any(U.is_self_attr(t, '_control_connection') for t in s_.targets)]
        if all(v == 'None' or '_acquire_request_connection' in v for v in vals) and vals:
            return 'connection handle (None or a pooled connection), not server data'
    if it.kind == 'assert' and q == 'wpull.protocol.ftp.ls.date:y2k':
        sites = [(f, c) for f in repo.funcs.values() for c in U.calls(f.node) if dotted(c.func) == 'y2k']
        ok = bool(sites)
        for f, c in sites:
            pm = U.parents(f.node)
            g = [a for a in U.ancestors(c, pm) if isinstance(a, ast.If)]
            arg = norm_text(c.args[0]) if c.args else ''
            ok = ok and bool(g) and norm_text(g[0].test) in ('%s < 100' % arg, '100 > %s' % arg, '%s <= 99' % arg, '99 >= %s' % arg)
            if ok:
                blk = None
                for a in U.ancestors(g[0], pm):
                    for fld in ('body', 'orelse'):
                        b = getattr(a, fld, None)
                        if isinstance(b, list) and g[0] in b:
                            blk = b
                    if blk is not None:
                        break
                last = None
                for st in (blk or [])[:(blk or []).index(g[0]) if blk else 0]:
                    if isinstance(st, ast.Assign) and any(isinstance(t, ast.Name) and t.id == arg for t in st.targets):
                        last = st
                ok = last is not None and isinstance(last.value, ast.Call) and dotted(last.value.func) == 'int' \
                    and bool(_digits_only(ctx, f, last.value.args[0]))
        if ok:
            return 'y2k() is called only under `year < 100` with a year parsed from a digits-only group (>= 0)'
    # 2c'. file naming (wpull.path): the text handed in is the crawler's own normal form or replaced/Latin-1 decoded text
    if fi.module.name == 'wpull.path':
        why = _path_naming_input(ctx, esc, fi, node, it)
        if why:
            return why
    # 2c''. constant key of a record built elsewhere: every producer stores the key on every path
    if it.kind == 'key' and isinstance(node, ast.Subscript) and isinstance(node.value, ast.Name) and isinstance(node.slice, ast.Constant):
        why = _record_key_guaranteed(ctx, fi, node.value.id, node.slice.value)
        if why:
            return why
        if why is None:
            # not counted: only a producer that demonstrably omits the key is reported (keeps the rule exact)
            return 'the producers of this record could not be traced (not decided)'
    # 2d. codec names
    if it.kind == 'external' and it.type == 'LookupError' and isinstance(node, ast.Call):
        why = _codec_known(ctx, fi, node)
        if why:
            return why
    # 2e. detect_encoding's final raise: unreachable with a lossless fallback
    if it.kind == 'raise' and q == 'wpull.string:detect_encoding':
        why = _lossless_fallback(ctx, fi)
        if why:
            return why
    # 3. an assert that repeats a dominating check of the same condition
    if it.kind == 'assert':
        pm = U.parents(fi.node)
        cond = norm_text(node.test)
        for a in U.ancestors(node, pm):
            blk = getattr(a, 'body', None)
            if isinstance(blk, list):
                for prev in blk:
                    if prev is node or getattr(prev, 'lineno', 0) >= node.lineno:
                        break
                    if isinstance(prev, ast.If) and prev.body and isinstance(prev.body[-1], ast.Raise) \
                            and same_bool(U.canon_suffix_tests(prev.test), ast.UnaryOp(op=ast.Not(), operand=U.canon_suffix_tests(node.test))):
                        return 'assert repeats the dominating check `if not %s: raise`' % cond
    return None


_CALLERS = {}


def _callers_of(ctx, fi):
    """[(caller FuncInfo, call)] for every resolved call of fi (typed resolution only), computed once per run."""
    if 'map' not in _CALLERS:
        m = {}
        for f in ctx.repo.funcs.values():
            for c in U.calls(f.node):
                for g in ctx.res.callee_funcs(f, c, allow_name=False, count=False):
                    m.setdefault(g.qual, []).append((f, c))
        _CALLERS['map'] = m
    return _CALLERS['map'].get(fi.qual, [])


def _path_naming_input(ctx, esc, fi, node, it):
    repo, res = ctx.repo, ctx.res
    # (a) urlsplit(url): every caller passes URLInfo.url, the normal form (balanced brackets: C10), through PathNamer.get_filename
    if it.kind == 'external' and isinstance(node, ast.Call) and dotted(node.func) == 'urllib.parse.urlsplit' and it.type == 'ValueError':
        gf = repo.func('wpull.path:PathNamer.get_filename')
        ok = True
        n = 0
        for f, c in _callers_of(ctx, fi):
            if True:
                if True:
                    n += 1
                    a0 = c.args[0] if c.args else None
                    ok = ok and f is gf and isinstance(a0, ast.Name) and all(
                        v is not None and isinstance(v, ast.Attribute) and v.attr == 'url' for v, k, s_ in U.local_defs(f.node).get(a0.id, []))
        if ok and n:
            return 'the URL split here is URLInfo.url (normal form) at all %d call site(s)' % n
    # (b) UTF-8 encode / decode of name parts: the codec is the constant default at every call site and the text cannot contain
    #     lone surrogates (URL normal form is ASCII; urllib.parse.unquote replaces; header values are Latin-1 decoded)
    if it.kind == 'external' and isinstance(node, ast.Call) and U.attr_name(node) in ('encode', 'decode') and it.type.startswith('Unicode') \
            and fi.qual == 'wpull.path:safe_filename':
        enc = node.args[0] if node.args else None
        a = fi.node.args
        names = [x.arg for x in a.args]
        defaults = dict(zip(names[len(names) - len(a.defaults):], a.defaults))
        okc = isinstance(enc, ast.Name) and isinstance(defaults.get(enc.id), ast.Constant) and str(defaults[enc.id].value).lower().replace('-', '') in ('utf8',)
        n = 0
        for f, c in _callers_of(ctx, fi):
            if f.module.name.startswith(OUT_OF_SCOPE_MODULES):
                continue
            if True:
                if f is not fi:
                    n += 1
                    if enc is not None and (U.kwarg(c, enc.id) is not None or len(c.args) > names.index(enc.id)):
                        okc = False
        if okc and n:
            return 'the codec is the UTF-8 default at all %d call site(s); name parts are ASCII normal forms, unquote()d with replacement or Latin-1 header text (no lone surrogates)' % n
    # (c) filename[0] on a regex group of width >= 1; new_filename[-1] on a non-empty part
    if it.kind == 'index' and isinstance(node, ast.Subscript) and isinstance(node.value, ast.Name):
        nm = node.value.id
        ds = [d_ for d_ in U.local_defs(fi.node).get(nm, []) if getattr(d_[2], 'lineno', 0) < node.lineno]
        if ds and all(v is not None and isinstance(v, ast.Call) and U.attr_name(v) == 'group' for v, k, s_ in ds):
            for v, k, s_ in ds:
                mv = v.func.value
                gi = v.args[0].value if v.args and isinstance(v.args[0], ast.Constant) else None
                for mv_def, mk, ms in [d_ for d_ in U.local_defs(fi.node).get(mv.id, []) if getattr(d_[2], 'lineno', 0) < s_.lineno] \
                        if isinstance(mv, ast.Name) else []:
                    rx = RX.rx_from_call(repo, fi.module, mv_def) if isinstance(mv_def, ast.Call) else None
                    if rx is None or gi is None:
                        return None
                    for op, av in rx.walk():
                        if op is C.SUBPATTERN and av[0] == gi:
                            if av[3].getwidth()[0] >= 1:
                                return 'group %d of %r matches at least one character' % (gi, rx.pattern)
            return None
        if fi.qual == 'wpull.path:safe_filename' and nm not in fi.params:
            # parts are non-empty: directory parts are filtered by truthiness and the file name falls back to the index name
            # (C15-D3 decides that); the Content-Disposition name is used only `if filename:`
            ok = True
            n = 0
            for f in repo.funcs.values():
                for c in U.calls(f.node):
                    if U.attr_name(c) == 'safe_filename' and f.module.name in ('wpull.writer',):
                        n += 1
                        pm = U.parents(f.node)
                        a0 = c.args[0] if c.args else None
                        from ..escape import guarded_truthy
                        ok = ok and isinstance(a0, ast.Name) and guarded_truthy(f.node, a0.id, c)
            if ok and n:
                return 'name parts are never empty (components filtered by truthiness / index fallback, C15-D3; header name used only `if filename`)'
    return None


def _dict_has_key_on_all_paths(ctx, g, rec_expr, at_node, key):
    """The dict `rec_expr` (a dict literal / dict(...) call, or a local of g) certainly holds `key` when control is at at_node."""
    if isinstance(rec_expr, ast.Dict):
        return any(isinstance(k, ast.Constant) and k.value == key for k in rec_expr.keys)
    if isinstance(rec_expr, ast.Call) and dotted(rec_expr.func) == 'dict':
        return any(k.arg == key for k in rec_expr.keywords)
    if not isinstance(rec_expr, ast.Name):
        return False
    cfg = ctx.cfg(g)
    nm = rec_expr.id
    ds = U.local_defs(g.node).get(nm, [])
    creators = [n for v, k, st in ds if k == 'assign' for n in cfg.nodes_of(st)]
    if not creators:
        return False
    if any(k == 'assign' and v is not None and _dict_has_key_on_all_paths(ctx, g, v, None, key) for v, k, st in ds if not isinstance(v, ast.Name)) \
            and len(ds) == 1:
        return True
    stores = [n for n in cfg.stmt_nodes() if isinstance(n.stmt, ast.Assign) and any(
        isinstance(t, ast.Subscript) and isinstance(t.value, ast.Name) and t.value.id == nm and isinstance(t.slice, ast.Constant) and t.slice.value == key
        for t in n.stmt.targets)]
    if not stores or at_node is None:
        return False
    return all(cfg.find_path(c, lambda m: m is at_node, edge_ok=F.normal, stop=lambda m: m in stores) is None for c in creators)


def _record_key_guaranteed(ctx, fi, name, key, _depth=0):
    """Every function that produces the record `name` of fi (a parameter, or an element of a parameter) stores `key` in it on
    every path before handing it out.  Returns a reason (guaranteed), False (a producer was found that does not), or None
    (the producers could not be traced: tuple results, deeper call chains)."""
    repo, res = ctx.repo, ctx.res
    if _depth > 2:
        return None
    element = False
    pname = name
    if name not in fi.params:
        ds = U.local_defs(fi.node).get(name, [])
        if not ds or not all(k == 'for' and isinstance(v, ast.Name) and v.id in fi.params for v, k, s_ in ds):
            return None
        pname = ds[0][0].id
        element = True
    pidx = fi.params.index(pname)
    producers = []
    sites = _callers_of(ctx, fi)
    if not sites:
        return None
    for f, c in sites:
        off = 1 if fi.params and fi.params[0] in ('self', 'cls') and isinstance(c.func, ast.Attribute) else 0
        a = U.kwarg(c, pname, pidx - off)
        if a is None:
            return None
        exprs = [a]
        if isinstance(a, ast.Name):
            if a.id in f.params:
                why = _record_key_guaranteed(ctx, f, a.id, key, _depth + 1) if not element else None
                if why:
                    continue
                return why
            exprs = [v for v, k, s_ in U.local_defs(f.node).get(a.id, []) if v is not None]
            if not exprs:
                return None
        for e in exprs:
            if isinstance(e, (ast.YieldFrom, ast.Await)):
                e = e.value
            if not isinstance(e, ast.Call):
                return None
            gs = res.callee_funcs(f, e, allow_name=True, count=False)
            if not gs:
                return None
            producers.extend(gs)
    names = set()
    for g in producers:
        cfg = ctx.cfg(g)
        rets = [n for n in cfg.nodes if n.kind == 'return' and n.stmt.value is not None]
        if not rets:
            return None
        for r in rets:
            v = r.stmt.value
            if isinstance(v, ast.Tuple):
                return None
            if not element:
                if not _dict_has_key_on_all_paths(ctx, g, v, r, key):
                    return False
            else:
                if not isinstance(v, ast.Name):
                    return None
                apps = [n for n in cfg.stmt_nodes() for c in F.node_calls(n, 'append') if isinstance(c.func.value, ast.Name) and c.func.value.id == v.id]
                if not apps:
                    return None
                for n in apps:
                    for c in F.node_calls(n, 'append'):
                        if not (c.args and _dict_has_key_on_all_paths(ctx, g, c.args[0], n, key)):
                            return False
        names.add(g.qual.split(':')[-1])
    return 'every producer (%s) stores %r in the record on every path before it hands it out' % (', '.join(sorted(names)), key)


LOSSLESS_CODECS = {'latin1', 'latin-1', 'latin_1', 'iso-8859-1', 'iso8859-1', 'iso_8859_1', 'l1', 'cp437', 'cp850'}


def _codec_arg(call):
    """The expression naming the codec in .decode(enc) / .encode(enc) / codecs.getreader(enc) / io.TextIOWrapper(f, enc)."""
    d = dotted(call.func) or ''
    if d == 'io.TextIOWrapper':
        return U.kwarg(call, 'encoding', 1)
    return U.kwarg(call, 'encoding', 0)


def _codec_known(ctx, fi, call):
    """LookupError cannot happen when the codec name is (a) a field written only by __init__ from a parameter that every
    constructor call in the repository leaves at its constant default or binds to a constant, (b) the same unmodified name with
    which a decode in the enclosing try body has just raised UnicodeError (so the codec exists and is a text encoding), or
    (c) the encoding a scraper obtained from detect_response_encoding() / its command-line override, given that detect_encoding
    returns only names with which try_decoding() succeeded."""
    repo, res = ctx.repo, ctx.res
    enc = _codec_arg(call)
    if enc is None:
        return None
    if isinstance(enc, ast.BoolOp) and isinstance(enc.op, ast.Or) and all(isinstance(v, ast.Constant) for v in enc.values[1:]):
        enc = enc.values[0]
    # (a)
    if U.is_self_attr(enc) and fi.cls is not None and (fi.cls.qual, enc.attr) in _CTOR_CONST:
        return _CTOR_CONST[(fi.cls.qual, enc.attr)]
    if U.is_self_attr(enc) and fi.cls is not None:
        attr = enc.attr
        _CTOR_CONST[(fi.cls.qual, attr)] = None
        stores = [(m, n) for c in repo.mro(fi.cls) for m in c.methods.values() for n in F.assigned_attrs(m.node, attr)]
        init = repo.find_method(fi.cls, '__init__')
        ok = bool(stores) and init is not None and all(m is init and isinstance(n, ast.Assign) and isinstance(n.value, ast.Name)
                                                       and n.value.id in init.params for m, n in stores)
        if ok:
            par = stores[0][1].value.id
            a = init.node.args
            names = [x.arg for x in a.args]
            defaults = dict(zip(names[len(names) - len(a.defaults):], a.defaults))
            ok = isinstance(defaults.get(par), ast.Constant)
            owners = {c.qual for c in [fi.cls] + list(repo.subclasses(fi.cls))}
            sites = 0
            for f in repo.funcs.values():
                for c in U.calls(f.node):
                    for kind, t in res.resolve_call(f, c, allow_name=False, count=False):
                        if kind == 'class' and t.qual in owners:
                            sites += 1
                            v = U.kwarg(c, par, names.index(par) - 1)
                            if v is not None and not isinstance(v, ast.Constant):
                                ok = False
            if ok and sites:
                _CTOR_CONST[(fi.cls.qual, attr)] = 'codec name is the constructor constant of %s.%s (%d construction sites, all constant)' % (
                    fi.cls.name, attr, sites)
                return _CTOR_CONST[(fi.cls.qual, attr)]
    # (b)
    if isinstance(enc, ast.Name):
        pm = U.parents(fi.node)
        for a in U.ancestors(call, pm):
            if isinstance(a, ast.ExceptHandler):
                t = pm.get(id(a))
                types = [norm_text(x) for x in (a.type.elts if isinstance(a.type, ast.Tuple) else [a.type])] if a.type is not None else []
                if isinstance(t, ast.Try) and types and all(x.startswith('Unicode') for x in types) and len(t.body) == 1:
                    inner = [c for c in U.calls(t.body[0]) if U.attr_name(c) in ('decode', 'encode')]
                    if len(inner) == 1 and isinstance(_codec_arg(inner[0]), ast.Name) and _codec_arg(inner[0]).id == enc.id \
                            and not [d for d in U.local_defs(fi.node).get(enc.id, []) if d[1] != 'param']:
                        return 'the same codec name has just raised a Unicode error in the enclosing try body, so it exists and is a text encoding'
    # (c)
    if isinstance(enc, ast.Name) and enc.id in fi.params and fi.module.name.startswith(('wpull.document', 'wpull.scraper')):
        # (parameters are not renamed by refactors of the body)
        why = _scraper_encodings_validated(ctx)
        if why:
            return why
    return None


_VALIDATED = {}
_CTOR_CONST = {}


def _scraper_encodings_validated(ctx):
    repo = ctx.repo
    if 'r' in _VALIDATED:
        return _VALIDATED['r']
    _VALIDATED['r'] = None
    # 1. try_decoding returns True only after a decode with the candidate codec completed
    td = repo.func('wpull.string:try_decoding')
    cfg = ctx.cfg(td)
    par = td.params[1] if len(td.params) > 1 else None
    rets_true = [n for n in cfg.nodes if n.kind == 'return' and isinstance(n.stmt.value, ast.Constant) and n.stmt.value.value is True]
    dec = [n for n in cfg.stmt_nodes() if any(U.attr_name(c) == 'decode' and isinstance(_codec_arg(c), ast.Name) and _codec_arg(c).id == par
                                              for c in F.node_calls(n))]
    ok = bool(rets_true) and bool(dec) and all(
        cfg.find_path(cfg.entry, lambda m, r=r: m is r, edge_ok=F.normal, stop=lambda m: m in dec) is None for r in rets_true)
    # every other return is a constant False / None
    ok = ok and all(n.kind != 'return' or (isinstance(n.stmt.value, ast.Constant)) for n in cfg.nodes)
    # 2. detect_encoding returns a name only on the true edge of try_decoding(data, name)
    de = repo.func('wpull.string:detect_encoding')
    dcfg = ctx.cfg(de)
    for r in [n for n in dcfg.nodes if n.kind == 'return']:
        if not isinstance(r.stmt.value, ast.Name):
            ok = False
            continue
        nm = r.stmt.value.id
        gates = [n for n in dcfg.nodes if n.kind == 'if' and U.like(n.stmt.test, 'try_decoding(L_d, %s)' % nm)]
        okr = False
        for g in gates:
            byp = dcfg.find_path(dcfg.entry, lambda m: m is r, edge_ok=F.normal, stop=lambda m: m is g)
            fal = dcfg.find_path(g, lambda m: m is r, edge_ok=F.normal, first_edges=lambda a, b, k: k != 'T', stop=lambda m: m is g)
            okr = okr or (byp is None and fal is None)
        ok = ok and okr
    # 3. every scraper hands down `self._encoding_override or detect_response_encoding(response...)`, which returns detect_encoding's result
    dre = repo.func('wpull.document.util:detect_response_encoding')
    rv = [n for n in walk_no_nested(dre.node) if isinstance(n, ast.Return)]
    okd = len(rv) == 1 and isinstance(rv[0].value, ast.Name)
    if okd:
        ds = [(v, k, s_) for v, k, s_ in U.local_defs(dre.node).get(rv[0].value.id, []) if k != 'param']
        last = max(ds, key=lambda d_: d_[2].lineno) if ds else None
        okd = last is not None and isinstance(last[0], ast.Call) and (dotted(last[0].func) or '').endswith('detect_encoding') \
            and any(last[2] is x for x in dre.node.body) and last[2].lineno < rv[0].lineno
    ok = ok and okd
    n_scr = 0
    for f in repo.funcs.values():
        if not (f.module.name.startswith('wpull.scraper') and f.name == 'scrape'):
            continue
        # every value in a scraper that mentions the override or an encoding helper has the validated form
        vals = [n.value for n in walk_no_nested(f.node) if isinstance(n, ast.Assign)
                and any(U.is_self_attr(x, '_encoding_override') or (isinstance(x, ast.Call) and 'encoding' in (dotted(x.func) or '').lower())
                        for x in ast.walk(n.value))]
        if not vals:
            continue
        n_scr += 1
        for v in vals:
            good = isinstance(v, ast.BoolOp) and isinstance(v.op, ast.Or) and len(v.values) == 2 and U.is_self_attr(v.values[0], '_encoding_override') \
                and isinstance(v.values[1], ast.Call) and (dotted(v.values[1].func) or '').endswith('detect_response_encoding')
            ok = ok and good
    if ok and n_scr >= 4:
        _VALIDATED['r'] = ('the codec name is the command-line override or the result of detect_response_encoding(); detect_encoding '
                           'returns only a name with which try_decoding() completed a decode (%d scrapers)' % n_scr)
    return _VALIDATED['r']


def _lossless_fallback(ctx, fi):
    """The raise after detect_encoding's candidate loop is unreachable when the last candidate (`fallback`) decodes every byte
    string: the parameter default is a Latin-1 style codec and no caller in the repository passes another one."""
    repo, res = ctx.repo, ctx.res
    a = fi.node.args
    names = [x.arg for x in a.args]
    defaults = dict(zip(names[len(names) - len(a.defaults):], a.defaults))
    d = defaults.get('fallback')
    if not (isinstance(d, ast.Constant) and str(d.value).lower() in LOSSLESS_CODECS):
        return None
    chained = any(isinstance(n, ast.Call) and (dotted(n.func) or '').endswith('chain') and any(
        isinstance(x, ast.Tuple) and any(isinstance(e, ast.Name) and e.id == 'fallback' for e in x.elts) for x in n.args)
        for n in walk_no_nested(fi.node))
    if not chained:
        return None
    sites = 0
    for f in repo.funcs.values():
        if f.module.name.startswith(OUT_OF_SCOPE_MODULES):
            continue
        for c in U.calls(f.node):
            if (dotted(c.func) or '').endswith('detect_encoding') and fi in res.callee_funcs(f, c, allow_name=False, count=False):
                sites += 1
                v = U.kwarg(c, 'fallback', names.index('fallback'))
                if v is not None and not (isinstance(v, ast.Constant) and str(v.value).lower() in LOSSLESS_CODECS):
                    return None
    return 'the fallback candidate is %r at all %d call sites: it decodes every byte string, so the loop always returns' % (d.value, sites)


def _d8_event_pairs(ctx):
    repo, ck = ctx.repo, ctx.check
    CLEANUP = {'recycle', 'abort', 'close', '__exit__'}
    n = 0
    for ci in [c for c in repo.classes.values() if c.module.name.startswith('wpull.protocol.') and c.module.name.endswith('.client')]:
        def notes(m, ev):
            out = []
            for c in U.calls(m.node):
                if U.attr_name(c) == 'notify' and c.args and isinstance(c.args[0], ast.Attribute) and c.args[0].attr == ev:
                    out.append(c)
            return out
        for m in ci.methods.values():
            if m.name not in CLEANUP:
                continue
            for c in U.calls(m.node):
                if not (U.attr_name(c) == 'notify' and c.args and isinstance(c.args[0], ast.Attribute) and c.args[0].attr.startswith('end_')):
                    continue
                ev = c.args[0].attr
                bev = 'begin_' + ev[4:]
                begins = [(bm, bc) for bm in ci.methods.values() for bc in notes(bm, bev)]
                if not begins:
                    continue
                n += 1
                if m.name == '__exit__' and all(bm.name == '__enter__' for bm, bc in begins):
                    # paired by the context-manager protocol: __exit__ runs only after __enter__ returned
                    enter = [bm for bm, bc in begins][0]
                    ecfg = ctx.cfg(enter)
                    bn = [x for x in ecfg.stmt_nodes() if any(any(y is bc for y in ast.walk(x.stmt)) for bm, bc in begins)]
                    p = ecfg.find_path(ecfg.entry, lambda x: x is ecfg.exit, edge_ok=F.normal, stop=lambda x: x in bn)
                    ck.expect(p is None, 'C09-D8', m.qual, '%s in __exit__, %s on every normal path of __enter__' % (ev, bev),
                              '__enter__ can return without notifying %s while __exit__ always notifies %s' % (bev, ev), enter.loc())
                    continue
                pm = U.parents(m.node)
                guards = set()
                for a in U.ancestors(c, pm):
                    if isinstance(a, ast.If):
                        for x in ast.walk(a.test):
                            if U.is_self_attr(x):
                                guards.add(x.attr)
                    if isinstance(a, (ast.FunctionDef, ast.AsyncFunctionDef)):
                        break
                ok = False
                why = 'the notification is unconditional' if not guards else ''
                for g in sorted(guards):
                    stores = []
                    for sm in ci.methods.values():
                        for st in walk_no_nested(sm.node):
                            if isinstance(st, (ast.Assign, ast.AnnAssign)):
                                tg = st.targets if isinstance(st, ast.Assign) else [st.target]
                                v = st.value
                                if any(U.is_self_attr(t, g) for t in tg) and not (isinstance(v, ast.Constant) and v.value in (None, False)):
                                    stores.append((sm, st))
                    if not stores:
                        continue
                    good = True
                    for sm, st in stores:
                        bcs = [bc for bm, bc in begins if bm is sm]
                        cfg = ctx.cfg(sm)
                        sn = [x for x in cfg.stmt_nodes() if x.stmt is st]
                        bn = [x for x in cfg.stmt_nodes() if any(any(y is bc for y in ast.walk(x.stmt)) for bc in bcs)]
                        if not sn or not bn or cfg.find_path(cfg.entry, lambda x: x in sn, edge_ok=F.normal, stop=lambda x: x in bn) is not None:
                            good = False
                            why = 'self.%s is set in %s before %s is notified (or in a method that does not notify it)' % (g, sm.name, bev)
                    if good:
                        ok = True
                ck.expect(ok, 'C09-D8', m.qual, '%s is notified only after %s' % (ev, bev),
                          '%s.%s notifies %s although %s may never have been (%s): a failure between the two - a refused connection - '
                          'runs the listeners\' end handler on state their begin handler never built; the AttributeError replaces the '
                          'network error and ends the crawl' % (ci.name, m.name, ev, bev, why), m.loc(c))
    if n == 0:
        raise AnalysisError('no end_* notification found in the clean-up methods of the protocol sessions (expected ftp Session.recycle)')


def _d7_pasv(ctx):
    repo, ck, res = ctx.repo, ctx.check, ctx.res
    # the PASV parser is whatever the command layer calls on the reply text of passive_mode
    pm_f = repo.func('wpull.protocol.ftp.command:Commander.passive_mode')
    targets = []
    for c in U.calls(pm_f.node):
        for g in res.callee_funcs(pm_f, c, allow_name=False, count=False):
            if g.module.name.startswith('wpull.protocol.ftp.util'):
                targets.append((c, g))
    if len(targets) != 1:
        raise AnalysisError('passive_mode: PASV address parser not found')
    call, pa = targets[0]
    # caller converts ValueError
    pmap = U.parents(pm_f.node)
    conv = False
    for a in U.ancestors(call, pmap):
        if isinstance(a, ast.Try) and any(call is x for b in a.body for x in ast.walk(b)):
            for h in a.handlers:
                types = [norm_text(x) for x in (h.type.elts if isinstance(h.type, ast.Tuple) else [h.type])] if h.type is not None else ['BaseException']
                if any(t in ('ValueError', 'Exception') for t in types) and any(isinstance(x, ast.Raise) for x in ast.walk(h)) \
                        and any('ProtocolError' in norm_text(x.exc) for x in ast.walk(h) if isinstance(x, ast.Raise) and x.exc is not None):
                    conv = True
    ck.expect(conv, 'C09-D7', pm_f.qual, 'ValueError from the PASV parser -> ProtocolError', 'a malformed PASV reply is no longer converted to a protocol error', pm_f.loc(call))
    rxs = [RX.rx_from_call(repo, pa.module, c) for c in U.calls(pa.node)]
    rxs = [r for r in rxs if r is not None]
    if len(rxs) != 1:
        raise AnalysisError('%s: expected one constant pattern' % pa.qual)
    rx = rxs[0]
    big = []
    ngroups = 0
    for op, av in rx.walk():
        if op is C.SUBPATTERN and av[0]:
            ngroups += 1
            lo, hi = av[3].getwidth()
            if hi > 2 and not _group_max_255(av[3]):
                big.append(av[0])
    if not big:
        ck.ok('C09-D7', pa.qual, 'every group of %r is bounded by 255 by the pattern itself' % rx.pattern)
        return
    # a dominating range check
    cfg = ctx.cfg(pa)
    mname = None
    for n, ds in U.local_defs(pa.node).items():
        if any(v is rx.call for v, k, s_ in ds):
            mname = n
    derived = {mname} if mname else set()
    changed = True
    while changed:
        changed = False
        for n, ds in U.local_defs(pa.node).items():
            if n not in derived and any(v is not None and any(isinstance(x, ast.Name) and x.id in derived for x in ast.walk(v)) for v, k, s_ in ds):
                derived.add(n)
                changed = True

    polarity = {}

    def covers(test):
        """group numbers that `test` compares with 255/256 (None = all, through .groups()); polarity[id(test)] is True when
        the comparison found reads "number is out of range" (so the true edge must refuse), False when it reads "in range" """
        out = set()
        for cmp_ in [x for x in ast.walk(test) if isinstance(x, ast.Compare) and len(x.ops) == 1]:
            a, b = cmp_.left, cmp_.comparators[0]
            op = cmp_.ops[0]
            if isinstance(a, ast.Constant):
                a, b = b, a
                op = {ast.Lt: ast.Gt, ast.LtE: ast.GtE, ast.Gt: ast.Lt, ast.GtE: ast.LtE}.get(type(op), type(op))()
            if not (isinstance(b, ast.Constant) and isinstance(b.value, int)):
                continue
            if not ((isinstance(op, ast.Gt) and b.value == 255) or (isinstance(op, ast.GtE) and b.value == 256)
                    or (isinstance(op, ast.LtE) and b.value == 255) or (isinstance(op, ast.Lt) and b.value == 256)):
                continue
            polarity[id(test)] = isinstance(op, (ast.Gt, ast.GtE))
            names = {x.id for x in ast.walk(a) if isinstance(x, ast.Name)}
            # comprehension variables iterating over match.groups() / derived lists
            scope = test
            comp_all = False
            for comp in [x for x in ast.walk(scope) if isinstance(x, ast.comprehension)]:
                it_names = {x.id for x in ast.walk(comp.iter) if isinstance(x, ast.Name)}
                tv = {x.id for x in ast.walk(comp.target) if isinstance(x, ast.Name)}
                if tv & names and (it_names & derived):
                    if any(isinstance(x, ast.Call) and U.attr_name(x) == 'groups' for x in ast.walk(comp.iter)) or (it_names & (derived - {mname})):
                        comp_all = True
            if comp_all or any(isinstance(x, ast.Call) and U.attr_name(x) == 'groups' for x in ast.walk(a)) or (names & (derived - {mname})):
                return None
            for g in [x for x in ast.walk(a) if isinstance(x, ast.Call) and U.attr_name(x) == 'group' and x.args and isinstance(x.args[0], ast.Constant)]:
                out.add(g.args[0].value)
        return out
    rets = [n for n in cfg.nodes if n.kind == 'return' and n.stmt.value is not None]
    ok = False
    for n in cfg.nodes:
        if n.kind != 'if':
            continue
        cov = covers(n.stmt.test)
        if cov is not None and not set(big) <= cov:
            continue
        # refusing edge: the edge on which some number is out of range leads to a raise of ValueError, never to a return
        out_of_range_when_true = polarity.get(id(n.stmt.test), True)
        if isinstance(n.stmt.test, ast.UnaryOp) and isinstance(n.stmt.test.op, ast.Not):
            out_of_range_when_true = not out_of_range_when_true
        # `all(x <= 255 ...)` reads "in range": the refusing edge is then the false one
        bad_edge = 'T' if out_of_range_when_true else 'F'
        leak = cfg.find_path(n, lambda m: m in rets, edge_ok=F.normal, first_edges=lambda a, b, k: k == bad_edge)
        byp = [cfg.find_path(cfg.entry, lambda m, r=r: m is r, edge_ok=F.normal, stop=lambda m: m is n) for r in rets]
        if leak is None and all(b is None for b in byp):
            ok = True
    ck.expect(ok, 'C09-D7', pa.qual, 'groups %s of %r (up to 999) are refused above 255 before the address is returned' % (big, rx.pattern),
              'a PASV reply such as "227 (1,2,3,4,999,999)" yields port 255975: connect() raises OverflowError, which is not a '
              'per-URL error, and the crawl stops', pa.loc())


def _group_max_255(sub):
    """Conservative: the sub-pattern cannot match a decimal number above 255 (only recognises widths <= 2)."""
    lo, hi = sub.getwidth()
    return hi <= 2


def _digits_only(ctx, fi, arg):
    """arg is match.group(k)/groups[k] of a constant regex whose group k matches [0-9]+ only."""
    repo = ctx.repo
    k = None
    mname = None
    if isinstance(arg, ast.Call) and U.attr_name(arg) == 'group' and isinstance(arg.func.value, ast.Name) and arg.args \
            and isinstance(arg.args[0], ast.Constant) and isinstance(arg.args[0].value, int):
        mname, k = arg.func.value.id, arg.args[0].value
    elif isinstance(arg, ast.Subscript) and isinstance(arg.value, ast.Name) and isinstance(arg.slice, ast.Constant):
        d = U.local_defs(fi.node).get(arg.value.id, [])
        if len(d) == 1 and d[0][0] is not None and U.attr_name(d[0][0]) == 'groups' and isinstance(d[0][0].func.value, ast.Name):
            mname, k = d[0][0].func.value.id, arg.slice.value + 1
    alias = None
    if mname is None and isinstance(arg, ast.Name):
        # `a, b, c = match.groups()` : arg is the i-th unpacked name
        d0 = U.local_defs(fi.node).get(arg.id, [])
        if len(d0) == 1 and d0[0][1].startswith('tuple:') and isinstance(d0[0][0], ast.Call) and U.attr_name(d0[0][0]) == 'groups' \
                and isinstance(d0[0][0].func.value, ast.Name):
            mname, k = d0[0][0].func.value.id, int(d0[0][1].split(':')[1]) + 1
            alias = arg.id
    if mname is None:
        return None
    d = [(v, st) for v, kind, st in U.local_defs(fi.node).get(mname, []) if kind == 'assign' and v is not None
         and getattr(st, 'lineno', 0) < getattr(arg, 'lineno', 10 ** 9)]
    if not d:
        return None
    v = max(d, key=lambda x: x[1].lineno)[0]
    if not isinstance(v, ast.Call):
        return None
    rx = RX.rx_from_call(repo, fi.module, v)
    if rx is None and isinstance(v.func, ast.Attribute) and v.func.attr in ('search', 'match', 'fullmatch'):
        r = repo.resolve_name(fi.module, dotted(v.func.value) or '')
        if r is not None and r[0] == 'const' and isinstance(r[2], ast.Call) and dotted(r[2].func) == 're.compile':
            rx = RX.rx_from_call(repo, r[1], r[2])
    if rx is None:
        return None
    # find capturing group k
    for op, av in rx.walk():
        if op is C.SUBPATTERN and av[0] == k:
            items = list(av[3])
            if len(items) == 1 and items[0][0] is C.BRANCH:
                # (digits|<empty>) with a truthiness guard on the same group selects the digit alternative
                alts = items[0][1][1]
                nonempty = [list(a) for a in alts if any(o is not C.AT for o, _ in a)]
                guarded = _group_truthy_guard(fi, arg, mname, k, alias)
                if len(nonempty) == 1 and (len(alts) == 1 or guarded):
                    items = nonempty[0]
                else:
                    return None
            ok = bool(items)
            for iop, iav in items:
                if RX.is_repeat(iop):
                    sub = list(iav[2])
                    if iav[1] > 4300 or len(sub) != 1 or not _only_digits(sub[0]):
                        ok = False
                elif not _only_digits((iop, iav)):
                    ok = False
            if ok:
                return 'int() of regex group %d which matches ASCII digits only (%r)' % (k, rx.pattern)
    return None


def _group_truthy_guard(fi, node, mname, k, alias=None):
    pm = U.parents(fi.node)
    wants = {'%s.group(%d)' % (mname, k)}
    if alias:
        wants.add(alias)

    def truthy(p):
        if norm_text(p) in wants:
            return True
        if isinstance(p, ast.Compare) and len(p.ops) == 1 and isinstance(p.ops[0], ast.NotEq):
            a, b = p.left, p.comparators[0]
            for x, y in ((a, b), (b, a)):
                if norm_text(x) in wants and isinstance(y, ast.Constant) and y.value in (b'', ''):
                    return True
        return False
    for a in U.ancestors(node, pm):
        if isinstance(a, ast.If):
            t = a.test
            parts = t.values if isinstance(t, ast.BoolOp) and isinstance(t.op, ast.And) else [t]
            if any(truthy(p) for p in parts) and any(node is x for b in a.body for x in ast.walk(b)):
                return True
    return False


def _only_digits(item):
    op, av = item
    if op is C.IN:
        for o, a in av:
            if o is C.RANGE and ord('0') <= a[0] and a[1] <= ord('9'):
                continue
            if o is C.LITERAL and ord('0') <= a <= ord('9'):
                continue
            if o is C.CATEGORY and a is C.CATEGORY_DIGIT:
                continue     # \d on bytes patterns / re.ASCII; unicode digits are accepted by int() as well
            return False
        return True
    if op is C.LITERAL:
        return ord('0') <= av <= ord('9')
    return False


def run(ctx):
    repo, ck, res = ctx.repo, ctx.check, ctx.res
    ck.assume('exceptions raised inside third-party parsers (html5lib/lxml, chardet, http.cookiejar, the robots.txt matcher) '
              'and MemoryError/RecursionError from pathological sizes are not analysed')
    ck.assume('the connection layer raises what SUMMARIES lists (NetworkError family, SSLVerificationError; readline also a '
              'bare ValueError on a StreamReader limit overrun); stdlib callees raise what the external-raiser table lists')
    ck.assume('an exception source counts when it depends on server data (whole-program may-taint from connection reads, '
              'response bodies and listing text); state-misuse errors (RuntimeError on a finished session etc.) are out of scope')
    ck.rule('C09-D1', 'every exception type that can leave a protocol/scraping entry point from a server-data-dependent source '
                      'is one the processors handle per URL (REMOTE_ERRORS and subclasses); includes data-dependent asserts (D4)')
    ck.rule('C09-D2', 'every protocol-session call in the processors lies (lexically or through all its callers) inside a try '
                      'whose handlers cover all of REMOTE_ERRORS')
    ck.rule('C09-D3', 'sibling consistency: every connection.readline() site converts ValueError to ProtocolError; every '
                      'decompress/flush site converts zlib.error to ProtocolError')
    ck.rule('C09-D6', 'typestate: after a stream reader closes its connection no feasible path (branch conditions on the byte '
                      'counters taken into account) reads from it again - such a read trips an assertion in the connection layer')
    ck.rule('C09-D7', 'numbers a server supplies for the FTP data connection are range-checked before they become an address: every '
                      'group of the PASV pattern that can exceed 255 is refused with ValueError (converted to ProtocolError by the '
                      'caller) - connect() raises OverflowError, not a network error, for a port above 65535')
    ck.rule('C09-D8', 'session clean-up (recycle / abort / close / __exit__) notifies an end_* event only when the matching begin_* event '
                      'was notified: some field tested by the guard of the end notification is set only after the begin notification. '
                      'Listeners (the WARC recorder) build in begin_* what end_* uses; an end without a begin raises AttributeError out of '
                      'the session, in place of the network error that caused the clean-up')
    ck.rule('C09-D5', 'the crash path is as assumed: unexpected exception types are not in the application\'s EXPECTED_EXCEPTIONS, '
                      'REMOTE_ERRORS contains the four per-URL error kinds')

    base = repo.module('wpull.processor.base')
    try:
        handled = [str(x) for x in repo.fold(base, ast.Name(id='REMOTE_ERRORS', ctx=ast.Load()))]
    except ValueError as e:
        raise AnalysisError('REMOTE_ERRORS does not fold: %s' % e)
    need = {'wpull.errors:ServerError', 'wpull.errors:ProtocolError', SSLE, NE}
    ck.expect(need <= set(handled), 'C09-D5', 'wpull.processor.base:REMOTE_ERRORS', 'REMOTE_ERRORS = ' + ', '.join(h.split(':')[-1] for h in handled),
              'REMOTE_ERRORS lacks %s: that error kind now unwinds the whole pipeline' % sorted(x.split(':')[-1] for x in need - set(handled)),
              'wpull/processor/base.py')
    app = repo.cls('wpull.application.app:Application')
    ee = app.class_assigns.get('EXPECTED_EXCEPTIONS')
    try:
        exp = [str(x) for x in repo.fold(app.module, ee)] if ee is not None else None
    except ValueError:
        exp = None
    ck.expect(exp is not None and not ({'Exception', 'BaseException', 'ValueError', 'AssertionError', 'IndexError', 'KeyError'} & set(exp)),
              'C09-D5', app.qual, 'EXPECTED_EXCEPTIONS = %s' % exp, 'EXPECTED_EXCEPTIONS is too wide / not a constant tuple', app.module.path)

    summaries = dict(SUMMARIES)
    for ci in repo.classes.values():
        if ci.module.name == 'wpull.network.connection':
            for m, types in (('readline', ['ValueError', NE, SSLE]), ('read', [NE, SSLE]), ('write', [NE, SSLE]),
                             ('connect', [NE, SSLE]), ('run_network_operation', [NE, SSLE])):
                if m in ci.methods:
                    summaries[ci.methods[m].qual] = types
    def clean(fi, expr):
        """Request header records are written only by the crawler itself (C16-D3 enumerates the writers):
        `<request>.fields...` is never server data although NameValueRecord is shared with responses."""
        if isinstance(expr, ast.Call):
            d = dotted(expr.func) or ''
            # values looked up in local tables / the local file system are selected, not supplied, by the server
            if d in CLEAN_CALLS or (isinstance(expr.func, ast.Attribute) and expr.func.attr in CLEAN_METHODS):
                return True
        cur = expr
        while isinstance(cur, (ast.Call, ast.Subscript, ast.Attribute)):
            if isinstance(cur, ast.Attribute) and cur.attr == 'fields':
                base = cur.value
                bt = norm_text(base).lower()
                if bt.endswith('request') or bt.endswith('request_') or any(t.name.endswith('Request') for t in res.type_of(fi, base)):
                    return True
            cur = cur.func if isinstance(cur, ast.Call) else cur.value
        return False
    # the response object is server data wherever the processors hand it on (writer sessions, result rules, statistics)
    seeds = list(TAINT_SEEDS)
    for f in repo.funcs.values():
        if f.module.name in PROCESSOR_SIDE and 'response' in f.params:
            seeds.append((f.qual, 'response'))
    for qs in _cookie_callbacks(repo).values():
        for q_ in qs:
            for p_ in repo.funcs[q_].params[1:]:
                seeds.append((q_, p_))
    taint = Taint(repo, res, seed_params=seeds, exclude=('wpull.thirdparty', 'wpull.proxy.server'), clean=clean)
    esc = Escape(repo, res, summaries=summaries, taint=taint, codec_lookup=True, stop_modules=OUT_OF_SCOPE_MODULES, external=LOCAL_IO,
                 callbacks=_cookie_callbacks(repo))
    ck.info['tainted_functions'] = sum(1 for q, s in taint.locals.items() if s)

    # ------------------------------------------------------------------ D1 (+D4)
    seen = {}
    examined = 0
    for q in ENTRY_POINTS:
        fi = repo.func(q)
        items = esc.escapes(fi)
        for it in sorted(items):
            examined += 1
            if any(esc.is_sub(it.type, h) for h in handled):
                continue
            if not _tainted_item(taint, esc, it, ctx):
                continue
            if it.kind == 'summary' and it.type == 'ValueError' and 'readline' in it.origin:
                continue     # decided per site by C09-D3
            why = _justified(ctx, esc, it)
            where, cons = _key(esc, it)
            if why:
                if (where, cons) not in seen:
                    ck.ok('C09-D1', where, '%s - infeasible: %s' % (cons, why))
                    seen[(where, cons)] = 'ok'
                continue
            if (where, cons) in seen:
                continue
            seen[(where, cons)] = q
            ck.bad('C09-D1' if it.kind != 'assert' else 'C09-D1', where, cons,
                   '%s raised at %s depends on server data and can leave %s without being converted to a per-URL error: '
                   'the worker task dies and the whole crawl stops' % (it.type.split(':')[-1], it.origin, q), it.origin.split(' ')[0],
                   _chain(esc, q, it))
        ck.ok('C09-D1', q, 'escape set of %d item(s) examined' % len(items))
    ck.info['escape_items_examined'] = examined
    ck.info['escape_unknown_externals'] = dict(sorted(esc.unknown_external.items(), key=lambda kv: -kv[1])[:60])

    # the WARC recorder listens to the sessions' data events (--warc-file): what its listeners raise on the bytes they are handed
    # leaves the reader that notified them.  File-system failures are local (LOCAL_IO); what depends on the bytes is not.
    rec_entries = []
    for f in repo.funcs.values():
        if f.module.name == 'wpull.warc.recorder' and f.cls is not None and f.cls.name.endswith('RecorderSession') and 'data' in f.params:
            rec_entries.append(f)
    if len(rec_entries) < 4:
        raise AnalysisError('expected the data listeners of the HTTP and FTP recorder sessions (found %d)' % len(rec_entries))
    rseeds = seeds + [(f.qual, 'data') for f in rec_entries]
    rtaint = Taint(repo, res, seed_params=rseeds, exclude=('wpull.thirdparty', 'wpull.proxy.server'), clean=clean)
    resc = Escape(repo, res, summaries=summaries, taint=rtaint, codec_lookup=True,
                  stop_modules=tuple(m for m in OUT_OF_SCOPE_MODULES if m != 'wpull.warc'), external=LOCAL_IO)
    for f in sorted(rec_entries, key=lambda f: f.qual):
        items = resc.escapes(f)
        for it in sorted(items):
            if any(resc.is_sub(it.type, h) for h in handled) or not _tainted_item(rtaint, resc, it, ctx):
                continue
            where, cons = _key(resc, it)
            if (where, cons) in seen:
                continue
            seen[(where, cons)] = f.qual
            ck.bad('C09-D1', where, cons, '%s raised at %s depends on the bytes handed to the recorder\'s listener %s: it leaves the protocol '
                   'reader that notified the listener, is no per-URL error, and the crawl stops' % (it.type.split(':')[-1], it.origin, f.qual),
                   it.origin.split(' ')[0])
        ck.ok('C09-D1', f.qual, 'recorder listener: escape set of %d item(s) examined' % len(items))

    _d7_pasv(ctx)
    _d8_event_pairs(ctx)

    # ------------------------------------------------------------------ D2
    SESSION_CALLS = {'start', 'start_listing', 'download', 'download_listing'}
    mods = ('wpull.processor.web', 'wpull.processor.ftp', 'wpull.protocol.http.robots')
    funcs = [f for f in repo.funcs.values() if f.module.name in mods]
    callers_of = {}
    allf = [f for f in repo.funcs.values() if f.module.name.startswith(('wpull.processor', 'wpull.protocol.http.robots'))]
    for f in allf:
        for c in U.calls(f.node):
            for g in res.callee_funcs(f, c, allow_name=True, count=False):
                callers_of.setdefault(g.qual, []).append((f, c))

    def lexically_covered(f, call):
        pm = U.parents(f.node)
        for a in U.ancestors(call, pm):
            if isinstance(a, ast.Try) and any(call is x for b in a.body for x in ast.walk(b)):
                caught = set()
                for h in a.handlers:
                    caught |= set(esc.handler_types(f, h))
                if all(any(esc.is_sub(n, t) for t in caught) for n in need):
                    return True
        return False

    def covered(f, call, depth=0, stack=()):
        if lexically_covered(f, call):
            return True, None
        if depth > 5 or f.qual in stack:
            return False, f.qual
        cs = callers_of.get(f.qual, [])
        if not cs:
            return False, f.qual
        for (g, c2) in cs:
            ok, where = covered(g, c2, depth + 1, stack + (f.qual,))
            if not ok:
                return False, where
        return True, None
    n_sites = 0
    for f in funcs:
        for c in U.calls(f.node):
            if U.attr_name(c) in SESSION_CALLS and isinstance(c.func, ast.Attribute) and 'session' in norm_text(c.func.value).lower():
                n_sites += 1
                ok, where = covered(f, c)
                ck.expect(ok, 'C09-D2', f.qual, norm_text(c)[:70],
                          'a remote error raised here is not handled per URL: it propagates uncaught through %s and stops the crawl' % where,
                          f.loc(c))
    if n_sites < 8:
        ck.bad('C09-D2', 'wpull.processor', 'protocol session call sites', 'only %d session call sites found (expected >= 8)' % n_sites)

    # ------------------------------------------------------------------ D3
    n_rl = 0
    for f in repo.funcs.values():
        if not f.module.name.startswith(('wpull.protocol.http', 'wpull.protocol.ftp')):
            continue
        pm = None
        for c in U.calls(f.node, attr='readline'):
            recv = norm_text(c.func.value)
            if 'connection' not in recv.lower():
                continue
            n_rl += 1
            pm = pm or U.parents(f.node)
            ok = False
            for a in U.ancestors(c, pm):
                if isinstance(a, ast.Try) and any(c is x for b in a.body for x in ast.walk(b)):
                    for h in a.handlers:
                        ts = esc.handler_types(f, h)
                        if any(esc.is_sub('ValueError', t) for t in ts):
                            raised = [r for r in ast.walk(h) if isinstance(r, ast.Raise) and r.exc is not None]
                            ok = bool(raised) and all(any(esc.is_sub(repo.canon_exc(f.module, (r.exc.func if isinstance(r.exc, ast.Call) else r.exc)) or '', hh)
                                                          for hh in handled) for r in raised) and U.all_paths_raise(h.body)
            ck.expect(ok, 'C09-D3', f.qual, '%s: ValueError -> ProtocolError' % norm_text(c),
                      'an over-long line makes StreamReader.readline raise ValueError here and it is not converted on every path of the '
                      'handler (the header reader and the chunk-size reader do): a bare ValueError ends the crawl, and a handler that carries '
                      'on reads from a stream whose buffer StreamReader has cut at an arbitrary, segmentation-dependent point', f.loc(c))
    if n_rl < 5:
        ck.bad('C09-D3', 'wpull.protocol', 'connection.readline() sites', 'only %d readline sites found (expected >= 5)' % n_rl)
    n_z = 0
    for f in repo.funcs.values():
        if f.module.name != 'wpull.protocol.http.stream':
            continue
        pm = None
        for c in U.calls(f.node):
            if U.attr_name(c) in ('decompress', 'flush') and 'decompressor' in norm_text(c.func.value).lower():
                n_z += 1
                pm = pm or U.parents(f.node)
                ok = False
                for a in U.ancestors(c, pm):
                    if isinstance(a, ast.Try) and any(c is x for b in a.body for x in ast.walk(b)):
                        for h in a.handlers:
                            if any(esc.is_sub('zlib.error', t) for t in esc.handler_types(f, h)):
                                raised = [r for r in ast.walk(h) if isinstance(r, ast.Raise) and r.exc is not None]
                                ok = bool(raised) and all('ProtocolError' in norm_text(r.exc) for r in raised)
                ck.expect(ok, 'C09-D3', f.qual, '%s: zlib.error -> ProtocolError' % norm_text(c),
                          'a corrupt compressed body raises zlib.error here without conversion', f.loc(c))
    if n_z < 2:
        ck.bad('C09-D3', 'wpull.protocol.http.stream', 'decompressor call sites', 'only %d decompressor sites found (expected 2)' % n_z)

    from .common import redirect_target_guarded_rule
    redirect_target_guarded_rule(ctx, 'C09-D3')
    from .common import surrogate_to_strict_encode_lint
    n_sur = surrogate_to_strict_encode_lint(ctx, 'C09-D3')
    if n_sur < 2:
        raise AnalysisError('expected the surrogateescape decodes of the FTP recorder session among the lint\'s instances (found %d)' % n_sur)
    # the robots.txt fetch follows redirects itself (no URL filter stands in between, as it does for pages): a Location with a scheme
    # the HTTP client cannot fetch (mailto:, ftp:, data:) must be turned down before the session is started on it - the client would
    # hand host None to the connection pool, whose assertion is no per-URL error
    rf = repo.func('wpull.protocol.http.robots:RobotsTxtChecker.fetch_robots_txt')
    rcfg = ctx.cfg(rf)
    from .. import flow as F2
    rloops = [n for n in rcfg.nodes if n.kind == 'while' and any(U.attr_name(c) == 'done' for c in U.calls(n.stmt.test))]
    rstarts = [n for n in rcfg.stmt_nodes() if any(U.attr_name(c) == 'start' and 'session' in norm_text(c.func.value) for c in F2.node_calls(n))]
    if not rstarts:
        raise AnalysisError('fetch_robots_txt: session.start() not found')
    if rloops:
        def scheme_test(n):
            if n.kind != 'if':
                return False
            t = n.stmt.test
            has_scheme = any(isinstance(y, ast.Attribute) and y.attr == 'scheme' for y in ast.walk(t))
            nxt = any(isinstance(c, ast.Call) and U.attr_name(c) in ('next_request', 'next_location') for c in ast.walk(t)) or any(
                isinstance(y, ast.Name) and any(v is not None and any(isinstance(c, ast.Call) and U.attr_name(c) in ('next_request', 'next_location') for c in ast.walk(v))
                                                for v, k, st in U.local_defs(rf.node).get(y.id, [])) for y in ast.walk(t))
            verdict = any(isinstance(c, ast.Call) and U.attr_name(c) in ('consult_filters', 'test', 'test_info') for c in ast.walk(t))
            return (has_scheme and nxt) or verdict
        p_ = rcfg.find_path(rloops[0], lambda x: x in rstarts, edge_ok=F2.normal, stop=scheme_test)
        ck.expect(p_ is None, 'C09-D2', rf.qual, 'a redirect of robots.txt is followed only to a scheme the HTTP client can fetch',
                  'the loop restarts the session on whatever the Location names: `302 Location: mailto:a@b` for /robots.txt makes the client '
                  'ask the connection pool for host None, and its assertion error ends the crawl', rf.loc(rstarts[0].stmt))
    else:
        ck.ok('C09-D2', rf.qual, 'robots.txt is requested once (no redirect loop)')
    # the summaries above say what the connection layer raises; they hold only if its own error handlers cannot fail.  The one call in
    # them that can is os.strerror(<errno>): an OSError without errno (asyncio's ConnectionResetError('Connection lost'), a bare
    # ssl.SSLError) has errno None, and os.strerror(None) is a TypeError - raised inside the handler, past every per-URL conversion.
    # Each such call is control-dependent on a test of the very value it is given
    n_se = 0
    for f in repo.funcs.values():
        if f.module.name != 'wpull.network.connection':
            continue
        fpm = None
        for c in U.calls(f.node):
            if (dotted(c.func) or '') != 'os.strerror' or not c.args:
                continue
            n_se += 1
            fpm = fpm or U.parents(f.node)
            arg = norm_text(c.args[0])
            ok_ = False
            cur = c
            def _neg(t):
                # the test is false only when the value is truthy: `not v`, `v is None`, `v == None`, `v in (None, 0)`
                if isinstance(t, ast.UnaryOp) and isinstance(t.op, ast.Not):
                    return any(norm_text(y) == arg for y in ast.walk(t.operand))
                if isinstance(t, ast.Compare) and len(t.ops) == 1 and isinstance(t.ops[0], (ast.Is, ast.Eq)) and norm_text(t.left) == arg \
                        and isinstance(t.comparators[0], ast.Constant) and t.comparators[0].value in (None, 0):
                    return True
                return False
            for a in U.ancestors(c, fpm):
                if isinstance(a, ast.If):
                    in_body = any(cur is x or any(cur is y for y in ast.walk(x)) for x in a.body)
                    in_else = any(cur is x or any(cur is y for y in ast.walk(x)) for x in a.orelse)
                    if in_body and any(norm_text(y) == arg for y in ast.walk(a.test)) and not _neg(a.test):
                        ok_ = True
                    if in_else and _neg(a.test):
                        ok_ = True
                cur = a
            ck.expect(ok_, 'C09-D3', f.qual, 'os.strerror(%s) only under a test of %s' % (arg, arg),
                      'os.strerror(%s) is evaluated for every OSError that reaches the handler: one without an errno (a reset reported by '
                      'asyncio as ConnectionResetError(\'Connection lost\'), a bare ssl.SSLError) makes it raise TypeError inside the handler and the '
                      'error leaves the connection layer unconverted' % arg, f.loc(c))
    if n_se < 1:
        raise AnalysisError('run_network_operation: no os.strerror call found in its OSError handler')
    # a listing may name a link without saying where it points (MLSD `type=symlink; name`): FileEntry.dest is None then.  The target
    # handed to os.symlink is tested first, or TypeError is among what the handler around the call expects
    ms = repo.func('wpull.processor.ftp:FTPProcessorSession._make_symlink')
    from ..escape import guarded_truthy
    mpm = U.parents(ms.node)
    n_sl = 0
    for c in U.calls(ms.node):
        if (dotted(c.func) or '') != 'os.symlink' or not c.args:
            continue
        n_sl += 1
        tgt = c.args[0]
        tested = isinstance(tgt, ast.Name) and guarded_truthy(ms.node, tgt.id, c)
        handled_te = False
        for a in U.ancestors(c, mpm):
            if isinstance(a, ast.Try) and any(c is x for b in a.body for x in ast.walk(b)):
                for h in a.handlers:
                    ts = [norm_text(t) for t in (h.type.elts if isinstance(h.type, ast.Tuple) else [h.type])] if h.type is not None else ['BaseException']
                    if any(t in ('TypeError', 'Exception', 'BaseException') for t in ts):
                        handled_te = True
        ck.expect(tested or handled_te, 'C09-D2', ms.qual, 'the link target from the listing is tested before os.symlink (or TypeError handled)',
                  'a listing line that names a symbolic link without a target (`type=symlink; name`) gives dest None: os.symlink(None, ...) raises '
                  'TypeError outside every per-URL handler and the crawl stops', ms.loc(c))
    if n_sl < 1:
        raise AnalysisError('_make_symlink: os.symlink call not found')
    # the processors give a response its body only after the file writer had its say on the header (`if not response.body:
    # response.body = Body(...)`), and the writer may refuse with a per-URL error (--continue, server ignores Range).  The handlers
    # of that try therefore meet a response whose body is still None: every `<response>.body.<x>` in them is guarded by the body
    n_h = 0
    for f in repo.funcs.values():
        if f.module.name not in ('wpull.processor.web', 'wpull.processor.ftp'):
            continue
        for tr in [x for x in walk_no_nested(f.node) if isinstance(x, ast.Try)]:
            late = [st for st in ast.walk(ast.Module(body=tr.body, type_ignores=[])) if isinstance(st, ast.Assign) and any(
                isinstance(t, ast.Attribute) and t.attr == 'body' and isinstance(t.value, ast.Name) for t in st.targets)]
            if not late:
                continue
            var = next(t.value.id for t in late[0].targets if isinstance(t, ast.Attribute))
            calls_before = [c for st in tr.body for c in U.calls(st) if c.lineno < late[0].lineno and U.attr_name(c) not in ('debug', 'info')]
            if not calls_before:
                continue
            for h in tr.handlers:
                pm = U.parents(h)
                for x in ast.walk(h):
                    if isinstance(x, ast.Attribute) and isinstance(x.value, ast.Attribute) and x.value.attr == 'body' and isinstance(x.value.value, ast.Name) \
                            and x.value.value.id == var:
                        n_h += 1
                        guarded = False
                        for a in U.ancestors(x, pm):
                            if isinstance(a, ast.If) and any(isinstance(y, ast.Attribute) and y.attr == 'body' and isinstance(y.value, ast.Name) and y.value.id == var
                                                             for y in ast.walk(a.test)):
                                guarded = True
                            if isinstance(a, ast.BoolOp) and isinstance(a.op, ast.And) and any(
                                    isinstance(y, ast.Attribute) and y.attr == 'body' and y is not x.value for v in a.values for y in ast.walk(v)):
                                guarded = True
                        ck.expect(guarded, 'C09-D2', f.qual, '%s.body.%s in the handler is guarded by the body' % (var, x.attr),
                                  'the handler runs `%s.body.%s` although the error may come from before the body was created (the file writer '
                                  'refusing the response header: --continue and a 200/416 answer): AttributeError on None leaves the processor and the '
                                  'crawl stops' % (var, x.attr), f.loc(x))
    if n_h < 2:
        raise AnalysisError('expected body clean-up in the error handlers of the web and FTP processors (found %d)' % n_h)

    # ------------------------------------------------------------------ D6
    from .. import flow as F
    n_close = 0
    for f in repo.funcs.values():
        if f.module.name not in ('wpull.protocol.http.stream', 'wpull.protocol.http.chunked', 'wpull.protocol.ftp.stream'):
            continue
        cfg = ctx.cfg(f)
        closes = [n for n in cfg.nodes if n.kind == 'stmt' and any(norm_text(c) in ('self.close()', 'self._connection.close()') for c in F.node_calls(n))]
        for cn in closes:
            n_close += 1

            def is_read(m):
                return any(U.attr_name(c) in ('read', 'readline') and 'connection' in norm_text(c.func.value).lower() for c in F.node_calls(m))

            def is_reopen(m):
                return any(U.attr_name(c) in ('reconnect', 'connect', 'reset') for c in F.node_calls(m))
            # facts established on the way into the close: the dominating branch conditions
            init = {}
            pm = U.parents(f.node)
            child = cn.stmt
            for a in U.ancestors(cn.stmt, pm):
                if isinstance(a, ast.If):
                    inbody = any(child is x for x in a.body)
                    for name, c, allowed in F._constraints(a.test, inbody):
                        init[(name, c)] = frozenset(allowed)
                    break
                child = a
            p = F.feasible_path(cfg, cn, is_read, stop=is_reopen, init=init)
            ck.expect(p is None, 'C09-D6', f.qual, 'no connection read after %s' % norm_text(cn.stmt),
                      'after the connection is closed (%s) a feasible path reaches another read on it: BaseConnection.read asserts '
                      'the connection state, so an AssertionError (not a per-URL error) ends the crawl' % norm_text(cn.stmt),
                      f.loc(cn.stmt), path=None if p is None else ' '.join('%s@L%s' % (n.kind, n.lineno) for n, _ in p[-8:]))
    if n_close < 1:
        ck.bad('C09-D6', 'wpull.protocol.http.stream', 'close() sites in the body readers', 'no close() site found in the stream readers (expected the overrun cut)')
