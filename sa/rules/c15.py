"""C15 - downloaded files are always written inside the download directory.

Sanitiser dominance with decode-before-sanitise (D1), the sanitiser's own content as
decision tables over a concrete finite domain (D2), non-empty components (D3) and the
enumeration of every filesystem-creating sink in writer.py / processor/** (D4).
DESIGN.md section 3, C15-D1..D4.  Not decided: the resolved filesystem path (symlinks
already on disk), Windows reserved names, host OS different from the configured os_type.
"""
import ast
import re
import string

from ..index import dotted, walk_no_nested, norm_text, AnalysisError
from .. import util as U
from ..dtable import Interp, txt

PATHM = 'wpull.path'
WRITER = 'wpull.writer'
SETUP = 'wpull.application.tasks.writer'
SAN_FN = PATHM + ':safe_filename'
SAN_WRAP = PATHM + ':PathNamer.safe_filename'
SEPS = '/\\'
OS_CONSTS = {'os.curdir': '.', 'os.pardir': '..', 'os.sep': '/', 'os.path.curdir': '.', 'os.path.pardir': '..',
             'os.path.sep': '/', 'posixpath.curdir': '.', 'posixpath.pardir': '..', 'posixpath.sep': '/'}
PURE_CALLEES = {'len', 'list', 'tuple', 'sorted', 'reversed', 'enumerate', 'str', 'repr', 'print', 'any', 'all', 'bool',
                'range', 'min', 'max', 'isinstance', 'zip', 'iter'}
LIST_KEEP = {'pop', 'remove', 'clear', 'reverse', 'sort', 'index', 'count', 'copy'}

# filesystem-creating calls: dotted name -> (index of the created path, keyword)
SINKS = {
    'open': (0, 'file'), 'io.open': (0, 'file'), 'codecs.open': (0, 'filename'), 'os.open': (0, 'path'),
    'gzip.open': (0, 'filename'), 'bz2.open': (0, 'filename'), 'lzma.open': (0, 'filename'), 'gzip.GzipFile': (0, 'filename'),
    'os.makedirs': (0, 'name'), 'os.mkdir': (0, 'path'),
    'os.symlink': (1, 'dst'), 'os.link': (1, 'dst'),
    'os.rename': (1, 'dst'), 'os.replace': (1, 'dst'), 'os.renames': (1, 'new'),
    'shutil.move': (1, 'dst'), 'shutil.copy': (1, 'dst'), 'shutil.copy2': (1, 'dst'),
    'shutil.copyfile': (1, 'dst'), 'shutil.copytree': (1, 'dst'),
}
OPENERS = {'open', 'io.open', 'codecs.open', 'gzip.open', 'bz2.open', 'lzma.open', 'gzip.GzipFile'}


def _has_sep(s):
    return any(c in s for c in SEPS) or any(ord(c) < 32 for c in s)


def _safe_const_name(s):
    """A constant usable as a whole component: non-empty, not dot-only, no separator/control."""
    return isinstance(s, str) and s != '' and s.strip('.') != '' and not _has_sep(s)


def _ctor_fields(repo, ci):
    """field -> constructor parameter name, for `self.f = param` stores in __init__ (through the MRO)."""
    init = repo.find_method(ci, '__init__')
    out = {}
    if init is None:
        return out, None
    a = init.node.args
    names = [x.arg for x in a.posonlyargs + a.args + a.kwonlyargs]
    for n in walk_no_nested(init.node):
        if isinstance(n, ast.Assign) and len(n.targets) == 1 and U.is_self_attr(n.targets[0]) \
                and isinstance(n.value, ast.Name) and n.value.id in names:
            out[n.targets[0].attr] = n.value.id
    return out, init


def _param_default(fi, name):
    a = fi.node.args
    pos = a.posonlyargs + a.args
    for arg, d in zip(pos[len(pos) - len(a.defaults):], a.defaults):
        if arg.arg == name:
            return d
    for arg, d in zip(a.kwonlyargs, a.kw_defaults):
        if arg.arg == name:
            return d
    return None


def _bind(fi, call, name, skip_first=0):
    """Argument expression a call passes for parameter `name` of fi (None if not passed).
    skip_first: leading positional arguments of the call that are not parameters of fi
    (the class-map key of factory.new)."""
    a = fi.node.args
    pos = [x.arg for x in a.posonlyargs + a.args]
    if fi.cls is not None and pos and pos[0] in ('self', 'cls'):
        pos = pos[1:]
    for k in call.keywords:
        if k.arg == name:
            return k.value
    if name in pos:
        i = pos.index(name) + skip_first
        if i < len(call.args) and not any(isinstance(x, ast.Starred) for x in call.args[:i + 1]):
            return call.args[i]
    return None


class A:
    """Shared facts of one run."""

    def __init__(self, ctx):
        self.ctx = ctx
        self.repo = ctx.repo
        self.res = ctx.res
        self.ck = ctx.check
        self.san_quals = {SAN_FN, SAN_WRAP}
        self._sites = None
        self._defs = {}

    def defs(self, fi):
        if fi.qual not in self._defs:
            self._defs[fi.qual] = U.local_defs(fi.node)
        return self._defs[fi.qual]

    # -- sanitiser ---------------------------------------------------------------
    def is_san(self, fi, call):
        if not isinstance(call, ast.Call) or U.attr_name(call) != 'safe_filename':
            return False
        if not call.args and not any(k.arg in ('filename', 'part') for k in call.keywords):
            return False
        # typed resolution first; last resort is the repository-unique method name (E4)
        fs = self.res.callee_funcs(fi, call, allow_name=True, count=False)
        return bool(fs) and all(f.qual in self.san_quals for f in fs)

    def is_san_ref(self, fi, expr):
        """expr denotes the sanitiser function itself (for map(...))."""
        if U.is_self_attr(expr) and fi.cls is not None:
            m = self.repo.find_method(fi.cls, expr.attr)
            return m is not None and m.qual in self.san_quals
        d = dotted(expr)
        if d:
            r = self.repo.resolve_name(fi.module, d)
            return bool(r) and r[0] == 'func' and r[1].qual in self.san_quals
        return False

    def resolves_to(self, fi, call, qual):
        d = dotted(call.func)
        if not d:
            return False
        r = self.repo.resolve_name(fi.module, d)
        return bool(r) and r[0] == 'func' and r[1].qual == qual

    # -- call sites by callee name -------------------------------------------------
    def funcs_mentioning(self, word):
        """Functions of modules whose source mentions `word` (cheap pre-filter for repo-wide call searches)."""
        for f in self.repo.funcs.values():
            if 'thirdparty' in f.module.name or word not in f.module.src:
                continue
            yield f

    def call_sites(self, fi):
        if self._sites is None:
            self._sites = {}
        if fi.name not in self._sites:
            out = []
            for f in self.funcs_mentioning(fi.name):
                for c in U.calls(f.node):
                    if U.attr_name(c) == fi.name:
                        out.append((f, c))
            self._sites[fi.name] = out
        out = []
        for f, c in self._sites[fi.name]:
            if fi.cls is not None and not isinstance(c.func, ast.Attribute):
                continue
            out.append((f, c))
        return out


# ======================================================================== path provenance
class Paths:
    """Classification of an expression used as (part of) a local path:
    PATH   a path inside the download root built only from the configured root, sanitised
           components and constant suffixes
    NAME   one sanitised component (direct sanitiser result, or a component split off a PATH)
    SUFFIX constant / counter / configuration text without a separator
    NONE   the constant None;  BAD anything else (with the reason)."""

    def __init__(self, a, path_fields):
        self.a = a
        self.path_fields = path_fields      # class qual -> set of field names holding a PATH

    def bad(self, why):
        return ('BAD', why)

    def classify(self, fi, e, assume=None, seen=frozenset(), depth=0):
        a = self.a
        if depth > 16:
            return self.bad('expression too deep')
        if e is None:
            return self.bad('missing argument')
        if isinstance(e, ast.Constant):
            if e.value is None:
                return ('NONE', '')
            if isinstance(e.value, (str, int)) and not isinstance(e.value, bool):
                s = str(e.value)
                if _has_sep(s):
                    return self.bad('constant %r contains a separator or control character' % s)
                return ('SUFFIX', '')
            return self.bad('constant %r' % (e.value,))
        if isinstance(e, ast.Name):
            return self._name(fi, e.id, assume, seen, depth)
        if isinstance(e, ast.Attribute):
            if U.is_self_attr(e) and fi.cls is not None and any(
                    e.attr in self.path_fields.get(c.qual, ()) for c in a.repo.mro(fi.cls)):
                return ('PATH', '')
            d = dotted(e) or ''
            if d.startswith('self._params.'):
                return ('SUFFIX', '')          # run configuration, not server data
            return self.bad('`%s` is not a sanitised name' % norm_text(e))
        if isinstance(e, ast.BoolOp) and isinstance(e.op, ast.Or) and len(e.values) == 2 \
                and isinstance(e.values[1], (ast.Tuple, ast.List)) and not e.values[1].elts:
            return self.classify(fi, e.values[0], assume, seen, depth + 1)
        if isinstance(e, ast.IfExp):
            x = self.classify(fi, e.body, assume, seen, depth + 1)
            y = self.classify(fi, e.orelse, assume, seen, depth + 1)
            return self._combine([x, y])
        if isinstance(e, ast.BinOp) and isinstance(e.op, ast.Add):
            x = self.classify(fi, e.left, assume, seen, depth + 1)
            y = self.classify(fi, e.right, assume, seen, depth + 1)
            if x[0] == 'BAD':
                return x
            if y[0] == 'BAD':
                return y
            if y[0] != 'SUFFIX':
                return self.bad('`%s` appended to a path is not a constant suffix' % norm_text(e.right))
            if x[0] in ('PATH', 'ASSUMED'):
                return ('PATH', '')
            if x[0] == 'SUFFIX':
                return ('SUFFIX', '')
            return self.bad('`%s` is not a path' % norm_text(e.left))
        if isinstance(e, ast.BinOp) and isinstance(e.op, ast.Mod) and isinstance(e.left, ast.Constant) \
                and isinstance(e.left.value, str):
            args = list(e.right.elts) if isinstance(e.right, ast.Tuple) else [e.right]
            pieces = e.left.value.split('%s')
            if len(pieces) != len(args) + 1 or '%' in ''.join(pieces).replace('%%', ''):
                return self.bad('unsupported %%-format `%s`' % norm_text(e))
            return self._template(fi, e, [(p, x) for p, x in zip(pieces, args)] + [(pieces[-1], None)], assume, seen, depth)
        if isinstance(e, ast.Subscript) and isinstance(e.value, ast.Call) and dotted(e.value.func) == 'os.path.split' \
                and isinstance(e.slice, ast.Constant) and e.slice.value in (0, 1) and e.value.args:
            x = self.classify(fi, e.value.args[0], assume, seen, depth + 1)
            if x[0] in ('PATH', 'ASSUMED'):
                return ('PATH' if e.slice.value == 0 else 'NAME', '')
            return x if x[0] == 'BAD' else self.bad('os.path.split of a non-path')
        if isinstance(e, ast.Call):
            return self._call(fi, e, assume, seen, depth)
        return self.bad('`%s` is not a sanitised path expression' % norm_text(e))

    # ------------------------------------------------------------------ pieces
    def _combine(self, rs):
        for r in rs:
            if r[0] == 'BAD':
                return r
        kinds = {r[0] for r in rs} - {'ASSUMED', 'AUG', 'NONE'}
        if not kinds:
            if any(r[0] == 'NONE' for r in rs):
                return ('NONE', '')
            return self.bad('circular definition without a base value')
        if len(kinds) > 1:
            return self.bad('definitions of different kinds: %s' % sorted(kinds))
        return (kinds.pop(), '')

    def _name(self, fi, nm, assume, seen, depth):
        if assume and nm in assume:
            return (assume[nm], '')
        key = (fi.qual, nm)
        if key in seen:
            return ('ASSUMED', '')
        ds = self.a.defs(fi).get(nm)
        if not ds:
            return self.bad('`%s` is not defined in %s' % (nm, fi.local))
        seen = seen | {key}
        rs = []
        for v, kind, stmt in ds:
            if kind == 'param':
                rs.append(self._param(fi, nm, seen, depth))
            elif kind == 'assign':
                rs.append(self.classify(fi, v, assume, seen, depth + 1))
            elif kind == 'aug':
                r = self.classify(fi, v, assume, seen, depth + 1)
                if r[0] == 'BAD':
                    rs.append(r)
                elif r[0] == 'SUFFIX' and isinstance(stmt.op, ast.Add):
                    rs.append(('AUG', ''))
                else:
                    rs.append(self.bad('`%s` is extended with `%s`, not a constant suffix' % (nm, norm_text(v))))
            elif kind.startswith('tuple:'):
                i = int(kind.split(':')[1])
                if isinstance(v, ast.Call) and dotted(v.func) == 'os.path.split' and v.args and i in (0, 1):
                    r = self.classify(fi, v.args[0], assume, seen, depth + 1)
                    if r[0] in ('PATH', 'ASSUMED'):
                        rs.append(('PATH' if i == 0 else 'NAME', ''))
                    else:
                        rs.append(r if r[0] == 'BAD' else self.bad('os.path.split of a non-path'))
                else:
                    rs.append(self.bad('`%s` unpacked from `%s`' % (nm, norm_text(v))))
            elif kind == 'for':
                d = dotted(v.func) if isinstance(v, ast.Call) else None
                if d in ('itertools.count', 'range'):
                    rs.append(('SUFFIX', ''))
                else:
                    r = self.classify(fi, v, assume, seen, depth + 1)
                    rs.append(r if r[0] in ('SUFFIX', 'BAD') else self.bad('`%s` iterates over `%s`' % (nm, norm_text(v))))
            else:
                rs.append(self.bad('`%s` bound by %s' % (nm, kind)))
        return self._combine(rs)

    def _param(self, fi, nm, seen, depth):
        sites = self.a.call_sites(fi)
        if not sites:
            return self.bad('parameter `%s` of %s has no visible caller' % (nm, fi.local))
        default = _param_default(fi, nm)
        rs = []
        for cfi, call in sites:
            arg = _bind(fi, call, nm)
            if arg is None:
                if default is None:
                    rs.append(self.bad('parameter `%s` not bound at %s' % (nm, cfi.loc(call))))
                    continue
                r = self.classify(fi, default, None, seen, depth + 1)
            else:
                r = self.classify(cfi, arg, None, seen, depth + 1)
            if r[0] == 'BAD':
                r = self.bad('parameter `%s` <- `%s` in %s [%s]: %s' % (
                    nm, norm_text(arg) if arg is not None else 'default', cfi.local, cfi.loc(call), r[1]))
            rs.append(r)
        return self._combine(rs)

    def _template(self, fi, e, chunks, assume, seen, depth):
        """chunks: [(literal_before, arg_expr or None)]"""
        kinds = []
        for i, (lit, arg) in enumerate(chunks):
            if _has_sep(lit):
                return self.bad('template `%s` contains a separator' % norm_text(e)[:60])
            if arg is None:
                continue
            r = self.classify(fi, arg, assume, seen, depth + 1)
            if r[0] == 'BAD':
                return r
            kinds.append((i, lit, r[0]))
        if not kinds:
            return ('SUFFIX', '')
        if all(k == 'SUFFIX' for _, _, k in kinds):
            return ('SUFFIX', '')
        i0, lit0, k0 = kinds[0]
        if k0 in ('PATH', 'ASSUMED') and lit0 == '' and i0 == 0 and all(k == 'SUFFIX' for _, _, k in kinds[1:]):
            return ('PATH', '')
        return self.bad('`%s` mixes a path with non-constant text' % norm_text(e)[:80])

    def _format_chunks(self, call):
        tmpl = call.func.value.value
        try:
            parsed = list(string.Formatter().parse(tmpl))
        except ValueError:
            return None
        auto = 0
        chunks = []
        for lit, fname, spec, conv in parsed:
            if fname is None:
                chunks.append((lit, None))
                continue
            if fname == '':
                fname = str(auto)
                auto += 1
            if fname.isdigit():
                i = int(fname)
                arg = call.args[i] if i < len(call.args) else None
            else:
                arg = U.kwarg(call, fname)
                if not fname.isidentifier():
                    return None
            if arg is None or isinstance(arg, ast.Starred):
                return None
            chunks.append((lit, arg))
        return chunks

    def _call(self, fi, c, assume, seen, depth):
        a = self.a
        d = dotted(c.func) or ''
        an = U.attr_name(c)

        def sub(x):
            return self.classify(fi, x, assume, seen, depth + 1)
        if a.is_san(fi, c):
            return ('NAME', '')
        if an == 'format' and isinstance(c.func, ast.Attribute) and isinstance(c.func.value, ast.Constant) \
                and isinstance(c.func.value.value, str):
            chunks = self._format_chunks(c)
            if chunks is None:
                return self.bad('unsupported format template `%s`' % norm_text(c)[:60])
            return self._template(fi, c, chunks, assume, seen, depth)
        if an == 'get_filename' and isinstance(c.func, ast.Attribute):
            fs = a.res.callee_funcs(fi, c, allow_name=False, count=False)
            if fs and all(f.qual in a.namer_funcs for f in fs):
                return ('PATH', '')
            return self.bad('`%s` does not resolve to a checked path namer' % norm_text(c.func))
        if an == '_compute_filename' and isinstance(c.func, ast.Attribute) and isinstance(c.func.value, ast.Name) \
                and c.func.value.id == 'self':
            return ('PATH', '')
        if an == 'extra_resource_path' and isinstance(c.func, ast.Attribute):
            r = sub(c.args[0] if c.args else U.kwarg(c, 'suffix'))
            if r[0] == 'BAD':
                return r
            return ('PATH', '') if r[0] == 'SUFFIX' else self.bad('extra_resource_path suffix is not constant')
        if d == 'os.path.join' and c.args and not c.keywords:
            r = sub(c.args[0])
            if r[0] == 'BAD':
                return r
            if r[0] not in ('PATH', 'ASSUMED'):
                return self.bad('os.path.join: first argument `%s` is not a path inside the root' % norm_text(c.args[0]))
            for x in c.args[1:]:
                if isinstance(x, ast.Starred):
                    return self.bad('os.path.join: starred components `%s`' % norm_text(x))
                r = sub(x)
                if r[0] == 'BAD':
                    return self.bad('os.path.join: component `%s`: %s' % (norm_text(x), r[1]))
                if r[0] not in ('NAME', 'ASSUMED'):
                    return self.bad('os.path.join: component `%s` is not a sanitiser result' % norm_text(x))
            return ('PATH', '')
        if d in ('os.path.dirname', 'os.path.normpath', 'os.path.abspath', 'os.path.realpath') and len(c.args) == 1:
            r = sub(c.args[0])
            return ('PATH', '') if r[0] in ('PATH', 'ASSUMED') else (r if r[0] == 'BAD' else self.bad('%s of a non-path' % d))
        if d == 'os.path.basename' and len(c.args) == 1:
            r = sub(c.args[0])
            return ('NAME', '') if r[0] in ('PATH', 'ASSUMED') else (r if r[0] == 'BAD' else self.bad('basename of a non-path'))
        if a.resolves_to(fi, c, PATHM + ':anti_clobber_dir_path') and c.args:
            r = sub(c.args[0])
            if r[0] not in ('PATH', 'ASSUMED'):
                return r if r[0] == 'BAD' else self.bad('anti_clobber_dir_path of a non-path')
            s = U.kwarg(c, 'suffix', 1)
            if s is not None:
                r = sub(s)
                if r[0] != 'SUFFIX':
                    return r if r[0] == 'BAD' else self.bad('anti_clobber_dir_path suffix is not constant')
            return ('PATH', '')
        if d == 'str' and len(c.args) == 1:
            r = sub(c.args[0])
            return r if r[0] in ('SUFFIX', 'BAD') else self.bad('str() of a non-constant')
        return self.bad('result of `%s` is not a sanitised path' % norm_text(c)[:70])


# ======================================================================== component-list dataflow
class ListFlow:
    """Forward dataflow over the CFG of a path-building function.  Abstract values:
    SAN (a direct sanitiser result), SANLIST (every element is SAN and nothing was applied
    to it afterwards), JOINOK (os.path.join(root, sanitised components)), RAW (anything
    else: undecoded/unsanitised text, or text transformed after sanitising)."""

    def __init__(self, a, fi, root_ok):
        self.a = a
        self.fi = fi
        self.root_ok = root_ok
        self.why = {}

    def kind(self, e, env):
        a, fi = self.a, self.fi
        if isinstance(e, ast.Name):
            return env.get(e.id, 'RAW')
        if isinstance(e, ast.Call):
            if a.is_san(fi, e):
                return 'SAN'
            d = dotted(e.func) or ''
            if d in ('list', 'tuple') and len(e.args) == 1 and not e.keywords:
                inner = e.args[0]
                if isinstance(inner, ast.Call) and dotted(inner.func) == 'map' and len(inner.args) == 2 \
                        and a.is_san_ref(fi, inner.args[0]):
                    return 'SANLIST'
                return 'SANLIST' if self.kind(inner, env) == 'SANLIST' else 'RAW'
            if d == 'os.path.join':
                return self.join_kind(e, env)
            return 'RAW'
        if isinstance(e, (ast.List, ast.Tuple)):
            ok = all((self.kind(x.value, env) == 'SANLIST') if isinstance(x, ast.Starred) else (self.kind(x, env) == 'SAN')
                     for x in e.elts)
            return 'SANLIST' if ok else 'RAW'
        if isinstance(e, (ast.ListComp, ast.GeneratorExp)):
            if len(e.generators) != 1 or not isinstance(e.generators[0].target, ast.Name):
                return 'RAW'
            g = e.generators[0]
            env2 = dict(env)
            env2[g.target.id] = 'SAN' if self.kind(g.iter, env) == 'SANLIST' else 'RAW'
            return 'SANLIST' if self.kind(e.elt, env2) == 'SAN' else 'RAW'
        if isinstance(e, ast.BinOp) and isinstance(e.op, ast.Add):
            return 'SANLIST' if self.kind(e.left, env) == 'SANLIST' and self.kind(e.right, env) == 'SANLIST' else 'RAW'
        if isinstance(e, ast.Subscript):
            if self.kind(e.value, env) == 'SANLIST':
                return 'SANLIST' if isinstance(e.slice, ast.Slice) else 'SAN'
            return 'RAW'
        if isinstance(e, ast.IfExp):
            x, y = self.kind(e.body, env), self.kind(e.orelse, env)
            return x if x == y else 'RAW'
        return 'RAW'

    def join_kind(self, c, env):
        key = norm_text(c)
        if not c.args or c.keywords:
            self.why[key] = 'os.path.join without a root'
            return 'RAW'
        if not self.root_ok(c.args[0]):
            self.why[key] = 'first argument `%s` is not the configured root' % norm_text(c.args[0])
            return 'RAW'
        if len(c.args) < 2:
            self.why[key] = 'no component joined below the root'
            return 'RAW'
        for x in c.args[1:]:
            if isinstance(x, ast.Starred):
                if self.kind(x.value, env) != 'SANLIST':
                    self.why[key] = 'components `%s` reach os.path.join without every element being a direct ' \
                        'safe_filename() result (unsanitised, or decoded/extended after sanitising)' % norm_text(x.value)
                    return 'RAW'
            elif self.kind(x, env) != 'SAN':
                self.why[key] = 'component `%s` is not a direct safe_filename() result' % norm_text(x)
                return 'RAW'
        return 'JOINOK'

    def transfer(self, node, env):
        env = dict(env)
        s = node.stmt
        if node.kind == 'for':
            for t in ast.walk(s.target):
                if isinstance(t, ast.Name):
                    env[t.id] = 'SAN' if self.kind(s.iter, env) == 'SANLIST' and t is s.target else 'RAW'
            return env
        if node.kind == 'with':
            for it in s.items:
                if it.optional_vars is not None:
                    for t in ast.walk(it.optional_vars):
                        if isinstance(t, ast.Name):
                            env[t.id] = 'RAW'
            return env
        if node.kind != 'stmt':
            return env
        # a tracked list handed to an unknown callee may be mutated there
        for c in U.calls(s):
            d = dotted(c.func) or ''
            if d in PURE_CALLEES or d.startswith('_logger.') or d.startswith('logging.') or d.startswith('os.path.') \
                    or self.a.is_san(self.fi, c):
                continue
            if isinstance(c.func, ast.Attribute) and isinstance(c.func.value, ast.Name) and c.func.value.id in env:
                continue    # method of the tracked variable itself: handled below
            for x in list(c.args) + [k.value for k in c.keywords]:
                x = x.value if isinstance(x, ast.Starred) else x
                if isinstance(x, ast.Name) and env.get(x.id) == 'SANLIST':
                    env[x.id] = 'RAW'
        if isinstance(s, (ast.Assign, ast.AnnAssign)):
            if s.value is None:
                return env
            k = self.kind(s.value, env)
            targets = s.targets if isinstance(s, ast.Assign) else [s.target]
            for t in targets:
                if isinstance(t, ast.Name):
                    env[t.id] = k
                elif isinstance(t, (ast.Tuple, ast.List)):
                    for x in ast.walk(t):
                        if isinstance(x, ast.Name):
                            env[x.id] = 'RAW'
                elif isinstance(t, ast.Subscript) and isinstance(t.value, ast.Name):
                    want = 'SANLIST' if isinstance(t.slice, ast.Slice) else 'SAN'
                    if not (env.get(t.value.id) == 'SANLIST' and k == want):
                        env[t.value.id] = 'RAW'
        elif isinstance(s, ast.AugAssign):
            if isinstance(s.target, ast.Name):
                ok = isinstance(s.op, ast.Add) and env.get(s.target.id) == 'SANLIST' and self.kind(s.value, env) == 'SANLIST'
                env[s.target.id] = 'SANLIST' if ok else 'RAW'
            elif isinstance(s.target, ast.Subscript) and isinstance(s.target.value, ast.Name):
                env[s.target.value.id] = 'RAW'
        elif isinstance(s, ast.Expr) and isinstance(s.value, ast.Call) and isinstance(s.value.func, ast.Attribute) \
                and isinstance(s.value.func.value, ast.Name):
            x, m, c = s.value.func.value.id, s.value.func.attr, s.value
            if env.get(x) == 'SANLIST':
                if m == 'append':
                    ok = len(c.args) == 1 and self.kind(c.args[0], env) == 'SAN'
                elif m == 'insert':
                    ok = len(c.args) == 2 and self.kind(c.args[1], env) == 'SAN'
                elif m == 'extend':
                    ok = len(c.args) == 1 and self.kind(c.args[0], env) == 'SANLIST'
                else:
                    ok = m in LIST_KEEP
                if not ok:
                    env[x] = 'RAW'
        return env

    @staticmethod
    def merge(a, b):
        if a is None:
            return dict(b)
        out = {}
        for k in set(a) | set(b):
            v = a.get(k, 'RAW')
            out[k] = v if v == b.get(k, 'RAW') else 'RAW'
        return out

    def run(self, cfg):
        IN = {cfg.entry.id: {}}
        work = [cfg.entry]
        while work:
            n = work.pop()
            out = self.transfer(n, IN[n.id])
            for d, k in n.succ:
                if d is cfg.xexit:
                    continue
                src = IN[n.id] if k.startswith('x:') else out
                new = self.merge(IN.get(d.id), src)
                if new != IN.get(d.id):
                    IN[d.id] = new
                    work.append(d)
        return IN


# ======================================================================== concrete evaluation of atoms
class _Unknown(Exception):
    pass


def _ceval(node, bind):
    t = txt(node)
    if t in bind:
        return bind[t]
    if isinstance(node, ast.Constant):
        return node.value
    if isinstance(node, (ast.Tuple, ast.List)):
        return tuple(_ceval(x, bind) for x in node.elts)
    if isinstance(node, ast.Set):
        return frozenset(_ceval(x, bind) for x in node.elts)
    if isinstance(node, ast.Attribute):
        d = dotted(node)
        if d in OS_CONSTS:
            return OS_CONSTS[d]
        raise _Unknown()
    if isinstance(node, ast.UnaryOp) and isinstance(node.op, ast.USub):
        return -_ceval(node.operand, bind)
    if isinstance(node, ast.Call) and isinstance(node.func, ast.Name) and len(node.args) == 1 and not node.keywords:
        v = _ceval(node.args[0], bind)
        if node.func.id == 'ord':
            return ord(v)
        if node.func.id == 'len':
            return len(v)
        raise _Unknown()
    if isinstance(node, ast.Subscript) and isinstance(node.slice, ast.Constant):
        return _ceval(node.value, bind)[node.slice.value]
    raise _Unknown()


_PARSED = {}


def _parse(text):
    if text not in _PARSED:
        _PARSED[text] = ast.parse(text, mode='eval').body
    return _PARSED[text]


def atom_value(key, bind):
    """Concrete value of a decision-table atom under `bind` (canonical text -> value), or
    None when the atom is not expressible over the bound names (then it stays free)."""
    try:
        if key[0] == 'T':
            return bool(_ceval(_parse(key[1]), bind))
        if key[0] == 'ord':
            x, y = _ceval(_parse(key[1]), bind), _ceval(_parse(key[2]), bind)
            if type(x) is not type(y):
                return None
            return 'lt' if x < y else ('eq' if x == y else 'gt')
        if key[0] == 'in':
            return _ceval(_parse(key[1]), bind) in _ceval(_parse(key[2]), bind)
    except (_Unknown, TypeError, ValueError, IndexError, SyntaxError):
        return None
    return None


def _consistent(leaf, known):
    for k, v in leaf.val.items():
        kv = known.get(k)
        if kv is not None and kv != v:
            return False
    return True


# ======================================================================== D2: the percent encoder
ENC_ROLES = ('unix', 'control', 'windows', 'ascii_')


def _escape_form(e):
    """`b'%' + <two hex digits of P0>`"""
    if not (isinstance(e, ast.BinOp) and isinstance(e.op, ast.Add) and isinstance(e.left, ast.Constant)
            and e.left.value == b'%'):
        return False
    r = e.right
    if isinstance(r, ast.Call) and isinstance(r.func, ast.Attribute) and r.func.attr == 'upper' and not r.args:
        r = r.func.value
    return isinstance(r, ast.Call) and dotted(r.func) in ('base64.b16encode', 'binascii.hexlify', 'binascii.b2a_hex') \
        and len(r.args) == 1 and txt(r.args[0]) == 'P0'


def check_encoder(a):
    repo, ck = a.repo, a.ck
    enc = repo.cls(PATHM + ':PercentEncoder')
    miss = repo.func(PATHM + ':PercentEncoder.__missing__')
    fields, init = _ctor_fields(repo, enc)
    if init is None or init.cls is not enc:
        raise AnalysisError('PercentEncoder.__init__ not found')
    iparams = [p for p in init.params if p != 'self'] + [x.arg for x in init.node.args.kwonlyargs]
    for r in ENC_ROLES:
        if r not in iparams:
            raise AnalysisError('PercentEncoder.__init__ has no parameter %r' % r)
    catom = {r: 'C%d' % iparams.index(r) for r in ENC_ROLES}
    it = Interp(repo, miss)
    leaves = it.leaves()
    params = [p for p in miss.params if p != 'self']
    if len(params) != 1:
        raise AnalysisError('PercentEncoder.__missing__: expected one parameter')

    def outcome(o):
        if o.kind != 'return' or o.value is None:
            return 'other:%s' % o.kind
        stores = [e for e in o.effects if e.startswith('self[P0] = ')]
        rv = txt(o.value)
        if any(e != 'self[P0] = ' + rv for e in stores):
            return 'other:cached value `%s` differs from the returned `%s`' % (stores[0][11:], rv)
        if _escape_form(o.value):
            return 'escape'
        if rv == 'P0':
            return 'keep'
        return 'other:returns `%s`' % rv
    outs = [outcome(o) for o in leaves]
    byte_atoms = [k for k in it.atoms if not (k[0] == 'T' and k[1] in catom.values())]
    per_byte = []
    for b in range(256):
        bind = {'P0': bytes([b])}
        per_byte.append({k: atom_value(k, bind) for k in byte_atoms})
    free = sorted({k for kb in per_byte for k, v in kb.items() if v is None} |
                  {k for k in it.atoms if k[0] == 'T' and k[1] not in catom.values()}, key=str)
    rows = 0
    mism = []
    idx = range(len(leaves))
    by_byte = [frozenset(i for i in idx if _consistent(leaves[i], kb)) for kb in per_byte]
    for os_type in ('unix', 'windows'):
        for control in (True, False):
            for ascii_ in (True, False):
                flags = {'unix': os_type == 'unix', 'windows': os_type == 'windows', 'control': control, 'ascii_': ascii_}
                fknown = {('T', catom[r]): v for r, v in flags.items()}
                by_flags = frozenset(i for i in idx if _consistent(leaves[i], fknown))
                for b in range(256):
                    must = (flags['unix'] and b == 0x2F) or (flags['windows'] and b in (0x5C, 0x2F, 0x3A)) \
                        or (control and (b <= 31 or b == 127 or (ascii_ and 128 <= b <= 159)))      # DEL is a control character too (Wget escapes it)
                    got = {outs[i] for i in by_flags & by_byte[b]}
                    rows += 1
                    if not got:
                        badrow = 'no table row'
                    elif any(g.startswith('other') for g in got):
                        badrow = sorted(g for g in got if g.startswith('other'))[0]
                    elif must and got != {'escape'}:
                        badrow = 'byte kept unescaped'
                    else:
                        badrow = None
                    if badrow:
                        mism.append((os_type, control, ascii_, b, badrow))
    if mism:
        first = mism[0]
        bytes_ = sorted({m[3] for m in mism})
        a.ck.bad('C15-D2', miss.qual, 'escape table of PercentEncoder.__missing__',
                 'the encoder leaves a byte that must be escaped (or returns something else than the byte / its %%XX escape): '
                 '%d of %d rows differ, e.g. os_type=%s no_control=%s ascii_only=%s byte 0x%02X -> %s; bytes affected: %s'
                 % (len(mism), rows, first[0], first[1], first[2], first[3], first[4],
                    ' '.join('0x%02X' % x for x in bytes_[:8]) + (' ...' if len(bytes_) > 8 else '')), miss.loc())
    else:
        ck.ok('C15-D2', miss.qual, 'escape table: %d concrete rows (2 os types x control x ascii x 256 bytes) over %d decision-tree '
              'leaves: "/" (unix), "\\ / :" (windows), C0, DEL and C1-under-ascii (control) always escaped as %%XX; free atoms: %s'
              % (rows, len(leaves), free or 'none'))
    # every byte goes through the map
    q = repo.func(PATHM + ':PercentEncoder.quote')
    okq = False
    qp = [p for p in q.params if p != 'self']
    for r in walk_no_nested(q.node):
        if not isinstance(r, ast.Return) or r.value is None:
            continue
        e = U.expand_locals(q.node, r.value)
        if isinstance(e, ast.Call) and isinstance(e.func, ast.Attribute) and e.func.attr == 'join' and len(e.args) == 1 \
                and isinstance(e.args[0], (ast.ListComp, ast.GeneratorExp)) and len(e.args[0].generators) == 1 \
                and not e.args[0].generators[0].ifs and qp:
            comp = e.args[0]
            g = comp.generators[0]
            v = norm_text(g.target)
            p = qp[0]
            elt, itx = norm_text(comp.elt), norm_text(g.iter)
            forms = {('self.__getitem__(%s[%s:%s + 1])' % (p, v, v), 'range(len(%s))' % p),
                     ('self[%s[%s:%s + 1]]' % (p, v, v), 'range(len(%s))' % p),
                     ('self[bytes([%s])]' % v, p), ('self[bytes((%s,))]' % v, p),
                     ('self.__getitem__(bytes([%s]))' % v, p)}
            okq = (elt, itx) in forms
    ck.expect(okq, 'C15-D2', q.qual, 'every byte of the name is mapped through the encoder table',
              'PercentEncoder.quote no longer maps every single byte through self[...]: bytes can bypass the escape table', q.loc())
    return iparams


# ======================================================================== D2: safe_filename
def _digest_slice(e):
    """<...>.hexdigest()[:k] with k >= 1 (or the whole digest)."""
    if isinstance(e, ast.Subscript) and isinstance(e.slice, ast.Slice) and e.slice.lower is None and e.slice.step is None \
            and isinstance(e.slice.upper, ast.Constant) and isinstance(e.slice.upper.value, int) and e.slice.upper.value >= 1:
        e = e.value
    return isinstance(e, ast.Call) and isinstance(e.func, ast.Attribute) and e.func.attr == 'hexdigest' and not e.args


def _post_base(e):
    """If e is a whitelisted post-encoding operation (case folding; re-assembly of slices
    of the name with hex digits) return the expression it is applied to, else None.
    Neither can introduce a separator, and a result that contains hex digits is not dot-only."""
    if isinstance(e, ast.Call) and isinstance(e.func, ast.Attribute) and e.func.attr in ('lower', 'upper', 'casefold') \
            and not e.args and not e.keywords:
        return e.func.value
    if isinstance(e, ast.Call) and isinstance(e.func, ast.Attribute) and e.func.attr == 'format' \
            and isinstance(e.func.value, ast.Constant) and isinstance(e.func.value.value, str) and not e.keywords:
        try:
            parsed = list(string.Formatter().parse(e.func.value.value))
        except ValueError:
            return None
        base = None
        hexed = False
        auto = 0
        for lit, fname, spec, conv in parsed:
            if _has_sep(lit) or '.' in lit:
                return None
            if fname is None:
                continue
            if fname == '':
                fname = str(auto)
                auto += 1
            if not fname.isdigit() or int(fname) >= len(e.args):
                return None
            arg = e.args[int(fname)]
            if _digest_slice(arg):
                hexed = True
                continue
            if isinstance(arg, ast.Call) and dotted(arg.func) == 'ord' and len(arg.args) == 1:
                arg = arg.args[0]
                if not (spec and spec[-1] in 'Xxd'):
                    return None
            if spec and spec[-1] in 'Xxdo':
                hexed = True
            if not isinstance(arg, ast.Subscript):
                return None
            if base is not None and txt(base) != txt(arg.value):
                return None
            base = arg.value
        return base if hexed else None
    # the same re-assembly spelled with + and %: slices of the name, separator-free constants and '%02X' % ord(name[k])
    if isinstance(e, ast.BinOp) and isinstance(e.op, ast.Add):
        parts, todo = [], [e]
        while todo:
            x = todo.pop()
            if isinstance(x, ast.BinOp) and isinstance(x.op, ast.Add):
                todo.extend([x.right, x.left])
            else:
                parts.append(x)
        base = None
        hexed = False
        for x in parts:
            if isinstance(x, ast.Constant) and isinstance(x.value, str):
                if _has_sep(x.value) or '.' in x.value:
                    return None
                continue
            if isinstance(x, ast.BinOp) and isinstance(x.op, ast.Mod) and isinstance(x.left, ast.Constant) and isinstance(x.left.value, str):
                fmt = x.left.value.replace('%%', '')
                if _has_sep(fmt) or '.' in fmt or not re.fullmatch(r'[^%]*%0?\d*[Xxd][^%]*', fmt):
                    return None
                arg = x.right
                if isinstance(arg, ast.Tuple) and len(arg.elts) == 1:
                    arg = arg.elts[0]
                if not (isinstance(arg, ast.Call) and dotted(arg.func) == 'ord' and len(arg.args) == 1 and isinstance(arg.args[0], ast.Subscript)):
                    return None
                x = arg.args[0]
                hexed = True
            if not isinstance(x, ast.Subscript):
                return None
            if base is not None and txt(base) != txt(x.value):
                return None
            base = x.value
        return base if hexed else None
    return None


def _core(e):
    """Strip post operations; classify what remains: ('const', s) | ('enc', subject, receiver) | ('other', text)."""
    while True:
        b = _post_base(e)
        if b is None:
            break
        e = b
    if isinstance(e, ast.Constant) and isinstance(e.value, str):
        return ('const', e.value, None)
    # <encoder>.quote(<subject>.encode(..)).decode(..)
    if isinstance(e, ast.Call) and isinstance(e.func, ast.Attribute) and e.func.attr == 'decode':
        q = e.func.value
        if isinstance(q, ast.Call) and isinstance(q.func, ast.Attribute) and q.func.attr == 'quote' and len(q.args) == 1:
            s = q.args[0]
            if isinstance(s, ast.Call) and isinstance(s.func, ast.Attribute) and s.func.attr == 'encode':
                return ('enc', s.func.value, q.func.value)
    return ('other', txt(e)[:80], None)


def check_safe_filename(a, enc_params):
    repo, ck = a.repo, a.ck
    sf = repo.func(SAN_FN)
    fn = sf.node
    where = sf.qual
    rets = [r for r in walk_no_nested(fn) if isinstance(r, ast.Return)]
    names = {r.value.id for r in rets if isinstance(r.value, ast.Name)}
    if len(names) != 1:
        ck.bad('C15-D2', where, 'single result variable', 'safe_filename does not return one result variable on every path '
               '(returns: %s)' % sorted(norm_text(r.value) if r.value is not None else 'None' for r in rets), sf.loc())
        return
    R = names.pop()
    for r in rets:
        ok = isinstance(r.value, ast.Name) or (r.value is not None and _is_post_of(r.value, R))
        ck.expect(ok, 'C15-D2', where, 'return %s' % R, 'safe_filename returns `%s`, which is not the sanitised result'
                  % (norm_text(r.value) if r.value is not None else 'None'), sf.loc(r),
                  okmsg='every return yields the result variable')
    # split the body: head = up to the last top-level statement holding a core assignment
    def assigns_to_R(stmt):
        out = []
        for n in walk_no_nested(stmt):
            if isinstance(n, ast.Assign) and any(isinstance(t, ast.Name) and t.id == R for t in n.targets):
                out.append(n)
            elif isinstance(n, ast.AugAssign) and isinstance(n.target, ast.Name) and n.target.id == R:
                out.append(n)
            elif isinstance(n, ast.Assign) and any(isinstance(x, ast.Name) and x.id == R and isinstance(x.ctx, ast.Store)
                                                   for t in n.targets for x in ast.walk(t)):
                out.append(n)
        return out

    def is_core(n):
        return isinstance(n, ast.Assign) and not any(isinstance(x, ast.Name) and x.id == R for x in ast.walk(n.value))
    last = -1
    for i, s in enumerate(fn.body):
        if any(is_core(n) for n in assigns_to_R(s)):
            last = i
    if last < 0:
        ck.bad('C15-D2', where, 'encoding stage', 'safe_filename has no statement that computes the escaped name', sf.loc())
        return
    # post stage: only whitelisted operations on R
    for s in fn.body[last + 1:]:
        for n in assigns_to_R(s):
            rhs = U.expand_locals(fn, n.value, skip=(R,)) if isinstance(n, ast.Assign) else None
            ok = rhs is not None and len(n.targets) == 1 and isinstance(n.targets[0], ast.Name) and _is_post_of(rhs, R)
            ck.expect(ok, 'C15-D2', where, norm_text(n),
                      'after encoding, the name is changed by `%s`, which is not case folding or length-capping with a '
                      'hex-digit suffix: it may re-introduce a separator or a dot-only name' % norm_text(n), sf.loc(n),
                      okmsg='post-encoding step `%s` cannot create a separator or dot name' % norm_text(n)[:70])
    # head: decision table
    params = [p for p in sf.params]
    ret = ast.parse('return %s' % R).body[0]
    it = Interp(repo, sf, body=list(fn.body[:last + 1]) + [ret])
    leaves = it.leaves()
    cores = [_core(o.value) if (o.kind == 'return' and o.value is not None) else ('other', o.kind, None) for o in leaves]
    others = [c for c in cores if c[0] == 'other']
    subjects = {txt(c[1]) for c in cores if c[0] == 'enc'}
    if others or len(subjects) != 1:
        ck.bad('C15-D2', where, 'result of the dot/encode stage',
               'a path through safe_filename yields `%s` instead of an escaped constant or encoder.quote(name.encode()).decode()'
               % (others[0][1] if others else 'encodings of %s' % sorted(subjects)), sf.loc())
        return
    S = subjects.pop()
    tbl_bad = []
    for name in ('.', '..', 'a', '...'):
        bind = {S: name}
        known = {k: atom_value(k, bind) for k in it.atoms}
        hit = [(o, c) for o, c in zip(leaves, cores) if _consistent(o, known)]
        if not hit:
            tbl_bad.append('%r: no table row' % name)
        for o, c in hit:
            if name in ('.', '..'):
                if c[0] != 'const':
                    tbl_bad.append('name %r reaches the byte encoder unchanged (result stays %r)' % (name, name))
                elif not _safe_const_name(c[1]):
                    tbl_bad.append('name %r is mapped to %r' % (name, c[1]))
            elif c[0] == 'const' and not _safe_const_name(c[1]):
                tbl_bad.append('name %r is mapped to %r' % (name, c[1]))
    ck.expect(not tbl_bad, 'C15-D2', where, '"." and ".." map to escaped constants',
              'dot names are not escaped: %s' % '; '.join(sorted(set(tbl_bad))[:3]), sf.loc(),
              okmsg='dot table over %d leaves (subject %s): "." and ".." -> escaped constants, everything else -> encoder' % (len(leaves), S))
    # the encoded subject is the first parameter, possibly decoded first (never after)
    subj_ok = S == 'P0' or ('P0' in {x.id for x in ast.walk(_parse(S)) if isinstance(x, ast.Name)})
    ck.expect(subj_ok, 'C15-D2', where, 'the encoded text is the filename argument', 'safe_filename encodes `%s`, not its argument' % S, sf.loc())
    # encoder receiver and wiring of the flags
    ctor_calls = [c for c in U.calls(fn) if a.repo.resolve_class_expr(sf.module, c.func) is not None
                  and a.repo.resolve_class_expr(sf.module, c.func).qual == PATHM + ':PercentEncoder']
    if not ctor_calls:
        ck.bad('C15-D2', where, 'PercentEncoder(...)', 'safe_filename does not construct a PercentEncoder', sf.loc())
        return
    enc_cls = repo.cls(PATHM + ':PercentEncoder')
    einit = repo.find_method(enc_cls, '__init__')
    os_param = 'os_type'
    if os_param not in params or 'no_control' not in params:
        raise AnalysisError('safe_filename parameters os_type/no_control not found')
    keyexprs = []
    for c in ctor_calls:
        got = {}
        for role in ENC_ROLES:
            e = _bind(einit, c, role)
            got[role] = norm_text(U.expand_locals(fn, e)) if e is not None else None
        want_ok = got['unix'] in ("os_type == 'unix'", "'unix' == os_type") \
            and got['windows'] in ("os_type == 'windows'", "'windows' == os_type") \
            and got['control'] == 'no_control' and got['ascii_'] in ('ascii_only', None)
        ck.expect(want_ok, 'C15-D2', where, 'PercentEncoder(unix=os_type == "unix", control=no_control, windows=os_type == "windows", ascii_=ascii_only)',
                  'the escape flags are not derived from the options they stand for: %s' % got, sf.loc(c))
        keyexprs.append({v for v in got.values() if v is not None})
    # cache: key covers every flag, same key on store and load
    cache = None
    for n in walk_no_nested(fn):
        if isinstance(n, ast.Assign) and len(n.targets) == 1 and isinstance(n.targets[0], ast.Subscript) \
                and isinstance(n.targets[0].value, ast.Name) and n.value in ctor_calls:
            cache = n.targets[0].value.id
    if cache is not None:
        keys = set()
        elems = set()
        for n in walk_no_nested(fn):
            k = None
            if isinstance(n, ast.Subscript) and isinstance(n.value, ast.Name) and n.value.id == cache:
                k = n.slice
            elif isinstance(n, ast.Compare) and len(n.ops) == 1 and isinstance(n.ops[0], (ast.In, ast.NotIn)) \
                    and isinstance(n.comparators[0], ast.Name) and n.comparators[0].id == cache:
                k = n.left
            if k is not None:
                ke = U.expand_locals(fn, k)
                keys.add(norm_text(ke))
                if isinstance(ke, ast.Tuple):
                    elems |= {norm_text(x) for x in ke.elts}
                else:
                    elems.add(norm_text(ke))
        okc = len(keys) == 1 and all(need <= elems for need in keyexprs)
        ck.expect(okc, 'C15-D2', where, 'encoder cache keyed by all escape flags',
                  'the encoder cache key %s does not determine the escape flags %s: an encoder built for other options is reused'
                  % (sorted(keys), sorted(set().union(*keyexprs))), sf.loc())
    # receiver of quote() is that encoder
    recv_ok = True
    for c in cores:
        if c[0] == 'enc':
            r = c[2]
            is_cache = cache is not None and isinstance(r, ast.Subscript) and isinstance(r.value, ast.Name) and r.value.id == cache
            is_ctor = isinstance(r, ast.Call) and (dotted(r.func) or '').split('.')[-1] == 'PercentEncoder'
            recv_ok = recv_ok and (is_cache or is_ctor)
    ck.expect(recv_ok, 'C15-D2', where, 'quote() is called on the PercentEncoder built from the flags',
              'the name is not quoted by the PercentEncoder built from the escape flags', sf.loc())
    # os_type default
    for fi, p in ((sf, 'os_type'), (sf, 'no_control')):
        d = _param_default(fi, p)
        if p == 'os_type':
            ok = d is None or (isinstance(d, ast.Constant) and d.value in ('unix', 'windows'))
        else:
            ok = d is None or (isinstance(d, ast.Constant) and d.value is True)
        ck.expect(ok, 'C15-D2', fi.qual, 'default %s=%s' % (p, norm_text(d) if d is not None else '-'),
                  'default of %s is %s: separators/control characters are not escaped unless the caller asks' % (p, norm_text(d) if d is not None else '-'), fi.loc())


def _is_post_of(e, R):
    """e is a chain of whitelisted post operations applied to the variable R."""
    seen = False
    while True:
        b = _post_base(e)
        if b is None:
            break
        e = b
        seen = True
    return seen and isinstance(e, ast.Name) and e.id == R


# ======================================================================== D1: the path namer
def _value_set(a, fi, e, depth=0):
    """Set of constants an expression can take (through locals), or None."""
    if e is None or depth > 6:
        return None
    if isinstance(e, ast.Constant):
        return {e.value}
    if isinstance(e, ast.IfExp):
        x, y = _value_set(a, fi, e.body, depth + 1), _value_set(a, fi, e.orelse, depth + 1)
        return None if x is None or y is None else x | y
    if isinstance(e, ast.Name):
        ds = a.defs(fi).get(e.id)
        if not ds:
            return None
        out = set()
        for v, kind, _ in ds:
            if kind != 'assign':
                return None
            s = _value_set(a, fi, v, depth + 1)
            if s is None:
                return None
            out |= s
        return out
    return None


def check_namer(a):
    repo, ck, ctx = a.repo, a.ck, a.ctx
    base = repo.cls(PATHM + ':BasePathNamer')
    namers = [c for c in repo.subclasses(base) if 'get_filename' in c.methods]
    if not namers:
        raise AnalysisError('no path namer class defines get_filename')
    a.namer_funcs = set()
    for ci in namers:
        gf = ci.methods['get_filename']
        a.namer_funcs.add(gf.qual)
        fields, init = _ctor_fields(repo, ci)
        if init is None:
            raise AnalysisError('%s has no constructor' % ci.qual)
        iparams = [p for p in init.params if p != 'self']

        def root_ok(e, gf=gf, fields=fields, iparams=iparams):
            e2 = U.expand_locals(gf.node, e)
            return U.is_self_attr(e2) and bool(iparams) and fields.get(e2.attr) == iparams[0]
        lf = ListFlow(a, gf, root_ok)
        cfg = ctx.cfg(gf)
        IN = lf.run(cfg)
        rnodes = [n for n in cfg.nodes if n.kind == 'return']
        n_ok = 0
        for n in rnodes:
            if n.id not in IN:
                continue
            v = n.stmt.value
            k = lf.kind(v, IN[n.id]) if v is not None else 'RAW'
            if k == 'JOINOK':
                n_ok += 1
                ck.ok('C15-D1', gf.qual, 'return %s: root + components that are direct safe_filename() results on every path'
                      % norm_text(v))
            else:
                why = None
                if isinstance(v, ast.Call):
                    why = lf.why.get(norm_text(v))
                ck.bad('C15-D1', gf.qual, 'return %s' % (norm_text(v) if v is not None else 'None'),
                       'the local path is not os.path.join(<configured root>, <sanitised components>): %s'
                       % (why or 'the returned value is not such a join'), gf.loc(n.stmt))
        if not rnodes:
            ck.bad('C15-D1', gf.qual, 'return os.path.join(root, *components)', 'get_filename returns no path', gf.loc())
        # the sanitiser method is a plain wrapper of wpull.path:safe_filename
        if 'safe_filename' in ci.methods:
            w = ci.methods['safe_filename']
            wp = [p for p in w.params if p != 'self']
            rets = [r for r in walk_no_nested(w.node) if isinstance(r, ast.Return)]
            sanfn = repo.func(SAN_FN)
            for r in rets:
                c = r.value
                okw = isinstance(c, ast.Call) and a.resolves_to(w, c, SAN_FN) and bool(wp)
                msg = 'the method does not return wpull.path.safe_filename(<its argument>, ...) directly'
                if okw:
                    first = _bind(sanfn, c, sanfn.params[0])
                    okw = first is not None and wp[0] in {x.id for x in ast.walk(first) if isinstance(x, ast.Name)}
                    for kw, need in (('os_type', 'os_type'), ('no_control', 'no_control')):
                        e = _bind(sanfn, c, kw)
                        if not (e is not None and U.is_self_attr(e) and fields.get(e.attr) == need):
                            okw = False
                            msg = 'safe_filename(%s=%s) is not the configured %s' % (kw, norm_text(e) if e is not None else '<default>', need)
                ck.expect(okw, 'C15-D1', w.qual, norm_text(c)[:100] if c is not None else 'return',
                          'PathNamer.safe_filename is not a plain wrapper of the sanitiser: ' + msg, w.loc(r),
                          okmsg='wrapper returns safe_filename(part, os_type=<cfg>, no_control=<cfg>, ...) directly')
            if not rets:
                ck.bad('C15-D1', w.qual, 'return safe_filename(...)', 'PathNamer.safe_filename returns nothing', w.loc())
        for p in ('os_type', 'no_control'):
            if p in init.params:
                d = _param_default(init, p)
                ok = d is None or (isinstance(d, ast.Constant) and (d.value in ('unix', 'windows') if p == 'os_type' else d.value is True))
                ck.expect(ok, 'C15-D2', init.qual, 'default %s=%s' % (p, norm_text(d) if d is not None else '-'),
                          'default of %s is %s' % (p, norm_text(d) if d is not None else '-'), init.loc())
    # construction sites of the namer: os_type in {unix, windows}, control restriction on unless 'nocontrol'
    pn = repo.cls(PATHM + ':PathNamer')
    pinit = repo.find_method(pn, '__init__')
    sites = []
    for f in a.funcs_mentioning('PathNamer'):
        for c in U.calls(f.node):
            if U.attr_name(c) == 'new' and c.args and isinstance(c.args[0], ast.Constant) and c.args[0].value == 'PathNamer':
                sites.append((f, c, 1))
            else:
                rc = repo.resolve_class_expr(f.module, c.func) if dotted(c.func) else None
                if rc is not None and rc.qual == pn.qual:
                    sites.append((f, c, 0))
    if not sites:
        ck.bad('C15-D2', SETUP, "factory.new('PathNamer', ...)", 'no construction site of PathNamer found', '')
    for f, c, skip in sites:
        e = _bind(pinit, c, 'os_type', skip)
        vs = _value_set(a, f, e) if e is not None else {'unix'}
        ck.expect(vs is not None and vs <= {'unix', 'windows'}, 'C15-D2', f.qual, 'os_type in {unix, windows}',
                  'PathNamer can be built with os_type=%s: neither the unix nor the windows separator set is escaped'
                  % (sorted(vs - {'unix', 'windows'}, key=str) if vs else norm_text(e)), f.loc(c))
        e = _bind(pinit, c, 'no_control', skip)
        if e is None:
            okc, shown = True, 'default True'
        else:
            x = U.expand_locals(f.node, e)
            shown = norm_text(x)
            okc = (isinstance(x, ast.Constant) and x.value is True)
            t = x
            neg = False
            if isinstance(t, ast.UnaryOp) and isinstance(t.op, ast.Not):
                t, neg = t.operand, True
            if isinstance(t, ast.Compare) and len(t.ops) == 1 and isinstance(t.left, ast.Constant) and t.left.value == 'nocontrol':
                if (isinstance(t.ops[0], ast.NotIn) and not neg) or (isinstance(t.ops[0], ast.In) and neg):
                    okc = True
        ck.expect(okc, 'C15-D2', f.qual, 'no_control = %s' % shown,
                  'control-character escaping is not "on unless the user asked for nocontrol": no_control = %s' % shown, f.loc(c))
        e = _bind(pinit, c, pinit.params[1], skip)
        okr = e is not None and (dotted(e) or '').split('.')[0] in ('args', 'self') or (
            e is not None and isinstance(e, ast.Attribute) and (dotted(e) or '').endswith('.directory_prefix'))
        ck.expect(okr, 'C15-D1', f.qual, 'root = %s' % (norm_text(e) if e is not None else '?'),
                  'the root passed to PathNamer is `%s`, not the configured directory prefix' % (norm_text(e) if e is not None else '?'), f.loc(c))


# ======================================================================== D3: non-empty components
def check_components(a):
    repo, ck = a.repo, a.ck
    dp = repo.func(PATHM + ':url_to_dir_parts')
    fn = dp.node
    rets = [r for r in walk_no_nested(fn) if isinstance(r, ast.Return) and isinstance(r.value, ast.Name)]
    if not rets:
        ck.bad('C15-D3', dp.qual, 'return parts', 'url_to_dir_parts does not return its list of components', dp.loc())
        return
    L = rets[0].value.id
    pm = U.parents(fn)
    defs = a.defs(dp)
    split_loops = []
    for lp in walk_no_nested(fn):
        if isinstance(lp, ast.For) and isinstance(lp.target, ast.Name):
            itx = U.expand_locals(fn, lp.iter)
            if isinstance(itx, ast.Call) and U.attr_name(itx) == 'split' and itx.args and isinstance(itx.args[0], ast.Constant) \
                    and itx.args[0].value == '/':
                split_loops.append(lp)
    n_guarded = 0
    for c in U.calls(fn):
        if not (isinstance(c.func, ast.Attribute) and isinstance(c.func.value, ast.Name) and c.func.value.id == L
                and c.func.attr in ('append', 'extend', 'insert')):
            continue
        arg = c.args[-1] if c.args else None
        loop = next((x for x in U.ancestors(c, pm) if x in split_loops), None)
        if loop is not None:
            it = Interp(repo, dp, body=loop.body, rename=False)
            v = loop.target.id
            want_eff = '%s.append(%s)' % (L, v)
            bad = []
            for o in it.leaves():
                t = o.val.get(('T', v))
                eff = [e for e in o.effects if e.startswith(L + '.')]
                if eff and not (t is True and eff == [want_eff]):
                    bad.append('%s under %s' % (eff, o.val))
            ck.expect(not bad and c.func.attr == 'append' and isinstance(arg, ast.Name) and arg.id == v, 'C15-D3', dp.qual,
                      "path segments from split('/') are appended only when non-empty",
                      'an empty path segment can become a directory component: %s' % (bad[:1] or norm_text(c)), dp.loc(c))
            n_guarded += 1
            continue
        ax = U.expand_locals(fn, arg) if arg is not None else None
        ok = False
        if c.func.attr == 'append' and ax is not None:
            if isinstance(ax, ast.Attribute) and ax.attr in ('scheme', 'hostname'):
                ok = True
            elif isinstance(arg, ast.Name):
                vals = [v for v, k, _ in defs.get(arg.id, []) if k == 'assign']
                ok = bool(vals) and all(
                    (isinstance(v, ast.Attribute) and v.attr == 'hostname') or
                    (isinstance(v, ast.Call) and U.attr_name(v) == 'format' and v.args and isinstance(v.args[0], ast.Name)
                     and v.args[0].id == arg.id) for v in vals)
        ck.expect(ok, 'C15-D3', dp.qual, norm_text(c),
                  'component `%s` is neither a non-empty path segment nor the scheme/host of the URL' % norm_text(c), dp.loc(c))
    if not n_guarded:
        ck.bad('C15-D3', dp.qual, "for part in path.split('/'): if part: parts.append(part)",
               'directory components are not taken from the path split on "/" with empty segments dropped', dp.loc())
    # file name: last segment, or the index when that is empty
    uf = repo.func(PATHM + ':url_to_filename')
    if len(uf.params) < 2:
        raise AnalysisError('url_to_filename(url, index, ...) signature changed')
    it = Interp(repo, uf)
    bad = []
    segs = set()
    leaves = it.leaves()
    for o in leaves:
        if o.kind != 'return' or o.value is None:
            bad.append('a path returns nothing')
            continue
        v = o.value
        if isinstance(v, ast.Call) and U.attr_name(v) == 'format' and v.args:
            v = v.args[0]
        vt = txt(v)
        seg_atoms = [(k, val) for k, val in o.val.items() if k[0] == 'T' and 'split' in k[1] and '[-1]' in k[1]]
        if vt == 'P1':
            if not any(val is False for k, val in seg_atoms):
                bad.append('index used although the last segment was not tested empty')
        else:
            segs.add(vt)
            if not any(k[1] == vt and val is True for k, val in seg_atoms):
                bad.append('`%s` used as the file name without a non-empty test' % vt)
    ck.expect(not bad and len(segs) == 1, 'C15-D3', uf.qual, 'file name = last path segment if non-empty else the index (%d rows)' % len(leaves),
              'the file-name component can be empty: %s' % '; '.join(sorted(set(bad))[:2] or ['name taken from %s' % sorted(segs)]), uf.loc())
    # the index handed in by the namer is a non-empty constant or the configured one
    for q in sorted(a.namer_funcs):
        gf = repo.func(q)
        fields, _ = _ctor_fields(repo, gf.cls)
        for c in U.calls(gf.node):
            if a.resolves_to(gf, c, uf.qual):
                e = _bind(uf, c, uf.params[1])
                opts = [e.body, e.orelse] if isinstance(e, ast.IfExp) else [e]
                ok = e is not None and all(
                    (isinstance(x, ast.Constant) and _safe_const_name(x.value)) or (U.is_self_attr(x) and x.attr in fields) for x in opts)
                ck.expect(ok, 'C15-D3', gf.qual, 'index = %s' % (norm_text(e) if e is not None else '<default>'),
                          'the fallback file name `%s` is not a non-empty constant or the configured index'
                          % (norm_text(e) if e is not None else '<default>'), gf.loc(c))


# ======================================================================== D1 (writer) and D4 (sinks)
def _mode_values(a, fi, e, depth=0):
    if e is None:
        return {'r'}
    if isinstance(e, ast.Constant) and isinstance(e.value, str):
        return {e.value}
    if isinstance(e, ast.Name) and depth < 3:
        ds = a.defs(fi).get(e.id, [])
        out = set()
        for v, kind, _ in ds:
            if kind == 'param':
                d = _param_default(fi, e.id)
                s = _mode_values(a, fi, d, depth + 1) if d is not None else set()
                if s is None:
                    return None
                out |= s
                for cfi, call in a.call_sites(fi):
                    arg = _bind(fi, call, e.id)
                    if arg is not None:
                        s = _mode_values(a, cfi, arg, depth + 1)
                        if s is None:
                            return None
                        out |= s
            elif kind == 'assign':
                s = _mode_values(a, fi, v, depth + 1)
                if s is None:
                    return None
                out |= s
            else:
                return None
        return out
    return None


def check_writer(a):
    repo, ck = a.repo, a.ck
    wmod = repo.module(WRITER)
    basecls = repo.cls(WRITER + ':BaseFileWriterSession')
    session_classes = [basecls] + list(repo.subclasses(basecls))
    path_fields = {c.qual: {'_filename'} for c in session_classes}
    P = Paths(a, path_fields)
    a.paths = P
    # who may write the chosen file name
    n_store = 0
    for ci in session_classes:
        for m in ci.methods.values():
            for n in walk_no_nested(m.node):
                tg = []
                if isinstance(n, ast.Assign):
                    tg = [t for t in n.targets if U.is_self_attr(t, '_filename')]
                elif isinstance(n, (ast.AugAssign, ast.AnnAssign)) and U.is_self_attr(n.target, '_filename'):
                    tg = [n.target]
                if not tg or n.value is None:
                    continue
                n_store += 1
                r = P.classify(m, n.value)
                if isinstance(n, ast.AugAssign):
                    ok = isinstance(n.op, ast.Add) and r[0] == 'SUFFIX'
                    why = r[1] or '`%s` is not a constant suffix' % norm_text(n.value)
                else:
                    ok = r[0] in ('PATH', 'NONE')
                    why = r[1] or 'the value is a %s, not a path under the root' % r[0]
                cons = '%s <- %s' % ('self._filename' + (' +=' if isinstance(n, ast.AugAssign) else ''),
                                     norm_text(U.expand_locals(m.node, n.value)))
                ck.expect(ok, 'C15-D1', m.qual, cons, 'the chosen file name is set from text that is not a sanitised path: ' + why,
                          m.loc(n), okmsg=cons[:120])
    for f in repo.funcs.values():
        if f.cls is not None and f.cls in session_classes:
            continue
        for n in walk_no_nested(f.node):
            if isinstance(n, ast.Attribute) and n.attr == '_filename' and isinstance(n.ctx, ast.Store) \
                    and f.module.name.startswith(('wpull.processor', WRITER)):
                ck.bad('C15-D1', f.qual, norm_text(n), 'the writer session file name is written from outside the session class', f.loc(n))
    if n_store < 2:
        ck.bad('C15-D1', basecls.qual, 'self._filename = self._compute_filename(request)',
               'the writer session no longer derives its file name from _compute_filename', '')
    # every _compute_filename variant returns a path
    n_cf = 0
    for ci in session_classes:
        m = ci.methods.get('_compute_filename')
        if m is None:
            continue
        n_cf += 1
        rets = [r for r in walk_no_nested(m.node) if isinstance(r, ast.Return) and r.value is not None
                and not (isinstance(r.value, ast.Constant) and r.value.value is None)]
        if not rets:
            ck.bad('C15-D1', m.qual, 'return <path>', '_compute_filename returns no path', m.loc())
        for r in rets:
            k = P.classify(m, r.value)
            cons = 'return %s' % norm_text(U.expand_locals(m.node, r.value))
            ck.expect(k[0] == 'PATH', 'C15-D1', m.qual, cons,
                      '_compute_filename returns a value that is not <namer path> (+ anti-clobber / constant / counter suffix): %s'
                      % (k[1] or k[0]), m.loc(r), okmsg=cons[:120])
    if not n_cf:
        raise AnalysisError('no _compute_filename in the writer session classes')
    # extra_resource_path: path + suffix, every caller passes constant text
    for ci in session_classes:
        m = ci.methods.get('extra_resource_path')
        if m is None:
            continue
        sp = [p for p in m.params if p != 'self']
        for r in walk_no_nested(m.node):
            if isinstance(r, ast.Return) and r.value is not None and not (isinstance(r.value, ast.Constant) and r.value.value is None):
                k = P.classify(m, r.value, assume={sp[0]: 'SUFFIX'} if sp else None)
                ck.expect(k[0] == 'PATH', 'C15-D1', m.qual, 'return %s' % norm_text(r.value),
                          'extra_resource_path does not return <chosen file name> + suffix: %s' % (k[1] or k[0]), m.loc(r))
        for cfi, call in a.call_sites(m):
            arg = _bind(m, call, sp[0]) if sp else None
            k = P.classify(cfi, arg)
            cons = 'extra_resource_path(%s)' % (norm_text(U.expand_locals(cfi.node, arg)) if arg is not None else '')
            ck.expect(k[0] == 'SUFFIX', 'C15-D1', cfi.qual, cons,
                      'suffix appended to the download path is not constant/configuration text without a separator: %s' % (k[1] or k[0]),
                      cfi.loc(call))
    # anti_clobber_dir_path only appends its constant suffix to one component
    ac = repo.func(PATHM + ':anti_clobber_dir_path')
    acp = ac.params
    okac = len(acp) >= 1
    d = _param_default(ac, acp[1]) if len(acp) > 1 else None
    okac = okac and (d is None or (isinstance(d, ast.Constant) and isinstance(d.value, str) and not _has_sep(d.value)))
    why = 'suffix default'
    lists = set()
    for nm, ds in a.defs(ac).items():
        for v, kind, _ in ds:
            if kind == 'assign' and isinstance(v, ast.Call) and U.attr_name(v) == 'split' and isinstance(v.func.value, ast.Name):
                lists.add(nm)
    for n in walk_no_nested(ac.node):
        if isinstance(n, ast.AugAssign) and isinstance(n.target, ast.Subscript) and isinstance(n.target.value, ast.Name) \
                and n.target.value.id in lists:
            if not (isinstance(n.op, ast.Add) and isinstance(n.value, ast.Name) and len(acp) > 1 and n.value.id == acp[1]):
                okac, why = False, norm_text(n)
        elif isinstance(n, ast.Assign) and any(isinstance(t, ast.Subscript) and isinstance(t.value, ast.Name) and t.value.id in lists
                                               for t in n.targets):
            okac, why = False, norm_text(n)
        elif isinstance(n, ast.Call) and isinstance(n.func, ast.Attribute) and isinstance(n.func.value, ast.Name) \
                and n.func.value.id in lists and n.func.attr in ('append', 'insert', 'extend'):
            okac, why = False, norm_text(n)
        elif isinstance(n, ast.Return) and n.value is not None:
            e = n.value
            fine = (isinstance(e, ast.Name) and e.id == acp[0]) or (
                isinstance(e, ast.Call) and U.attr_name(e) == 'join' and len(e.args) == 1 and (
                    (isinstance(e.args[0], ast.Name) and e.args[0].id in lists)))
            if not fine:
                okac, why = False, norm_text(n)
    for nm, ds in a.defs(ac).items():
        if nm == acp[0]:
            for v, kind, _ in ds:
                if kind == 'assign' and not (isinstance(v, ast.Call) and dotted(v.func) in ('os.path.normpath', 'os.path.abspath')
                                             and len(v.args) == 1 and isinstance(v.args[0], ast.Name) and v.args[0].id == acp[0]):
                    okac, why = False, '%s = %s' % (nm, norm_text(v))
    ck.expect(okac, 'C15-D1', ac.qual, 'returns the directory with a constant suffix added to one existing component',
              'anti_clobber_dir_path changes the directory other than by a constant suffix: %s' % why, ac.loc())

    # ------------------------------------------------------------------ D4: sinks
    n_sinks = 0
    open_file_ok = False
    for f in sorted(repo.funcs.values(), key=lambda f: f.qual):
        mn = f.module.name
        if not (mn == WRITER or mn == 'wpull.processor' or mn.startswith('wpull.processor.')):
            continue
        for c in sorted(U.calls(f.node), key=lambda c: (c.lineno, c.col_offset)):
            d = dotted(c.func) or ''
            if d and d not in SINKS and d.split('.')[0] not in a.defs(f):
                r0 = repo.resolve_name(f.module, d)       # `from os import symlink`, `import shutil as sh`
                if r0 and r0[0] == 'external':
                    d = r0[1]
            if d not in SINKS:
                continue
            idx, kw = SINKS[d]
            path = U.kwarg(c, kw, idx)
            if d in OPENERS:
                if path is None:
                    continue
                modes = _mode_values(a, f, U.kwarg(c, 'mode', 1))
                if modes is not None and not any(ch in m for m in modes for ch in 'wax+'):
                    continue        # opened for reading only
            n_sinks += 1
            r = P.classify(f, path)
            shown = norm_text(U.expand_locals(f.node, path)) if path is not None else '?'
            cons = '%s <- %s' % (d, shown)
            if r[0] == 'PATH':
                ck.ok('C15-D4', f.qual, cons[:140])
                if f.qual == basecls.qual + '.open_file' and d in OPENERS:
                    open_file_ok = True
            else:
                extra = ''
                if d in ('os.symlink', 'os.link'):
                    extra = ' (the link target `%s` is not constrained either)' % norm_text(c.args[0]) if c.args else ''
                ck.bad('C15-D4', f.qual, cons,
                       'a file-system entry is created at a path that is not <sanitised download path> + constant suffix: %s%s'
                       % (r[1] or r[0], extra), f.loc(c))
    if not repo.has_func(basecls.qual + '.open_file'):
        raise AnalysisError('BaseFileWriterSession.open_file not found')
    if not open_file_ok and not any(fd.rule == 'C15-D4' and fd.where == basecls.qual + '.open_file' for fd in ck.findings):
        ck.bad('C15-D4', basecls.qual + '.open_file', 'open(filename, mode) for writing',
               'open_file no longer opens its file-name argument for writing (the download sink was not found)', '')
    return n_sinks


# ======================================================================== entry point
def run(ctx):
    ck = ctx.check
    a = A(ctx)
    ctx.repo.module(PATHM)
    ctx.repo.module(WRITER)
    ck.assume('decides how local paths are constructed; the resolved file-system path (symlinks already on disk), Windows '
              'reserved names and a host OS that differs from the configured os_type are not decided')
    ck.assume('run configuration (args.*, self._params.*) is not attacker-controlled; the PhantomJS / youtube-dl child '
              'processes write where they are told (<download path> + constant suffix)')
    ck.rule('C15-D1', 'every local path is os.path.join(<configured root>, components) where each component is a direct '
                      'safe_filename() result on every CFG path (decoding only before sanitising, nothing appended or applied '
                      'afterwards); the writer only stores <namer path>, anti-clobber/constant/counter suffixes, or '
                      'join(dirname(<current path>), safe_filename(<header name>)) into its file name')
    ck.rule('C15-D2', 'safe_filename maps "." and ".." to escaped constants and everything else through the PercentEncoder; the '
                      'encoder escapes "/" (unix), "\\ / :" (windows), C0 and C1-under-ascii (control) for all 256 bytes and flag '
                      'combinations; flags are wired from os_type/no_control, os_type is unix|windows; post-encoding steps are '
                      'case folding and hex-suffixed length capping only')
    ck.rule('C15-D3', 'directory components come from split("/") filtered by truthiness (plus scheme/host), the file name is '
                      'the last segment or a non-empty index/listing constant')
    ck.rule('C15-D4', 'every open-for-write/append, makedirs, mkdir, symlink, link, rename, replace, move, copy in writer.py and '
                      'processor/** creates a path that is a sanitised download path plus constant suffixes')
    for q in (SAN_FN, SAN_WRAP):
        ctx.repo.func(q)
    enc_params = check_encoder(a)
    check_safe_filename(a, enc_params)
    check_namer(a)
    from .common import option_wiring_lint
    option_wiring_lint(ctx, 'C15-D2', ['PathNamer'])
    check_components(a)
    n = check_writer(a)
    ck.info['sinks_enumerated'] = n
