"""C17 - each FTP command is one line, and replies are read whole.

D1  no CR/LF can travel from decoded text (URL path, credentials, reply text) to the
    bytes written on the control connection: every `Command(...)` site is classified by
    the provenance of its argument and every non-constant argument must pass a check
    that rejects both characters, at the single sink `Command.to_bytes` or on the way.
D2  command framing `NAME SP argument CRLF`, encoded ASCII-transparently, written once.
D3  reply assembly is line-driven: `readline()` only, LF required, loop until a line
    sets the code; the final-line test is "three digits then a space" (parsed regex).
D4  completion ordering: data connection read to EOF, then the closing reply, then
    the code check, and only then `response_received`.
D5  the passive-address pattern accepts exactly six groups of one to three digits.
(DESIGN.md section 3, C17-D1..D5; table J of DESIGN-tables.md.)
"""
import ast
import re
import string

import re._constants as C

from ..index import dotted, walk_no_nested, norm_text, AnalysisError
from ..cfg import describe_path
from .. import util as U
from .. import regexs as RX

REQ = 'wpull.protocol.ftp.request'
STREAM = 'wpull.protocol.ftp.stream'
CMD = 'wpull.protocol.ftp.command'
CLIENT = 'wpull.protocol.ftp.client'
UTIL = 'wpull.protocol.ftp.util'
BASE = 'wpull.processor.base'

CR, LF = '\r', '\n'
# Encodings under which the bytes 0x0D / 0x0A are produced by the characters CR / LF only.
ASCII_TRANSPARENT = {'utf8', 'ascii', 'usascii', 'latin1', 'iso88591'}
# RFC 959 section 5.4, RETR/LIST: 125,150 -> 226 | 250 (positive completion) ; everything else is a failure.
TRANSFER_COMPLETE = {226, 250}


# ---------------------------------------------------------------------------- path helpers
def normal(a, b, k):
    return not k.startswith('x:') and k != 'catch'


def anyedge(a, b, k):
    return True


def literals(test, branch):
    """Facts `(expr, truth)` that certainly hold on the given branch of a test."""
    if isinstance(test, ast.UnaryOp) and isinstance(test.op, ast.Not):
        return literals(test.operand, not branch)
    if isinstance(test, ast.BoolOp):
        if (isinstance(test.op, ast.And) and branch) or (isinstance(test.op, ast.Or) and not branch):
            out = []
            for v in test.values:
                out.extend(literals(v, branch))
            return out
    return [(test, branch)]


def edge_literals(a, k):
    if a.kind in ('if', 'while') and k in ('T', 'F'):
        return literals(a.stmt.test, k == 'T')
    return []


def unguarded(cfg, starts, goal, fact, stop=None, edges=anyedge):
    """A path from one of `starts` to a node satisfying `goal` that crosses no branch
    edge on which `fact(expr, truth)` holds (and does not run through a `stop` node),
    or None.  `starts` are (re)definition points of the guarded value, so a hit means:
    the value can reach the goal without the fact having been established for it."""
    def edge_ok(a, b, k):
        if not edges(a, b, k):
            return False
        return not any(fact(e, t) for e, t in edge_literals(a, k))
    for s in starts:
        p = cfg.find_path(s, goal, edge_ok=edge_ok, stop=stop)
        if p is not None:
            return p
    return None


def skips(cfg, start, goal, A):
    """A path from `start` to a node satisfying `goal` on which no node of A completes
    normally (exception edges and handlers included: a swallowed failure is a path), or None."""
    return cfg.find_path(start, goal, edge_ok=lambda a, b, k: not (a in A and normal(a, b, k)))


def stmt_map(fn):
    """id(expression node) -> enclosing statement, for the statements of fn."""
    pm = U.parents(fn)
    return lambda node: U.enclosing_stmt(node, pm)


def awaited_calls(stmt, pred):
    """Calls satisfying pred that are the operand of a `yield from` / `await` in stmt."""
    out = []
    if stmt is None:
        return out
    for n in walk_no_nested(stmt):
        if isinstance(n, (ast.YieldFrom, ast.Await)) and isinstance(n.value, ast.Call) and pred(n.value):
            out.append(n.value)
    return out


def simple_nodes(cfg):
    return [n for n in cfg.nodes if n.kind in ('stmt', 'return')]


def def_nodes(cfg, fn, name):
    """CFG nodes of the statements that (re)bind local `name`."""
    out = []
    for v, kind, st in U.local_defs(fn).get(name, []):
        if kind == 'param':
            continue
        out.extend(cfg.nodes_of(st))
    return out


def const_of(repo, module, expr):
    try:
        return repo.fold(module, expr)
    except ValueError:
        return None


# ---------------------------------------------------------------------------- string templates
class NotTemplate(Exception):
    pass


def template(expr, encodings):
    """Symbolic value of a string-building expression: list of ('lit', text) and
    ('slot', expr, plain) with adjacent literals merged.  `.encode(...)` wrappers are
    transparent and their encoding arguments are appended to `encodings`."""
    parts = _parts(expr, encodings)
    out = []
    for p in parts:
        if p[0] == 'lit' and out and out[-1][0] == 'lit':
            out[-1] = ('lit', out[-1][1] + p[1])
        elif p[0] == 'lit' and p[1] == '':
            continue
        else:
            out.append(p)
    return out


def _parts(e, encodings):
    if isinstance(e, ast.Constant) and isinstance(e.value, str):
        return [('lit', e.value)]
    if isinstance(e, ast.Constant) and isinstance(e.value, bytes):
        return [('lit', e.value.decode('latin-1'))]
    if isinstance(e, ast.JoinedStr):
        out = []
        for v in e.values:
            if isinstance(v, ast.Constant):
                out.append(('lit', v.value))
            else:
                out.append(('slot', v.value, v.conversion in (-1, 115) and v.format_spec is None))
        return out
    if isinstance(e, ast.BinOp) and isinstance(e.op, ast.Add):
        return _parts(e.left, encodings) + _parts(e.right, encodings)
    if isinstance(e, ast.BinOp) and isinstance(e.op, ast.Mod) and isinstance(e.left, ast.Constant) \
            and isinstance(e.left.value, str):
        args = list(e.right.elts) if isinstance(e.right, ast.Tuple) else [e.right]
        pieces = re.split(r'(%[-#0 +]*\d*(?:\.\d+)?[a-zA-Z%])', e.left.value)
        out = []
        for p in pieces:
            if p.startswith('%') and len(p) > 1:
                if p == '%%':
                    out.append(('lit', '%'))
                elif not args:
                    raise NotTemplate('too few arguments for %r' % e.left.value)
                else:
                    out.append(('slot', args.pop(0), p == '%s'))
            else:
                out.append(('lit', p))
        return out
    if isinstance(e, ast.Call) and isinstance(e.func, ast.Attribute):
        f = e.func
        if f.attr == 'encode':
            enc = U.kwarg(e, 'encoding', 0)
            encodings.append(enc)
            return _parts(f.value, encodings)
        if f.attr == 'format' and isinstance(f.value, ast.Constant) and isinstance(f.value.value, str):
            out = []
            auto = 0
            kw = {k.arg: k.value for k in e.keywords if k.arg}
            try:
                fields = list(string.Formatter().parse(f.value.value))
            except ValueError as err:
                raise NotTemplate(str(err))
            for lit, field, spec, conv in fields:
                if lit:
                    out.append(('lit', lit))
                if field is None:
                    continue
                if field == '':
                    idx, auto = auto, auto + 1
                    arg = e.args[idx] if idx < len(e.args) else None
                elif field.isdigit():
                    arg = e.args[int(field)] if int(field) < len(e.args) else None
                else:
                    arg = kw.get(field)
                if arg is None or isinstance(arg, ast.Starred):
                    raise NotTemplate('format field {%s} has no argument' % field)
                out.append(('slot', arg, not spec and conv in (None, 's')))
            return out
        if f.attr == 'join' and isinstance(f.value, ast.Constant) and isinstance(f.value.value, (str, bytes)) \
                and len(e.args) == 1 and isinstance(e.args[0], (ast.List, ast.Tuple)):
            sep = f.value.value if isinstance(f.value.value, str) else f.value.value.decode('latin-1')
            out = []
            for i, x in enumerate(e.args[0].elts):
                if i:
                    out.append(('lit', sep))
                out.extend(_parts(x, encodings))
            return out
    if isinstance(e, ast.Call) and dotted(e.func) == 'str' and len(e.args) == 1 and not e.keywords:
        return [('slot', e.args[0], True)]
    return [('slot', e, True)]


def show_template(parts):
    return ' '.join(repr(p[1]) if p[0] == 'lit' else '<%s%s>' % (norm_text(p[1]), '' if p[2] else '!fmt') for p in parts)


def enc_name(repo, module, expr):
    if expr is None:
        return 'utf8'           # str.encode() default
    v = const_of(repo, module, expr)
    if not isinstance(v, str):
        return None
    return v.lower().replace('-', '').replace('_', '')


# ---------------------------------------------------------------------------- CR/LF checks
class LineBreakChecks:
    """Recognises tests that establish "E contains no CR / no LF" and decides whether
    every path to a statement has crossed such tests for both characters."""

    def __init__(self, ctx):
        self.ctx = ctx
        self.repo = ctx.repo

    def _chars(self, module, expr):
        v = const_of(self.repo, module, expr)
        if isinstance(v, bytes):
            v = v.decode('latin-1')
        if isinstance(v, str) and len(v) == 1 and v in (CR, LF):
            return {v}
        return set()

    def _charset(self, module, expr):
        """CR/LF members of a constant string / tuple / set of one-character strings."""
        v = const_of(self.repo, module, expr)
        if isinstance(v, bytes):
            v = v.decode('latin-1')
        if isinstance(v, str):
            return {c for c in v if c in (CR, LF)}
        if isinstance(v, (tuple, frozenset)):
            return {c for c in v if isinstance(c, str) and c in (CR, LF)}
        return set()

    def absent(self, fi, defs, expr, truth, etext):
        """Characters of {CR, LF} that are certainly absent from E when `expr` evaluates to `truth`."""
        module = fi.module

        def is_e(n):
            return norm_text(U.expand_locals(fi.node, n, defs)) == etext
        if isinstance(expr, ast.Compare) and len(expr.ops) == 1:
            l, op, r = expr.left, expr.ops[0], expr.comparators[0]
            if isinstance(op, ast.In) and not truth and is_e(r):
                return self._chars(module, l)
            if isinstance(op, ast.NotIn) and truth and is_e(r):
                return self._chars(module, l)
            # E.find(c) compared with -1 / 0
            if isinstance(l, ast.Call) and isinstance(l.func, ast.Attribute) and l.func.attr == 'find' \
                    and len(l.args) == 1 and is_e(l.func.value):
                k = const_of(self.repo, module, r)
                not_found = {(ast.Eq, -1, True), (ast.NotEq, -1, False), (ast.GtE, 0, False), (ast.Lt, 0, True),
                             (ast.Gt, -1, False), (ast.LtE, -1, True)}
                if (type(op), k, truth) in not_found:
                    return self._chars(module, l.args[0])
            return set()
        if isinstance(expr, ast.Call) and not truth:
            f = expr.func
            if isinstance(f, ast.Attribute) and f.attr == 'count' and len(expr.args) == 1 and is_e(f.value):
                return self._chars(module, expr.args[0])
            d = dotted(f) or ''
            if d == 're.search' and len(expr.args) >= 2 and is_e(expr.args[1]):
                rx = RX.rx_from_call(self.repo, module, expr)
                if rx is not None:
                    seq = rx.flat()
                    if len(seq) == 1 and seq[0][0] in (C.IN, C.LITERAL, C.ANY, C.NOT_LITERAL):
                        return {c for c in (CR, LF) if RX.can_match_char(rx, seq[0], ord(c))}
                return set()
            if d == 'any' and len(expr.args) == 1 and isinstance(expr.args[0], ast.GeneratorExp) \
                    and len(expr.args[0].generators) == 1 and not expr.args[0].generators[0].ifs:
                g = expr.args[0]
                gen = g.generators[0]
                elt = g.elt
                if isinstance(gen.target, ast.Name) and isinstance(elt, ast.Compare) and len(elt.ops) == 1 \
                        and isinstance(elt.ops[0], ast.In) and isinstance(elt.left, ast.Name) \
                        and elt.left.id == gen.target.id:
                    # any(c in E for c in CONST)  /  any(c in CONST for c in E)
                    if is_e(elt.comparators[0]):
                        return self._charset(module, gen.iter)
                    if is_e(gen.iter):
                        return self._charset(module, elt.comparators[0])
            return set()
        return set()

    def _callee_subject(self, fi, defs, call, etext):
        """For a call that might validate E: [(callee, expression standing for E inside it)]."""
        callees = self.ctx.res.callee_funcs(fi, call, allow_name=False, count=False)
        out = []
        for g in callees:
            if g.name == '__init__':
                return []
            sub = None
            if isinstance(call.func, ast.Attribute) and isinstance(call.func.value, ast.Name) and call.func.value.id == 'self' \
                    and re.fullmatch(r'self(\.\w+)+', etext) and g.cls is not None and fi.cls is not None:
                sub = ast.parse(etext, mode='eval').body
            bound = g.cls is not None and 'staticmethod' not in g.decorators
            for i, a in enumerate(call.args):
                if isinstance(a, ast.Starred):
                    break
                if norm_text(U.expand_locals(fi.node, a, defs)) == etext:
                    j = i + (1 if bound else 0)
                    if j < len(g.params):
                        sub = ast.Name(id=g.params[j], ctx=ast.Load())
            if sub is None:
                return []
            out.append((g, sub))
        return out

    def call_establishes(self, fi, defs, call, etext, depth):
        """Characters certainly absent from E once `call` has returned normally
        (the callee raises on every path on which E contains them)."""
        if depth >= 2:
            return set()
        subs = self._callee_subject(fi, defs, call, etext)
        if not subs:
            return set()
        est = {CR, LF}
        for g, sub in subs:
            est &= {CR, LF} - set(self.missing_at(g, sub, None, depth + 1))
        return est

    def missing_at(self, fi, expr, stmt, depth=0):
        """Characters of {CR, LF} for which a path reaches `stmt` (None: the normal exit) without
        `expr` having been tested free of them -> {char: path}.  All edges count (a swallowed
        rejection is a path); a call of a helper that raises whenever the character is present
        establishes the fact when it returns normally."""
        cfg = self.ctx.cfg(fi)
        defs = U.local_defs(fi.node)
        expanded = U.expand_locals(fi.node, expr, defs)
        etext = norm_text(expanded)
        goals = cfg.nodes_of(stmt) if stmt is not None else [cfg.exit]
        if not goals:
            return {CR: None, LF: None}
        names = {n.id for n in ast.walk(expr) if isinstance(n, ast.Name)} | \
                {n.id for n in ast.walk(expanded) if isinstance(n, ast.Name)}
        starts = [cfg.entry]
        for nm in names:
            starts.extend(def_nodes(cfg, fi.node, nm))
        redefs = set(id(n) for n in starts[1:])
        # stores to the attribute itself (self.argument = ...) restart the obligation as well
        for n in simple_nodes(cfg):
            if isinstance(n.stmt, (ast.Assign, ast.AugAssign)):
                tg = n.stmt.targets if isinstance(n.stmt, ast.Assign) else [n.stmt.target]
                if any(isinstance(t, ast.Attribute) and norm_text(t) == etext for t in tg):
                    starts.append(n)
                    redefs.add(id(n))
        validators = {CR: set(), LF: set()}
        for n in simple_nodes(cfg):
            if n in goals or id(n) in redefs:
                continue
            for c in U.calls(n.stmt):
                for ch in self.call_establishes(fi, defs, c, etext, depth):
                    validators[ch].add(id(n))
        out = {}
        for ch in (CR, LF):
            p = unguarded(cfg, starts, lambda m: m in goals,
                          lambda e, t: ch in self.absent(fi, defs, e, t, etext),
                          stop=lambda m: id(m) in redefs and m not in goals,
                          edges=lambda a, b, k: not (id(a) in validators[ch] and normal(a, b, k)))
            if p is not None:
                out[ch] = p
        return out

    def guard_raises(self, fi, expr, depth=0):
        """(function, Raise) for the raise statements in the body of an `if` that tests `expr`
        for CR/LF, here or in a validating helper."""
        defs = U.local_defs(fi.node)
        etext = norm_text(U.expand_locals(fi.node, expr, defs))
        out = []
        for n in walk_no_nested(fi.node):
            if isinstance(n, ast.If):
                hit = False
                for br in (True, False):
                    for e, t in literals(n.test, br):
                        if self.absent(fi, defs, e, t, etext):
                            hit = True
                if hit:
                    found = [x for b in n.body + n.orelse for x in walk_no_nested(b)
                             if isinstance(x, ast.Raise) and x.exc is not None]
                    if not found:
                        # early-return style: `if <clean>: return line` followed by the raise
                        found = [x for x in walk_no_nested(fi.node) if isinstance(x, ast.Raise) and x.exc is not None
                                 and getattr(x, 'lineno', 0) > n.lineno]
                    out.extend((fi, x) for x in found)
            elif isinstance(n, ast.Call) and depth < 2 and self.call_establishes(fi, defs, n, etext, depth):
                for g, sub in self._callee_subject(fi, defs, n, etext):
                    out.extend(self.guard_raises(g, sub, depth + 1))
        return out


def name_chars(c):
    return {CR: 'CR', LF: 'LF'}[c]


# ---------------------------------------------------------------------------- provenance (D1)
class Provenance:
    """Is the text produced by an expression certainly free of CR and LF?  Constants,
    str(int), values checked on the way, results of functions whose every return is
    clean, parameters whose every caller passes a clean value.  Everything else (fields,
    external calls such as urllib.parse.unquote, unresolved callees) is not."""

    def __init__(self, ctx, checks):
        self.ctx = ctx
        self.repo = ctx.repo
        self.res = ctx.res
        self.checks = checks
        self._ret = {}
        self._callers = {}

    def is_int(self, fi, expr):
        if isinstance(expr, ast.Constant) and isinstance(expr.value, int) and not isinstance(expr.value, bool):
            return True
        if isinstance(expr, ast.Call) and dotted(expr.func) in ('int', 'len'):
            return True
        if isinstance(expr, ast.Name):
            a = fi.node.args
            for arg in a.posonlyargs + a.args + a.kwonlyargs:
                if arg.arg == expr.id:
                    return arg.annotation is not None and norm_text(arg.annotation) == 'int' \
                        and not any(k != 'param' for _, k, _ in U.local_defs(fi.node).get(expr.id, []))
        return False

    def clean(self, fi, expr, stmt, depth=0, seen=()):
        """-> (ok, description of where the text comes from)"""
        repo = self.repo
        if expr is None:
            return True, 'no argument'
        text = norm_text(expr)
        if depth > 5:
            return False, '%s (provenance deeper than the analysis follows)' % text
        # module-level constants fold; a local of the same name must not be mistaken for one
        head = (dotted(expr) or '?').split('.')[0]
        is_local = isinstance(expr, (ast.Name, ast.Attribute)) and self.res._is_local(fi, head)
        v = None if is_local else const_of(repo, fi.module, expr)
        if type(v) is str:       # (folded class references are a str subclass: not text)
            if CR in v or LF in v:
                return False, 'constant %r contains a line break' % v
            return True, 'constant %r' % v
        if isinstance(expr, ast.Call) and dotted(expr.func) == 'str' and len(expr.args) == 1 and self.is_int(fi, expr.args[0]):
            return True, 'str(int)'
        if isinstance(expr, ast.BoolOp) or isinstance(expr, ast.IfExp):
            vals = expr.values if isinstance(expr, ast.BoolOp) else [expr.body, expr.orelse]
            descs = []
            ok = True
            for x in vals:
                o, d = self.clean(fi, x, stmt, depth + 1, seen)
                ok = ok and o
                if not o:
                    descs.append(d)
            return (True, 'every alternative of `%s` is clean' % text) if ok else (False, '; '.join(descs))
        if stmt is not None and not self.checks.missing_at(fi, expr, stmt):
            return True, '`%s` is checked for CR and LF in %s' % (text, fi.local)
        if isinstance(expr, ast.Name):
            defs = U.local_defs(fi.node).get(expr.id, [])
            if not defs:
                return False, 'name `%s` of unknown origin' % text
            descs = []
            ok = True
            for val, kind, st in defs:
                if kind == 'param':
                    o, d = self.param_clean(fi, expr.id, depth, seen)
                elif kind == 'assign' and val is not None:
                    o, d = self.clean(fi, val, st, depth + 1, seen)
                    d = '%s = %s' % (expr.id, d) if not o else d
                else:
                    o, d = False, '`%s` bound by %s' % (expr.id, kind)
                ok = ok and o
                if not o:
                    descs.append(d)
            return (True, '`%s` is clean at every definition' % text) if ok else (False, '; '.join(descs))
        if isinstance(expr, ast.Attribute):
            props = [m for n, m in self.res.property_loads(fi, expr) if n is expr]
            if props:
                descs = []
                ok = True
                for m in props:
                    o, d = self.returns_clean(m, depth + 1, seen)
                    ok = ok and o
                    if not o:
                        descs.append('%s -> %s' % (text, d))
                return (True, 'property %s returns checked text' % text) if ok else (False, '; '.join(descs))
            return False, 'field `%s` (URL / login data)' % text
        if isinstance(expr, ast.Call):
            callees = self.res.callee_funcs(fi, expr, allow_name=False, count=False)
            if callees:
                descs = []
                ok = True
                for g in callees:
                    o, d = self.returns_clean(g, depth + 1, seen)
                    ok = ok and o
                    if not o:
                        descs.append(d)
                return (True, '%s returns checked text' % text) if ok else (False, '; '.join(descs))
            return False, 'result of `%s`' % text
        return False, 'expression `%s`' % text

    def returns_clean(self, g, depth, seen):
        if g.qual in self._ret:
            return self._ret[g.qual]
        if g.qual in seen:
            return False, 'recursive %s' % g.local
        rets = [r for r in walk_no_nested(g.node) if isinstance(r, ast.Return)]
        ok = bool(rets)
        descs = []
        for r in rets:
            o, d = self.clean(g, r.value, r, depth + 1, seen + (g.qual,)) if r.value is not None else (False, 'returns None')
            ok = ok and o
            if not o:
                descs.append('%s returns %s' % (g.local, d))
        out = (ok, '; '.join(descs) if descs else '%s returns checked text' % g.local)
        self._ret[g.qual] = out
        return out

    def callers(self, g):
        if g.qual in self._callers:
            return self._callers[g.qual]
        out = []
        for f in self.repo.funcs.values():
            if f.module.name.startswith('wpull.thirdparty'):
                continue
            for c in walk_no_nested(f.node):
                if isinstance(c, ast.Call) and U.attr_name(c) == g.name:
                    if any(t is g for t in self.res.callee_funcs(f, c, allow_name=False, count=False)):
                        out.append((f, c))
        self._callers[g.qual] = out
        return out

    def param_clean(self, g, pname, depth, seen):
        key = g.qual + '#' + pname
        if key in seen:
            return False, 'recursive parameter %s' % pname
        a = g.node.args
        pos = [x.arg for x in a.posonlyargs + a.args]
        if pname not in pos:
            return False, 'parameter `%s` of %s' % (pname, g.local)
        idx = pos.index(pname)
        bound = g.cls is not None and 'staticmethod' not in g.decorators
        call_idx = idx - 1 if bound else idx
        ndef = len(a.defaults)
        default = a.defaults[idx - (len(pos) - ndef)] if idx >= len(pos) - ndef else None
        sites = self.callers(g)
        if not sites:
            return False, 'parameter `%s` of %s (no caller found)' % (pname, g.local)
        pm_cache = {}
        descs = []
        ok = True
        for f, c in sites:
            arg = U.kwarg(c, pname, call_idx if call_idx >= 0 else None)
            if any(isinstance(x, ast.Starred) for x in c.args) or any(k.arg is None for k in c.keywords):
                ok = False
                descs.append('%s passes *args/**kwargs' % f.local)
                continue
            if arg is None:
                if default is None:
                    ok = False
                    descs.append('%s does not pass `%s`' % (f.local, pname))
                    continue
                o, d = self.clean(g, default, None, depth + 1, seen + (key,))
            else:
                if f.qual not in pm_cache:
                    pm_cache[f.qual] = stmt_map(f.node)
                o, d = self.clean(f, arg, pm_cache[f.qual](c), depth + 1, seen + (key,))
            ok = ok and o
            if not o:
                descs.append('%s <- %s: %s' % (pname, f.local, d))
        return (True, 'every caller passes clean text for `%s`' % pname) if ok else (False, '; '.join(descs))


# ---------------------------------------------------------------------------- regex helpers
def digit_only(item, is_bytes):
    """A single-character item that matches exactly the ASCII digits (within ASCII)."""
    if item[0] not in (C.IN, C.LITERAL, C.CATEGORY):
        return False
    for ch in range(0, 128):
        if RX.class_matches(item, ch) != (chr(ch) in '0123456789'):
            return False
    return True


def space_only(item):
    if item[0] not in (C.IN, C.LITERAL, C.CATEGORY):
        return False
    hit = False
    for ch in range(0, 128):
        m = RX.class_matches(item, ch)
        if m and not chr(ch).isspace():
            return False
        hit = hit or m
    return hit


def unroll(seq):
    """Expand fixed repeats of single items: \\d{3} -> [\\d, \\d, \\d]; None if not a fixed-width item list."""
    out = []
    for op, av in seq:
        if RX.is_repeat(op):
            lo, hi, sub = av
            if lo != hi or len(sub) != 1:
                return None
            out.extend([sub[0]] * lo)
        elif op in (C.IN, C.LITERAL, C.CATEGORY, C.ANY, C.NOT_LITERAL):
            out.append((op, av))
        else:
            return None
    return out


def matches_empty_only(seq):
    return all(op is C.AT for op, av in seq)


def nullable(seq):
    """Can the item sequence match the empty string (at the start of the subject)?"""
    for op, av in seq:
        if op is C.AT:
            continue
        if RX.is_repeat(op):
            if av[0] == 0 or nullable(av[2]):
                continue
            return False
        if op is C.SUBPATTERN:
            if nullable(av[3]):
                continue
            return False
        if op is C.BRANCH:
            if any(nullable(b) for b in av[1]):
                continue
            return False
        return False
    return True


def group_index(match_name, fi, defs, expr):
    """k if expr (after copy propagation) is `<match>.group(k)`, else None."""
    e = U.expand_locals(fi.node, expr, defs, skip=(match_name,))
    if isinstance(e, ast.Name):
        # a, b, c = <match>.groups()
        d = defs.get(e.id, [])
        if len(d) == 1 and d[0][1].startswith('tuple:') and isinstance(d[0][0], ast.Call) \
                and isinstance(d[0][0].func, ast.Attribute) and d[0][0].func.attr == 'groups' and not d[0][0].args \
                and isinstance(d[0][0].func.value, ast.Name) and d[0][0].func.value.id == match_name:
            return int(d[0][1].split(':')[1]) + 1
        return None
    if isinstance(e, ast.Call) and isinstance(e.func, ast.Attribute) and e.func.attr == 'group' \
            and isinstance(e.func.value, ast.Name) and e.func.value.id == match_name and len(e.args) == 1 \
            and isinstance(e.args[0], ast.Constant) and isinstance(e.args[0].value, int):
        return e.args[0].value
    return None


def re_calls(repo, fi):
    out = []
    for c in U.calls(fi.node):
        d = dotted(c.func) or ''
        if d.startswith('re.') and d[3:] in ('match', 'search', 'fullmatch'):
            out.append(c)
    return out


# ============================================================================ run
def run(ctx):
    repo, ck, res = ctx.repo, ctx.check, ctx.res
    for m in (REQ, STREAM, CMD, CLIENT, UTIL):
        repo.module(m)
    ck.assume('Connection.readline() returns bytes up to and including the first LF, or a shorter tail at EOF, '
              'independently of how the stream was segmented (asyncio.StreamReader.readline)')
    ck.assume('decides construction, framing, ordering and pattern structure on all paths; equality of Reply objects '
              'for every segmentation follows from D3 plus the StreamReader contract and is not shown separately')
    ck.rule('C17-D1', 'every Command(...) site: the name is a constant word; an argument that is not a constant or str(int) '
                      '(decoded URL path, credentials, reply text) passes a check rejecting CR and LF with a handled error '
                      'on every path to the bytes written on the control connection - at the sink Command.to_bytes or on '
                      'the way from its source; nothing is written on the control connection except Command.to_bytes()')
    ck.rule('C17-D2', 'Command.to_bytes builds NAME SP argument CRLF with exactly one CRLF at the end, unformatted fields, '
                      'an ASCII-transparent encoding; write_command writes exactly that once')
    ck.rule('C17-D3', 'read_reply reads the control connection only with readline(), rejects a line without LF, parses every '
                      'line into one fresh Reply and returns only once a line set the code; Reply.parse sets the code only '
                      'for a line starting with exactly three digits followed by a space, to that number')
    ck.rule('C17-D4', 'read_file returns only at EOF of the data connection; read_stream awaits it, then reads the reply, then '
                      'checks the code against closing_data_connection before returning; response_received is stored only '
                      'after read_stream (download) / download (download_listing) completed normally')
    ck.rule('C17-D5', 'the PASV address pattern is "(" six capture groups of one to three digits separated by commas with '
                      'optional blanks ")"; host from groups 1-4, port = g5*256+g6; no match raises')

    checks = LineBreakChecks(ctx)
    d2_argument = rule_d2(ctx, checks)
    rule_d1(ctx, checks, d2_argument)
    rule_d3(ctx)
    rule_d4(ctx)
    # the end of the data stream is what the transport reported: an error or a time-out is never turned into an empty read
    # (rule shared with C08)
    from . import c08 as _c08
    from .common import RemapCtx as _RC
    _c08.d6_eof_is_real(_RC(ctx, {'C08-D6': 'C17-D4'}))
    _c08.d6_read_awaited(_RC(ctx, {'C08-D6': 'C17-D4'}), which=('wpull.protocol.ftp.client:Session.download', 'wpull.protocol.ftp.client:Session.download_listing'))
    rule_d5(ctx)


# ============================================================================ D2
def rule_d2(ctx, checks):
    """Returns {'guard': bool, 'why': str} describing whether Command.to_bytes is a
    guarded, exclusive sink (used by D1)."""
    repo, ck, res = ctx.repo, ctx.check, ctx.res
    cmd = repo.cls(REQ + ':Command')
    tb = repo.func(cmd.qual + '.to_bytes')
    defs = U.local_defs(tb.node)
    rets = [r for r in walk_no_nested(tb.node) if isinstance(r, ast.Return)]
    sink = {'guard': True, 'why': [], 'framed': True}
    if not rets:
        ck.bad('C17-D2', tb.qual, 'return NAME SP argument CRLF', 'Command.to_bytes returns nothing', tb.loc())
        sink['guard'] = False
        sink['framed'] = False
    with_arg = 0
    for r in rets:
        if r.value is None:
            ck.bad('C17-D2', tb.qual, 'return NAME SP argument CRLF', 'Command.to_bytes returns None', tb.loc(r))
            sink['framed'] = False
            continue
        value = U.expand_locals(tb.node, r.value, defs)
        encs = []
        try:
            parts = template(value, encs)
        except NotTemplate as e:
            ck.bad('C17-D2', tb.qual, 'return NAME SP argument CRLF', 'command line is not a recognisable template: %s' % e, tb.loc(r))
            sink['framed'] = False
            continue
        shape = [p[0] if p[0] == 'slot' else p[1] for p in parts]
        problems = []
        arg_slot = None
        if shape == ['slot', ' ', 'slot', '\r\n']:
            name_slot, arg_slot = parts[0], parts[2]
            with_arg += 1
        elif shape == ['slot', '\r\n']:
            name_slot = parts[0]
        else:
            name_slot = None
            lits = ''.join(p[1] for p in parts if p[0] == 'lit')
            if lits.count('\r\n') != 1 or not (parts and parts[-1][0] == 'lit' and parts[-1][1].endswith('\r\n')):
                problems.append('the line does not end with exactly one CRLF')
            else:
                problems.append('the line is not NAME SP argument CRLF')
        if name_slot is not None:
            if norm_text(name_slot[1]) not in ('self.name', 'self._name'):
                problems.append('the first field is %s, not the command name' % norm_text(name_slot[1]))
            if not name_slot[2]:
                problems.append('the name field carries a conversion / format spec')
        if arg_slot is not None:
            if norm_text(arg_slot[1]) != 'self.argument':
                problems.append('the second field is %s, not self.argument' % norm_text(arg_slot[1]))
            if not arg_slot[2]:
                problems.append('the argument field carries a conversion / format spec')
        if not encs:
            problems.append('the line is not encoded to bytes')
        for e in encs:
            nm = enc_name(repo, tb.module, e)
            if nm not in ASCII_TRANSPARENT:
                problems.append('encoding %s is not known to map only CR/LF to the bytes 0x0D/0x0A' % (
                    nm or norm_text(e)))
        ck.expect(not problems, 'C17-D2', tb.qual, 'return NAME SP argument CRLF',
                  'command framing changed: %s; template is %s' % ('; '.join(problems), show_template(parts)), tb.loc(r),
                  okmsg='template %s, encoding %s' % (show_template(parts), ','.join(enc_name(repo, tb.module, e) or '?' for e in encs)))
        if problems:
            sink['framed'] = False
        # D1 sink obligation for this return: every field other than the command name is free of CR and LF here
        text_slots = [q for q in parts if q[0] == 'slot' and norm_text(q[1]) not in ('self.name', 'self._name')]
        for q in text_slots:
            miss = checks.missing_at(tb, q[1], r)
            if miss:
                sink['guard'] = False
                sink['why'].append('Command.to_bytes encodes %s without rejecting %s' % (
                    norm_text(q[1]), ' and '.join(name_chars(c) for c in sorted(miss, reverse=True))))
                first = next(iter(miss.values()))
                sink.setdefault('path', describe_path(first) if first else None)
            else:
                sink.setdefault('guards', []).extend(checks.guard_raises(tb, q[1]))
        if not text_slots and with_arg == 0 and problems:
            sink['guard'] = False
            sink['why'].append('Command.to_bytes framing is not recognised')
    if rets and not with_arg and sink['framed']:
        ck.bad('C17-D2', tb.qual, 'return NAME SP argument CRLF', 'no return of Command.to_bytes carries the argument', tb.loc())

    # the name property feeds the name field
    nm = repo.funcs.get(cmd.qual + '.name')
    if nm is not None:
        okn = all(isinstance(r.value, ast.Attribute) and U.is_self_attr(r.value, '_name')
                  for r in walk_no_nested(nm.node) if isinstance(r, ast.Return))
        ck.expect(okn, 'C17-D2', nm.qual, 'name property returns the stored name', 'Command.name no longer returns self._name', nm.loc())

    # writes on the control connection
    cs = repo.cls(STREAM + ':ControlStream')
    wc = repo.func(cs.qual + '.write_command')
    wdefs = U.local_defs(wc.node)
    cmd_param = wc.params[1] if len(wc.params) > 1 else None
    writes = []
    for mod_name in (STREAM, CMD, CLIENT):
        for f in repo.funcs.values():
            if f.module.name != mod_name:
                continue
            for c in U.calls(f.node):
                if U.attr_name(c) in ('write', 'writelines', 'sendall', 'send') and isinstance(c.func, ast.Attribute):
                    recv = c.func.value
                    rt = norm_text(recv)
                    is_conn = any(t.name in ('Connection', 'BaseConnection', 'SSLConnection') for t in res.type_of(f, recv)) \
                        or 'connection' in rt.lower()
                    if is_conn and not (f.cls is not None and f.cls.name == 'DataStream'):
                        writes.append((f, c))
    in_wc = [(f, c) for f, c in writes if f is wc]
    for f, c in writes:
        if f is not wc:
            ck.bad('C17-D1', f.qual, norm_text(c), 'bytes are written on an FTP connection outside ControlStream.write_command: '
                   'they bypass Command.to_bytes', f.loc(c))
            sink['guard'] = False
            sink['why'].append('%s writes on the connection directly' % f.local)
    okw = len(in_wc) == 1 and cmd_param is not None
    if okw:
        c = in_wc[0][1]
        arg = U.expand_locals(wc.node, c.args[0], wdefs) if c.args else None
        okw = arg is not None and norm_text(arg) == '%s.to_bytes()' % cmd_param \
            and bool(awaited_calls(stmt_map(wc.node)(c), lambda x: x is c))
        # the write is reached on every normal path and not inside a loop
        cfg = ctx.cfg(wc)
        wnodes = cfg.nodes_of(stmt_map(wc.node)(c))
        okw = okw and bool(wnodes) and skips(cfg, cfg.entry, lambda m: m is cfg.exit, wnodes) is None \
            and cfg.find_path(wnodes[0], lambda m: m in wnodes, edge_ok=normal) is None
    ck.expect(okw, 'C17-D2', wc.qual, 'yield from self._connection.write(command.to_bytes()) exactly once',
              'write_command does not write exactly the serialised command once (%d write call(s))' % len(in_wc),
              wc.loc(in_wc[0][1]) if in_wc else wc.loc())
    if not okw:
        sink['guard'] = False
        sink['why'].append('write_command does not write exactly command.to_bytes()')
    return sink


# ============================================================================ D1
def rule_d1(ctx, checks, sink):
    repo, ck, res = ctx.repo, ctx.check, ctx.res
    cmd = repo.cls(REQ + ':Command')
    tb = repo.func(cmd.qual + '.to_bytes')
    prov = Provenance(ctx, checks)
    try:
        remote = const_of(repo, repo.module(BASE), ast.Name(id='REMOTE_ERRORS', ctx=ast.Load()))
    except AnalysisError:
        remote = None
    if not isinstance(remote, tuple) or not remote:
        raise AnalysisError('REMOTE_ERRORS cannot be folded from wpull.processor.base')
    remote = set(remote)

    def handled(fi, raise_stmt):
        exc = raise_stmt.exc
        target = exc.func if isinstance(exc, ast.Call) else exc
        name = dotted(target)
        if name is None:
            return False, norm_text(target)
        canon = repo.canon_exc(fi.module, name) or name
        anc = repo.exc_ancestors(name, fi.module)
        return bool(set(anc) & remote), canon

    # the sink itself
    if sink['guard']:
        raises = sink.get('guards', [])
        bad_types = []
        for gfi, r in raises:
            ok, canon = handled(gfi, r)
            if not ok:
                bad_types.append((gfi, r, canon))
        if not raises:
            # CR/LF cannot reach the return, but not through a recognisable raise (e.g. assert / return): not a rejection
            ck.bad('C17-D1', tb.qual, 'reject CR/LF in self.argument with a handled error',
                   'Command.to_bytes keeps line breaks from the line but does not raise an error for them', tb.loc())
            sink['guard'] = False
            sink['why'].append('Command.to_bytes has no raising CR/LF check')
        for gfi, r, canon in bad_types:
            ck.bad('C17-D1', tb.qual, 'reject CR/LF in self.argument with a handled error',
                   'the CR/LF rejection raises %s, which is not one of REMOTE_ERRORS: a hostile URL ends the crawl '
                   'instead of failing its item' % canon, gfi.loc(r))
        if raises and not bad_types:
            ck.ok('C17-D1', tb.qual, 'sink: CR and LF in self.argument rejected with %s before the line is encoded' % ', '.join(
                sorted({handled(gfi, r)[1].split(':')[-1] for gfi, r in raises})))

    # sites
    sites = []
    for f in repo.funcs.values():
        if f.module.name.startswith('wpull.thirdparty'):
            continue
        for c in U.calls(f.node):
            nm = U.attr_name(c)
            if nm != 'Command' and not (dotted(c.func) or '').endswith('.Command'):
                # aliases: resolve anything whose callee is the class
                continue
            if any(k == 'class' and t is cmd for k, t in res.resolve_call(f, c, count=False)):
                sites.append((f, c, U.kwarg(c, 'name', 0), U.kwarg(c, 'argument', 1), 'ctor'))
        if f.cls is cmd:
            continue
        for n in walk_no_nested(f.node):
            if isinstance(n, ast.Assign):
                for t in n.targets:
                    if isinstance(t, ast.Attribute) and t.attr in ('argument', 'name', '_name') \
                            and any(x is cmd for x in res.type_of(f, t.value)):
                        sites.append((f, n, n.value if t.attr != 'argument' else None,
                                      n.value if t.attr == 'argument' else None, 'store:' + t.attr))
    # stores inside the class other than the constructor's parameter copy (Command.parse)
    for m in cmd.methods.values():
        for n in walk_no_nested(m.node):
            if isinstance(n, ast.Assign) and any(U.is_self_attr(t, 'argument') for t in n.targets):
                if m.name == '__init__' and isinstance(n.value, ast.Name) and n.value.id in m.params:
                    continue
                sites.append((m, n, None, n.value, 'store:argument'))
    ctor = [s for s in sites if s[4] == 'ctor']
    if not ctor:
        ck.bad('C17-D1', CMD, 'Command(...) sites', 'no Command(...) construction site found in the FTP client: the rule would be vacuous')
    ck.info['command_sites'] = []
    for f, node, name_e, arg_e, kind in sites:
        label = norm_text(node)
        smap = stmt_map(f.node)
        st = smap(node) if not isinstance(node, ast.stmt) else node
        if kind == 'ctor' or kind.startswith('store:name') or kind.startswith('store:_name'):
            if kind == 'ctor' and any(isinstance(a, ast.Starred) for a in node.args) or (
                    kind == 'ctor' and any(k.arg is None for k in node.keywords)):
                ck.bad('C17-D1', f.qual, label, 'Command built from *args/**kwargs: name and argument cannot be classified', f.loc(node))
                continue
            if name_e is not None:
                v = const_of(repo, f.module, name_e)
                okn = isinstance(v, str) and re.fullmatch(r'[A-Za-z]{3,4}', v) is not None
                ck.expect(okn, 'C17-D1', f.qual, label + ' name',
                          'the command name %s is not a constant word of 3-4 letters: it is copied into the line unchecked'
                          % norm_text(name_e), f.loc(node), okmsg='%s: constant name' % label)
            elif kind == 'ctor' and arg_e is not None:
                ck.bad('C17-D1', f.qual, label + ' name', 'Command built with an argument but without a name', f.loc(node))
        if kind.startswith('store:') and arg_e is None:
            continue
        verb = const_of(repo, f.module, name_e) if name_e is not None else None
        verb = verb if isinstance(verb, str) else (kind if kind != 'ctor' else '?')
        if arg_e is None:
            ck.ok('C17-D1', f.qual, '%s: no argument' % label, nontrivial=False)
            ck.info['command_sites'].append('%s %s: none' % (f.local, label))
            continue
        # argument provenance
        if m_regex_clean(ctx, f, arg_e):
            ck.ok('C17-D1', f.qual, '%s: argument is a pattern group that cannot contain CR/LF' % label)
            ck.info['command_sites'].append('%s %s: regex-clean' % (f.local, label))
            continue
        ok, desc = prov.clean(f, arg_e, st)
        ck.info['command_sites'].append('%s %s: %s' % (f.local, label, ('clean: ' if ok else 'text: ') + desc))
        if ok:
            ck.ok('C17-D1', f.qual, '%s: %s' % (label, desc))
        elif sink['guard']:
            ck.ok('C17-D1', f.qual, '%s: text (%s) rejected at the sink Command.to_bytes if it holds CR/LF' % (label, desc[:120]))
        else:
            ck.bad('C17-D1', f.qual, label,
                   'the argument of %s is %s and no check rejecting CR/LF lies between it and the control connection '
                   '(%s): percent-encoded line breaks in the URL (ftp://h/a%%0D%%0ADELE%%20x, or in the user name / '
                   'password) put a second command on the wire' % (verb, desc[:300], '; '.join(dict.fromkeys(sink['why'])) or
                                                                   'not at the site, not in Command.to_bytes'),
                   f.loc(node), path=sink.get('path'))


def m_regex_clean(ctx, fi, expr):
    """`<m>.group(k)[.decode(...)]` where group k of the constant pattern cannot match CR or LF."""
    repo = ctx.repo
    defs = U.local_defs(fi.node)
    e = expr
    if isinstance(e, ast.Call) and isinstance(e.func, ast.Attribute) and e.func.attr == 'decode':
        enc = enc_name(repo, fi.module, U.kwarg(e, 'encoding', 0))
        if enc not in ASCII_TRANSPARENT:
            return False
        e = e.func.value
    if not (isinstance(e, ast.Call) and isinstance(e.func, ast.Attribute) and e.func.attr == 'group'
            and isinstance(e.func.value, ast.Name) and len(e.args) == 1 and isinstance(e.args[0], ast.Constant)
            and isinstance(e.args[0].value, int)):
        return False
    k = e.args[0].value
    d = defs.get(e.func.value.id, [])
    if len(d) != 1 or d[0][1] != 'assign' or not isinstance(d[0][0], ast.Call):
        return False
    rx = RX.rx_from_call(repo, fi.module, d[0][0])
    if rx is None:
        return False
    for op, av in rx.walk():
        if op is C.SUBPATTERN and av[0] == k:
            for iop, iav in av[3]:
                items = iav[2] if RX.is_repeat(iop) else [(iop, iav)]
                for it in items:
                    if it[0] not in (C.IN, C.LITERAL, C.NOT_LITERAL, C.ANY, C.CATEGORY):
                        return False
                    if any(RX.can_match_char(rx, it, ord(c)) for c in (CR, LF)):
                        return False
            return True
    return False


# ============================================================================ D3
def conn_reads(ctx, cls):
    """(method, call) for every read-like call on a connection field of the stream class."""
    out = []
    for m in cls.methods.values():
        for c in U.calls(m.node):
            if isinstance(c.func, ast.Attribute) and c.func.attr.startswith(('read', 'recv')):
                recv = c.func.value
                if U.is_self_attr(recv) and ('connection' in recv.attr.lower() or any(
                        t.name.endswith('Connection') for t in ctx.res.type_of(m, recv))):
                    out.append((m, c))
    return out


def rule_d3(ctx):
    repo, ck, res = ctx.repo, ctx.check, ctx.res
    cs = repo.cls(STREAM + ':ControlStream')
    rr = repo.func(cs.qual + '.read_reply')
    reply_cls = repo.cls(REQ + ':Reply')
    cfg = ctx.cfg(rr)
    smap = stmt_map(rr.node)
    reads = conn_reads(ctx, cs)
    line_reads = []
    for m, c in reads:
        ok = m is rr and c.func.attr == 'readline' and not c.args and not c.keywords \
            and bool(awaited_calls(smap(c), lambda x: x is c))
        ck.expect(ok, 'C17-D3', m.qual, norm_text(c),
                  'the control connection is read with %s: reply boundaries then depend on how the stream was segmented '
                  '(only an awaited readline() in read_reply is line-driven)' % norm_text(c), m.loc(c),
                  okmsg='control connection read: awaited %s' % norm_text(c))
        if ok:
            line_reads.append(c)
    if not line_reads:
        ck.bad('C17-D3', rr.qual, 'line = yield from self._connection.readline()', 'read_reply does not read a line from the control connection', rr.loc())
        return
    # parse calls on a Reply local
    parses = []
    for c in U.calls(rr.node, attr='parse'):
        if isinstance(c.func.value, ast.Name) and any(t is reply_cls for t in res.type_of(rr, c.func.value)):
            parses.append(c)
    if not parses:
        ck.bad('C17-D3', rr.qual, 'reply.parse(line)', 'read_reply does not feed the lines to Reply.parse', rr.loc())
        return
    reply_vars = {c.func.value.id for c in parses}
    defs = U.local_defs(rr.node)
    rv = sorted(reply_vars)[0]
    fresh = len(reply_vars) == 1 and len(defs.get(rv, [])) == 1 and isinstance(defs[rv][0][0], ast.Call) \
        and any(k == 'class' and t is reply_cls for k, t in res.resolve_call(rr, defs[rv][0][0], count=False)) \
        and not defs[rv][0][0].args and not defs[rv][0][0].keywords
    if fresh:
        # created once per call, outside the loop: not re-created between lines
        dn = cfg.nodes_of(defs[rv][0][2])
        fresh = bool(dn) and cfg.find_path(dn[0], lambda m: m in dn, edge_ok=normal) is None
    ck.expect(fresh, 'C17-D3', rr.qual, '%s = Reply() once per call' % rv,
              'the reply being assembled is not one fresh Reply per read_reply call (lines of a multi-line reply would be '
              'lost or mixed with a previous reply)', rr.loc())
    parse_nodes = [n for c in parses for n in cfg.nodes_of(smap(c))]
    for c in line_reads:
        st = smap(c)
        rn = cfg.nodes_of(st)
        tgt = st.targets[0].id if isinstance(st, ast.Assign) and len(st.targets) == 1 and isinstance(st.targets[0], ast.Name) else None
        if tgt is None or not rn:
            ck.bad('C17-D3', rr.qual, norm_text(st), 'the line read from the control connection is not kept in a local', rr.loc(c))
            continue
        others = [n for n in def_nodes(cfg, rr.node, tgt) if n not in rn]
        # (a) the parsed data is exactly this line
        okarg = all(len(p.args) == 1 and isinstance(p.args[0], ast.Name) and p.args[0].id == tgt and not p.keywords for p in parses) \
            and not others
        ck.expect(okarg, 'C17-D3', rr.qual, 'reply.parse(%s) receives the line as read' % tgt,
                  'Reply.parse is not given exactly the line returned by readline()', rr.loc(parses[0]))

        # (b) LF required before the line is used
        def lf_fact(e, t, tgt=tgt):
            return _lf_fact(repo, rr, e, t, tgt)
        p = unguarded(cfg, rn, lambda m: m in parse_nodes, lf_fact, stop=lambda m: m in others)
        ck.expect(p is None, 'C17-D3', rr.qual, 'a line without LF raises before it is parsed',
                  'a line that does not end in LF (connection closed in the middle of a reply) reaches Reply.parse: a '
                  'truncated reply is taken for a complete one', rr.loc(st), path=describe_path(p) if p else None)
        # (c) every way out passes the parser ...
        p = skips(cfg, rn[0], lambda m: m is cfg.exit, parse_nodes)
        ck.expect(p is None, 'C17-D3', rr.qual, 'every line read is parsed before read_reply returns',
                  'read_reply can return after reading a line without parsing it', rr.loc(st), path=describe_path(p) if p else None)
        # (c') a read that failed on the reader's line limit is fatal: StreamReader has by then thrown away an arbitrary,
        #      segmentation-dependent part of its buffer, so carrying on parses the middle of a line as a new one
        pm_ = U.parents(rr.node)
        for a_ in U.ancestors(c, pm_):
            if isinstance(a_, ast.Try) and any(c is x for b in a_.body for x in ast.walk(b)):
                for h_ in a_.handlers:
                    ck.expect(U.all_paths_raise(h_.body), 'C17-D3', rr.qual, 'a failed readline() ends read_reply on every path of its handler',
                              'the handler around readline() can carry on after an over-long line: what StreamReader dropped depends on '
                              'how the bytes arrived, so the same reply is assembled differently for different segmentations (and its real '
                              'final line can be left for the next command)', rr.loc(h_))
    # (d) ... and leaves only once the code is set
    def code_fact(e, t):
        if isinstance(e, ast.Compare) and len(e.ops) == 1 and isinstance(e.comparators[0], ast.Constant) \
                and e.comparators[0].value is None and isinstance(e.left, ast.Attribute) and e.left.attr == 'code' \
                and isinstance(e.left.value, ast.Name) and e.left.value.id in reply_vars:
            op = e.ops[0]
            return (isinstance(op, (ast.IsNot, ast.NotEq)) and t) or (isinstance(op, (ast.Is, ast.Eq)) and not t)
        return False
    p = unguarded(cfg, parse_nodes, lambda m: m is cfg.exit, code_fact)
    ck.expect(p is None, 'C17-D3', rr.qual, 'loop left only when reply.code is not None',
              'read_reply can return before a line has set the reply code: a multi-line reply is cut short and its '
              'remaining lines are taken for the next reply', rr.loc(parses[0]), path=describe_path(p) if p else None)
    # the loop goes back to readline when the code is not set
    back = all(cfg.find_path(n, lambda m: any(m in cfg.nodes_of(smap(c)) for c in line_reads), edge_ok=normal) is not None
               for n in parse_nodes)
    ck.expect(back, 'C17-D3', rr.qual, 'further lines are read while the code is unset',
              'after parsing a line read_reply never reads another one', rr.loc())
    rets = [r for r in walk_no_nested(rr.node) if isinstance(r, ast.Return)]
    okr = bool(rets) and all(isinstance(r.value, ast.Name) and r.value.id in reply_vars for r in rets)
    ck.expect(okr, 'C17-D3', rr.qual, 'returns the assembled Reply', 'read_reply does not return the Reply it assembled', rr.loc())

    rule_d3_parse(ctx)


def _lf_fact(repo, fi, e, t, line):
    """`line` certainly ends with LF when e evaluates to t."""
    def is_line(n):
        return isinstance(n, ast.Name) and n.id == line

    def tail_const(sub, const):
        # line[-k:] compared with a k-byte constant ending in LF
        v = const_of(repo, fi.module, const)
        if not isinstance(v, bytes) or not v.endswith(b'\n'):
            return False
        if not (isinstance(sub, ast.Subscript) and is_line(sub.value) and isinstance(sub.slice, ast.Slice)
                and sub.slice.upper is None and sub.slice.step is None):
            return False
        lo = const_of(repo, fi.module, sub.slice.lower) if sub.slice.lower is not None else None
        return lo == -len(v)
    if isinstance(e, ast.Compare) and len(e.ops) == 1:
        l, op, r = e.left, e.ops[0], e.comparators[0]
        hit = tail_const(l, r) or tail_const(r, l)
        if hit:
            return (isinstance(op, ast.Eq) and t) or (isinstance(op, ast.NotEq) and not t)
        return False
    if isinstance(e, ast.Call) and isinstance(e.func, ast.Attribute) and e.func.attr == 'endswith' and is_line(e.func.value) \
            and len(e.args) == 1:
        v = const_of(repo, fi.module, e.args[0])
        return t and isinstance(v, bytes) and v.endswith(b'\n')
    return False


def rule_d3_parse(ctx):
    repo, ck, res = ctx.repo, ctx.check, ctx.res
    pa = repo.func(REQ + ':Reply.parse')
    cfg = ctx.cfg(pa)
    defs = U.local_defs(pa.node)
    smap = stmt_map(pa.node)
    stores = [n for n in simple_nodes(cfg) if isinstance(n.stmt, (ast.Assign, ast.AugAssign)) and any(
        U.is_self_attr(t, 'code') for t in (n.stmt.targets if isinstance(n.stmt, ast.Assign) else [n.stmt.target]))]
    if not stores:
        ck.bad('C17-D3', pa.qual, 'self.code = int(match.group(1))', 'Reply.parse never sets the reply code: read_reply cannot terminate', pa.loc())
        return
    rcs = re_calls(repo, pa)
    if len(rcs) != 1:
        ck.bad('C17-D3', pa.qual, 're.match(<reply line pattern>, line)', 'expected one pattern match per reply line, found %d' % len(rcs), pa.loc())
        return
    call = rcs[0]
    rx = RX.rx_from_call(repo, pa.module, call)
    st = smap(call)
    mv = st.targets[0].id if isinstance(st, ast.Assign) and len(st.targets) == 1 and isinstance(st.targets[0], ast.Name) else None
    if rx is None or mv is None:
        ck.bad('C17-D3', pa.qual, norm_text(call)[:80], 'the reply line pattern is not a constant matched into a local', pa.loc(call))
        return
    is_bytes = isinstance(rx.pattern, bytes)
    fn = dotted(call.func).split('.')[-1]
    top = list(rx.parsed)
    problems = []
    # anchoring: the code must be looked for at the start of the line
    lead = 0
    while lead < len(top) and top[lead][0] is C.AT and top[lead][1] in (C.AT_BEGINNING, C.AT_BEGINNING_STRING):
        lead += 1
    body = top[lead:]
    # re.search is as good as re.match when the pattern is anchored or cannot fail at position 0
    if fn == 'search' and lead == 0 and not nullable(body):
        problems.append('re.search without ^: digits in the middle of a line count as a reply code')
    if rx.flags & re.M and fn == 'search':
        problems.append('MULTILINE search')
    g1 = body[0] if body and body[0][0] is C.SUBPATTERN else None
    g2 = body[1] if len(body) > 1 and body[1][0] is C.SUBPATTERN else None
    k1 = k2 = None
    if g1 is None or g2 is None or g1[1][0] is None or g2[1][0] is None:
        problems.append('the pattern does not start with a code group followed directly by a separator group')
    else:
        k1, k2 = g1[1][0], g2[1][0]
        inner = g1[1][3]
        alts = inner[0][1][1] if len(inner) == 1 and inner[0][0] is C.BRANCH else [inner]
        three = 0
        for a in alts:
            items = unroll(list(a))
            if items is not None and len(items) == 3 and all(digit_only(i, is_bytes) for i in items):
                three += 1
            elif matches_empty_only(list(a)):
                pass
            else:
                problems.append('code group alternative %r is neither exactly three digits nor empty' % (a,))
        if not three:
            problems.append('the code group has no three-digit alternative')
        sep = list(g2[1][3])
        if len(sep) == 1 and RX.is_repeat(sep[0][0]) and sep[0][1][0] in (0, 1) and sep[0][1][1] == 1 and len(sep[0][1][2]) == 1:
            sep = [sep[0][1][2][0]]
        if not (len(sep) == 1 and sep[0][0] in (C.IN, C.LITERAL) and RX.class_matches(sep[0], 32)):
            problems.append('the separator group is not a single character that can be a space')
    ck.expect(not problems, 'C17-D3', pa.qual, 'line pattern: start of line, (three digits | empty), (separator incl. SP)',
              'the reply line pattern %r no longer isolates "three digits" and the following character: %s' % (
                  rx.pattern, '; '.join(problems)), pa.loc(call), okmsg='pattern %r via re.%s' % (rx.pattern, fn))
    if problems:
        return
    space = b' ' if is_bytes else ' '
    mdefs = def_nodes(cfg, pa.node, mv)

    def g1_fact(e, t):
        if group_index(mv, pa, defs, e) == k1:
            return t
        if isinstance(e, ast.Compare) and len(e.ops) == 1:
            l, op, r = e.left, e.ops[0], e.comparators[0]
            if group_index(mv, pa, defs, l) == k1 and const_of(repo, pa.module, r) in (b'', ''):
                return (isinstance(op, ast.NotEq) and t) or (isinstance(op, ast.Eq) and not t)
        return False

    def g2_fact(e, t):
        if isinstance(e, ast.Compare) and len(e.ops) == 1:
            l, op, r = e.left, e.ops[0], e.comparators[0]
            for a, b in ((l, r), (r, l)):
                if group_index(mv, pa, defs, a) == k2:
                    v = const_of(repo, pa.module, b)
                    if v == space and type(v) is type(space):
                        return (isinstance(op, ast.Eq) and t) or (isinstance(op, ast.NotEq) and not t)
        return False
    for s in stores:
        for what, fact in (('the code group matched three digits', g1_fact), ('the separator is a space', g2_fact)):
            p = unguarded(cfg, mdefs or [cfg.entry], lambda m, s=s: m is s, fact, stop=lambda m: m in mdefs)
            ck.expect(p is None, 'C17-D3', pa.qual, 'self.code set only when ' + what,
                      'Reply.parse sets the code for a line although not %s: a continuation line ("226-...") or a text '
                      'line is taken for the final line and the reply ends early' % what.replace('matched', 'having matched'),
                      pa.loc(s.stmt), path=describe_path(p) if p else None)
        val = s.stmt.value
        okv = isinstance(s.stmt, ast.Assign) and isinstance(val, ast.Call) and dotted(val.func) == 'int' and len(val.args) == 1 \
            and group_index(mv, pa, defs, val.args[0]) == k1
        ck.expect(okv, 'C17-D3', pa.qual, 'self.code = int(<code group>)',
                  'the stored reply code is not the number in the code group', pa.loc(s.stmt))
    # the lines matched are the lines as sent: an indented text line ("  226 of 4096 bytes") is a continuation only while its
    # leading blanks are still there, so the text may not be stripped on the left before it is split / matched
    data_param = pa.params[1] if len(pa.params) > 1 else None
    loops = [n for n in walk_no_nested(pa.node) if isinstance(n, ast.For) and isinstance(n.iter, ast.Call) and U.attr_name(n.iter) == 'splitlines']
    okraw = bool(loops)
    for n in loops:
        recv = n.iter.func.value
        okraw = okraw and isinstance(recv, ast.Name) and recv.id == data_param and not [
            d for d in U.local_defs(pa.node).get(recv.id, []) if d[1] != 'param']
        lv = n.target.id if isinstance(n.target, ast.Name) else None
        if lv:
            okraw = okraw and not any(isinstance(c, ast.Call) and U.attr_name(c) in ('strip', 'lstrip') and isinstance(c.func.value, ast.Name)
                                      and c.func.value.id == lv and any(isinstance(st_, ast.Assign) and st_.value is c and any(
                                          isinstance(t, ast.Name) and t.id == lv for t in st_.targets) for st_ in walk_no_nested(n))
                                      for c in U.calls(n))
    ck.expect(okraw, 'C17-D3', pa.qual, 'for line in %s.splitlines(...): the lines are matched as sent' % (data_param or 'data'),
              'the reply text is stripped before it is split into lines: read_reply feeds one line at a time, so the leading blanks of an '
              'indented text line are lost and a text line that begins with three digits and a space ends the reply early', pa.loc(loops[0]) if loops else pa.loc())
    # informational: how the data is split into lines
    for n in walk_no_nested(pa.node):
        if isinstance(n, ast.For) and isinstance(n.iter, ast.Call) and U.attr_name(n.iter) == 'splitlines':
            ck.remark('C17-D3 note: Reply.parse splits its input with %s, which also breaks at a bare CR inside one '
                      'LF-terminated line; assembly stays independent of segmentation (readline), the assertion this can '
                      'trip is a C09-D4 matter' % norm_text(n.iter))


# ============================================================================ D4
def rule_d4(ctx):
    repo, ck, res = ctx.repo, ctx.check, ctx.res
    # ---- DataStream.read_file returns only at EOF
    rf = repo.func(STREAM + ':DataStream.read_file')
    cfg = ctx.cfg(rf)
    smap = stmt_map(rf.node)
    ds = repo.cls(STREAM + ':DataStream')
    rds = [(m, c) for m, c in conn_reads(ctx, ds) if m is rf]
    rnodes, var = [], None
    for m, c in rds:
        st = smap(c)
        if isinstance(st, ast.Assign) and len(st.targets) == 1 and isinstance(st.targets[0], ast.Name) \
                and awaited_calls(st, lambda x: x is c):
            rnodes.extend(cfg.nodes_of(st))
            var = st.targets[0].id
    if not rnodes:
        ck.bad('C17-D4', rf.qual, 'data = yield from self._connection.read(n)', 'read_file does not read the data connection', rf.loc())
    else:
        def empty_fact(e, t):
            if isinstance(e, ast.Name) and e.id == var:
                return not t
            if isinstance(e, ast.Compare) and len(e.ops) == 1:
                l, op, r = e.left, e.ops[0], e.comparators[0]
                v = const_of(repo, rf.module, r)
                if isinstance(l, ast.Name) and l.id == var and v == b'':
                    return (isinstance(op, ast.Eq) and t) or (isinstance(op, ast.NotEq) and not t)
                if isinstance(l, ast.Call) and dotted(l.func) == 'len' and len(l.args) == 1 and isinstance(l.args[0], ast.Name) \
                        and l.args[0].id == var and v == 0 and type(v) is int:
                    return (isinstance(op, ast.Eq) and t) or (isinstance(op, (ast.NotEq, ast.Gt)) and not t)
            if isinstance(e, ast.Call) and dotted(e.func) == 'len' and len(e.args) == 1 and isinstance(e.args[0], ast.Name) \
                    and e.args[0].id == var:
                return not t
            return False
        p = skips(cfg, cfg.entry, lambda m: m is cfg.exit, rnodes)
        p = p or unguarded(cfg, rnodes, lambda m: m is cfg.exit, empty_fact, stop=lambda m: m in rnodes)
        ck.expect(p is None, 'C17-D4', rf.qual, 'read_file returns only after read() returned no data (EOF)',
                  'read_file can return before the data connection reached EOF: the transfer is taken for complete while '
                  'the server is still sending', rf.loc(), path=describe_path(p) if p else None)

    # ---- Commander.raise_if_not_match
    rm = repo.func(CMD + ':Commander.raise_if_not_match')
    mcfg = ctx.cfg(rm)
    prm = rm.params
    if len(prm) < 4:
        ck.bad('C17-D4', rm.qual, 'raise_if_not_match(action, expected_code, reply)', 'signature changed', rm.loc())
        ok_rim = False
    else:
        exp, rep = prm[2], prm[3]
        mdefs = U.local_defs(rm.node)

        def is_expected(n):
            if isinstance(n, ast.Name) and n.id == exp:
                return True
            if isinstance(n, (ast.Tuple, ast.List, ast.Set)) and len(n.elts) == 1:
                return is_expected(n.elts[0])
            if isinstance(n, ast.Name) and n.id in mdefs:
                ds_ = [d for d in mdefs[n.id]]
                return bool(ds_) and all(k == 'assign' and is_expected(v) for v, k, _ in ds_)
            return False

        def in_fact(e, t):
            if isinstance(e, ast.Compare) and len(e.ops) == 1 and isinstance(e.left, ast.Attribute) and e.left.attr == 'code' \
                    and isinstance(e.left.value, ast.Name) and e.left.value.id == rep and is_expected(e.comparators[0]):
                op = e.ops[0]
                return (isinstance(op, ast.In) and t) or (isinstance(op, ast.NotIn) and not t)
            return False
        p = unguarded(mcfg, [mcfg.entry], lambda m: m is mcfg.exit, in_fact)
        ok_rim = ck.expect(p is None, 'C17-D4', rm.qual, 'returns normally only if reply.code is one of the expected codes',
                           'raise_if_not_match can return although the reply code is not an expected one', rm.loc(),
                           path=describe_path(p) if p else None)

    # ---- Commander.read_stream
    rs = repo.func(CMD + ':Commander.read_stream')
    cfg = ctx.cfg(rs)
    nodes = simple_nodes(cfg)

    def is_read_file(c):
        return isinstance(c.func, ast.Attribute) and c.func.attr == 'read_file' and isinstance(c.func.value, ast.Name) \
            and c.func.value.id in rs.params

    def is_read_reply(c):
        return isinstance(c.func, ast.Attribute) and c.func.attr == 'read_reply' and U.is_self_attr(c.func.value, '_control_stream')
    R = [n for n in nodes if awaited_calls(n.stmt, is_read_file)]
    P = [n for n in nodes if awaited_calls(n.stmt, is_read_reply)]
    if not R:
        ck.bad('C17-D4', rs.qual, 'yield from data_stream.read_file(file=file)',
               'read_stream does not await the data connection being read to its end', rs.loc())
    if not P:
        ck.bad('C17-D4', rs.qual, 'reply = yield from self._control_stream.read_reply()',
               'read_stream does not read the closing reply', rs.loc())
    if R and P:
        p = skips(cfg, cfg.entry, lambda m: m in P, R)
        ck.expect(p is None, 'C17-D4', rs.qual, 'read_file completes before read_reply',
                  'the closing reply is read before the data connection was read to EOF: completion is reported while data '
                  'may still be in flight', rs.loc(P[0].stmt), path=describe_path(p) if p else None)
    if P:
        reply_names = {n.stmt.targets[0].id for n in P if isinstance(n.stmt, ast.Assign) and len(n.stmt.targets) == 1
                       and isinstance(n.stmt.targets[0], ast.Name)}

        def is_check(n):
            for c in U.calls(n.stmt):
                if U.attr_name(c) != 'raise_if_not_match':
                    continue
                if not any(g is rm for g in res.callee_funcs(rs, c, count=False)):
                    continue
                codes = U.kwarg(c, 'expected_code', 1)
                rep_e = U.kwarg(c, 'reply', 2)
                v = const_of(repo, rs.module, codes) if codes is not None else None
                vals = set(v) if isinstance(v, (tuple, frozenset)) else ({v} if isinstance(v, int) else set())
                if vals and vals <= TRANSFER_COMPLETE and all(type(x) is int for x in vals) \
                        and isinstance(rep_e, ast.Name) and rep_e.id in reply_names:
                    return True
            return False
        M = [n for n in nodes if is_check(n)]
        p = None
        if len(P) == 1:
            p = skips(cfg, cfg.entry, lambda m: m is cfg.exit, M) or skips(cfg, cfg.entry, lambda m: m is cfg.exit, P) \
                or skips(cfg, cfg.entry, lambda m: m in M, P)
        if len(P) != 1:
            ck.bad('C17-D4', rs.qual, 'one closing reply', 'read_stream reads %d replies' % len(P), rs.loc(P[1].stmt))
        else:
            ck.expect(p is None and ok_rim is not False and bool(M), 'C17-D4', rs.qual,
                      'reply code checked against closing_data_connection before returning',
                      'read_stream can return normally without the closing reply having been checked against '
                      'closing_data_connection (226): a failed or aborted transfer (426/451/550) is reported complete',
                      rs.loc(P[0].stmt), path=describe_path(p) if p else None)
            # no later re-binding of the reply between check and return
            rets = [n for n in cfg.nodes if n.kind == 'return']
            okret = bool(rets) and all(isinstance(n.stmt.value, ast.Name) and n.stmt.value.id in reply_names for n in rets) \
                and all(len(U.local_defs(rs.node).get(nm, [])) == 1 for nm in reply_names)
            ck.expect(okret, 'C17-D4', rs.qual, 'returns the checked reply', 'read_stream does not return the reply it checked', rs.loc())

    # ---- Session.download / download_listing
    sess = repo.cls(CLIENT + ':Session')
    dl = repo.func(sess.qual + '.download')
    dll = repo.func(sess.qual + '.download_listing')

    def is_done_store(st):
        if isinstance(st, ast.Assign) and any(U.is_self_attr(t, '_session_state') for t in st.targets) \
                and (dotted(st.value) or '').endswith('SessionState.response_received'):
            return True
        # announcing end_transfer tells listeners (e.g. the WARC recorder) that the transfer is complete
        if isinstance(st, ast.Expr) and isinstance(st.value, ast.Call) and U.attr_name(st.value) == 'notify' and st.value.args \
                and (dotted(st.value.args[0]) or '').endswith('Event.end_transfer'):
            return True
        return False

    def completion_rule(fi, is_await, what, missing_msg):
        cfg = ctx.cfg(fi)
        A = [n for n in simple_nodes(cfg) if is_await(fi, n.stmt)]
        S = [n for n in simple_nodes(cfg) if is_done_store(n.stmt)]
        if not A:
            ck.bad('C17-D4', fi.qual, what, missing_msg, fi.loc())
            return
        if not S:
            ck.bad('C17-D4', fi.qual, 'self._session_state = SessionState.response_received',
                   '%s never marks the response as received' % fi.local, fi.loc())
            return

        def edge_ok(a, b, k):
            # everything except "A finished normally"
            return not (a in A and normal(a, b, k))
        for s in S:
            p = cfg.find_path(cfg.entry, lambda m, s=s: m is s, edge_ok=edge_ok)
            ck.expect(p is None, 'C17-D4', fi.qual, 'response_received stored only after %s completed normally' % what,
                      'the session is marked response_received on a path where %s did not complete normally (not awaited, '
                      'skipped, or its failure swallowed): the transfer is reported complete without the data connection '
                      'having closed and the server having confirmed' % what, fi.loc(s.stmt), path=describe_path(p) if p else None)

    def awaits_read_stream(fi, st):
        def is_rs(n):
            return isinstance(n, ast.Call) and isinstance(n.func, ast.Attribute) and n.func.attr == 'read_stream' \
                and U.is_self_attr(n.func.value, '_commander')
        for y in walk_no_nested(st):
            if isinstance(y, (ast.YieldFrom, ast.Await)) and U.derives_from(fi.node, y.value, is_rs):
                return True
        return False

    def awaits_download(fi, st):
        return bool(awaited_calls(st, lambda c: isinstance(c.func, ast.Attribute) and c.func.attr == 'download'
                                  and isinstance(c.func.value, ast.Name) and c.func.value.id == 'self'))
    completion_rule(dl, awaits_read_stream, 'self._commander.read_stream(...)',
                    'download does not await Commander.read_stream')
    completion_rule(dll, awaits_download, 'self.download(...)', 'download_listing does not await download')
    # the data stream handed to read_stream is the one opened for this transfer
    rsc = [c for c in U.calls(dl.node, attr='read_stream') if U.is_self_attr(c.func.value, '_commander')]
    okds = len(rsc) == 1 and U.kwarg(rsc[0], 'data_stream', 1) is not None and U.is_self_attr(U.kwarg(rsc[0], 'data_stream', 1), '_data_stream')
    ck.expect(okds, 'C17-D4', dl.qual, 'read_stream(file, self._data_stream)',
              'download does not hand the opened data stream to read_stream', dl.loc(rsc[0]) if rsc else dl.loc())
    # no other place marks completion
    for m in sess.methods.values():
        if m in (dl, dll):
            continue
        for n in walk_no_nested(m.node):
            if is_done_store(n):
                ck.bad('C17-D4', m.qual, norm_text(n), 'response_received is stored outside download / download_listing', m.loc(n))


# ============================================================================ D5
def rule_d5(ctx):
    repo, ck, res = ctx.repo, ctx.check, ctx.res
    pa = repo.func(UTIL + ':parse_address')
    cfg = ctx.cfg(pa)
    smap = stmt_map(pa.node)
    defs = U.local_defs(pa.node)
    rcs = re_calls(repo, pa)
    if len(rcs) != 1:
        ck.bad('C17-D5', pa.qual, 're.search(<address pattern>, text)', 'expected one pattern match, found %d' % len(rcs), pa.loc())
        return
    call = rcs[0]
    rx = RX.rx_from_call(repo, pa.module, call)
    st = smap(call)
    mv = st.targets[0].id if isinstance(st, ast.Assign) and len(st.targets) == 1 and isinstance(st.targets[0], ast.Name) else None
    if rx is None or mv is None:
        ck.bad('C17-D5', pa.qual, norm_text(call)[:60], 'the address pattern is not a constant matched into a local', pa.loc(call))
        return
    toks = []
    groups = []
    for op, av in rx.parsed:
        if op is C.LITERAL and av in (40, 41, 44):
            toks.append(chr(av))
        elif RX.is_repeat(op) and av[0] == 0 and len(av[2]) == 1 and space_only(av[2][0]):
            toks.append('w')
        elif op is C.SUBPATTERN and av[0] is not None and len(av[3]) == 1 and RX.is_repeat(av[3][0][0]) \
                and av[3][0][1][0] == 1 and av[3][0][1][1] == 3 and len(av[3][0][1][2]) == 1 \
                and digit_only(av[3][0][1][2][0], False):
            toks.append('G')
            groups.append(av[0])
        elif op is C.AT:
            toks.append('^')
        else:
            toks.append('?')
    shape = ''.join(toks)
    okp = re.fullmatch(r'\(w*G(?:w*,w*G){5}w*\)', shape) is not None and groups == [1, 2, 3, 4, 5, 6]
    ck.expect(okp, 'C17-D5', pa.qual, 'pattern "(" d{1,3} ("," d{1,3}){5} ")" with optional blanks',
              'the passive-address pattern %r has shape %s instead of six comma-separated groups of one to three digits '
              'in parentheses' % (rx.pattern, shape), pa.loc(call), okmsg='pattern shape %s' % shape)
    # subject is the reply text parameter
    subj = call.args[1] if len(call.args) > 1 else None
    ck.expect(isinstance(subj, ast.Name) and subj.id in pa.params, 'C17-D5', pa.qual, 'pattern applied to the reply text',
              'the pattern is not applied to the text parameter', pa.loc(call))
    rets = [n for n in cfg.nodes if n.kind == 'return']
    if not rets:
        ck.bad('C17-D5', pa.qual, 'return (host, port)', 'parse_address returns nothing', pa.loc())
        return

    def int_group(e, k):
        e = U.expand_locals(pa.node, e, defs, skip=(mv,))
        if isinstance(e, ast.Call) and dotted(e.func) == 'int' and len(e.args) == 1:
            return group_index(mv, pa, defs, e.args[0]) == k
        return False
    for r in rets:
        v = r.stmt.value
        ok = isinstance(v, ast.Tuple) and len(v.elts) == 2
        if ok:
            host = U.expand_locals(pa.node, v.elts[0], defs, skip=(mv,))
            try:
                parts = template(host, [])
            except NotTemplate:
                parts = []
            shape_h = [p[1] if p[0] == 'lit' else 'slot' for p in parts]
            ok = shape_h == ['slot', '.', 'slot', '.', 'slot', '.', 'slot'] and all(
                int_group(p[1], i + 1) or group_index(mv, pa, defs, p[1]) == i + 1
                for i, p in enumerate([q for q in parts if q[0] == 'slot']))
            port = U.expand_locals(pa.node, v.elts[1], defs, skip=(mv,))
            okport = False
            if isinstance(port, ast.BinOp) and isinstance(port.op, (ast.BitOr, ast.Add)):
                for hi, lo in ((port.left, port.right), (port.right, port.left)):
                    if isinstance(hi, ast.BinOp) and int_group(lo, 6):
                        if isinstance(hi.op, ast.LShift) and int_group(hi.left, 5) and const_of(repo, pa.module, hi.right) == 8:
                            okport = True
                        if isinstance(hi.op, ast.Mult) and (
                                (int_group(hi.left, 5) and const_of(repo, pa.module, hi.right) == 256)
                                or (int_group(hi.right, 5) and const_of(repo, pa.module, hi.left) == 256)):
                            okport = True
            ok = ok and okport
        ck.expect(ok, 'C17-D5', pa.qual, 'host = g1.g2.g3.g4, port = g5*256 + g6',
                  'the address is not assembled as groups 1-4 joined by dots and port = group5 * 256 + group6', pa.loc(r.stmt))

    def match_fact(e, t):
        if isinstance(e, ast.Name) and e.id == mv:
            return t
        if isinstance(e, ast.Compare) and len(e.ops) == 1 and isinstance(e.left, ast.Name) and e.left.id == mv \
                and isinstance(e.comparators[0], ast.Constant) and e.comparators[0].value is None:
            op = e.ops[0]
            return (isinstance(op, (ast.IsNot, ast.NotEq)) and t) or (isinstance(op, (ast.Is, ast.Eq)) and not t)
        return False
    mdefs = def_nodes(cfg, pa.node, mv)
    p = unguarded(cfg, mdefs, lambda m: m is cfg.exit, match_fact, stop=lambda m: m in mdefs)
    ck.expect(p is None, 'C17-D5', pa.qual, 'no match -> raise',
              'parse_address can return normally although the reply text did not match the pattern', pa.loc(),
              path=describe_path(p) if p else None)
