"""C14 - the URL table is a keyed set with a status state machine.

Decides the schema, the shape of the SQL statement(s) every table operation executes on
every path, the detection of newly added rows and the forwarding done by the hook
wrapper (DESIGN.md section 3, C14-D1..D4; DESIGN-tables.md table L).  Not decided:
equivalence with a reference model over histories (SQL semantics live in
SQLAlchemy/SQLite).
"""
import ast

from ..index import dotted, walk_no_nested, norm_text, AnalysisError
from .. import util as U
from .. import flow as F
from ..cfg import describe_path
from ..dtable import Interp, txt, fmt_val

SQLT = 'wpull.database.sqltable'
SQLM = 'wpull.database.sqlmodel'
BASE = 'wpull.database.base'
WRAP = 'wpull.database.wrap'
ITEM = 'wpull.pipeline.item'
TABLE = SQLT + ':BaseSQLURLTable'
MODELS = ('QueuedURL', 'URLString', 'Hostname', 'QueuedFile', 'WARCVisit')
CTORS = ('insert', 'update', 'delete', 'select')
OPS = {ast.Eq: '==', ast.NotEq: '!=', ast.Lt: '<', ast.LtE: '<=', ast.Gt: '>', ast.GtE: '>='}
FLIP = {'==': '==', '!=': '!=', '<': '>', '<=': '>=', '>': '<', '>=': '<='}
NEUTRAL_SELECT_STEPS = {'limit', 'as_scalar', 'scalar_subquery', 'label'}


# ---------------------------------------------------------------------- small helpers
class Ob:
    """Named obligations of one operation, evaluated over all of its paths; one rule
    instance per obligation."""

    def __init__(self, ck, rule, fi):
        self.ck, self.rule, self.fi = ck, rule, fi
        self.names = []
        self.fails = {}
        self.locs = {}

    def declare(self, *names):
        for n in names:
            if n not in self.names:
                self.names.append(n)

    def fail(self, name, msg, node=None):
        self.declare(name)
        if msg not in self.fails.setdefault(name, []):
            self.fails[name].append(msg)
        if node is not None and hasattr(node, 'lineno'):
            self.locs.setdefault(name, node)

    def need(self, cond, name, msg, node=None):
        self.declare(name)
        if not cond:
            self.fail(name, msg, node)
        return cond

    def close(self):
        for n in self.names:
            if n in self.fails:
                self.ck.bad(self.rule, self.fi.qual, n, '; '.join(self.fails[n][:3]), self.fi.loc(self.locs.get(n)))
            else:
                self.ck.ok(self.rule, self.fi.qual, n)


class Sql:
    """Recognition of SQLAlchemy constructs in the AST of one module."""

    def __init__(self, repo, module):
        self.repo = repo
        self.module = module

    def model(self, expr):
        """Name of the model class an expression denotes, or None."""
        d = dotted(expr)
        if d is None:
            if isinstance(expr, ast.Constant) and expr.value in MODELS:
                return expr.value
            return None
        r = self.repo.resolve_name(self.module, d)
        if r and r[0] == 'class' and r[1].module.name == SQLM and r[1].name in MODELS:
            return r[1].name
        return None

    def col(self, expr):
        """'Model.column' for an attribute of a model class, else None."""
        if isinstance(expr, ast.Attribute):
            m = self.model(expr.value)
            if m:
                return '%s.%s' % (m, expr.attr)
        return None

    def ext(self, expr):
        """Canonical dotted name of an external (non-wpull) object, or None."""
        d = dotted(expr)
        if d is None:
            return None
        r = self.repo.resolve_name(self.module, d)
        if r and r[0] == 'external':
            return r[1]
        return None

    def ctor(self, call):
        """('insert'|'update'|'delete'|'select', model or None, table expr) for a statement constructor call."""
        if not isinstance(call, ast.Call):
            return None
        e = self.ext(call.func)
        if e and e.startswith('sqlalchemy') and e.split('.')[-1] in CTORS:
            kind = e.split('.')[-1]
            arg = call.args[0] if call.args else None
            if kind == 'select' and isinstance(arg, (ast.List, ast.Tuple)) and len(arg.elts) == 1:
                arg = arg.elts[0]
            return kind, (self.model(arg) if arg is not None else None), arg
        if isinstance(call.func, ast.Attribute) and call.func.attr in ('insert', 'update', 'delete') \
                and (dotted(call.func.value) or '').endswith('.__table__'):
            head = call.func.value.value
            return call.func.attr, self.model(head), head
        return None

    def chain(self, expr):
        """(root expr, [(method name, call)]) of a method chain; the root is a statement
        constructor call, or whatever is not a method call."""
        steps = []
        cur = expr
        while isinstance(cur, ast.Call) and isinstance(cur.func, ast.Attribute) and self.ctor(cur) is None:
            steps.append((cur.func.attr, cur))
            cur = cur.func.value
        steps.reverse()
        return cur, steps

    def conds(self, exprs, entity=None, kwargs=()):
        """Flatten filter/where arguments to [(column, op, rhs expr)]; col-col comparisons
        become ('join', frozenset(cols), op); anything else ('?', text, None)."""
        out = []
        for e in exprs:
            if isinstance(e, ast.Call) and (dotted(e.func) or '').split('.')[-1] == 'and_' and not e.keywords:
                out += self.conds(e.args, entity)
            elif isinstance(e, ast.Compare) and len(e.ops) == 1 and type(e.ops[0]) in OPS:
                l, r, op = e.left, e.comparators[0], OPS[type(e.ops[0])]
                lc, rc = self.col(l), self.col(r)
                if lc and rc:
                    out.append(('join', frozenset((lc, rc)), op))
                elif lc:
                    out.append((lc, op, r))
                elif rc:
                    out.append((rc, FLIP[op], l))
                else:
                    out.append(('?', norm_text(e), None))
            else:
                out.append(('?', norm_text(e), None))
        for k in kwargs:
            if k.arg is None or entity is None:
                out.append(('?', '**' + norm_text(k.value), None))
            else:
                out.append(('%s.%s' % (entity, k.arg), '==', k.value))
        return out

    def query(self, expr, session):
        """Decompose `<session>.query(E).filter(..).filter_by(..).first()` ->
        dict(entity, conds, terminal, extra) or None when expr is not such a chain."""
        root, steps = self.chain(expr)
        if not (isinstance(root, ast.Name) and root.id == session and steps and steps[0][0] == 'query'):
            return None
        qc = steps[0][1]
        ent_e = qc.args[0] if len(qc.args) == 1 and not qc.keywords else None
        entity = self.model(ent_e) if ent_e is not None else None
        if entity is None and ent_e is not None and self.col(ent_e):
            fent = self.col(ent_e).split('.')[0]
        else:
            fent = entity
        q = {'entity': entity, 'entity_expr': ent_e, 'conds': [], 'terminal': None, 'extra': [], 'text': norm_text(expr)}
        for name, c in steps[1:]:
            if q['terminal'] is not None:
                q['extra'].append(q['terminal'])
                q['terminal'] = None
            if name in ('filter', 'filter_by'):
                q['conds'] += self.conds(c.args, fent, c.keywords)
            elif name == 'order_by':
                pass
            elif name == 'limit' and len(c.args) == 1 and isinstance(c.args[0], ast.Constant) and c.args[0].value == 1:
                pass
            elif name in ('first', 'scalar', 'count', 'all', 'one', 'one_or_none') and not c.args and not c.keywords:
                q['terminal'] = name
            else:
                q['extra'].append(name)
        return q

    def url_id_select(self, expr, url_text, canon=lambda e: norm_text(e)):
        """expr is `select([URLString.id]).where(URLString.url == <url>)[.limit(1)]`."""
        root, steps = self.chain(expr)
        c = self.ctor(root)
        if not c or c[0] != 'select' or self.col(c[2]) != 'URLString.id':
            return False
        wh = [s for s in steps if s[0] == 'where']
        if len(wh) != 1 or any(n not in NEUTRAL_SELECT_STEPS and n != 'where' for n, _ in steps):
            return False
        cs = self.conds(wh[0][1].args)
        return len(cs) == 1 and cs[0][0] == 'URLString.url' and cs[0][1] == '==' and canon(cs[0][2]) == url_text

    def statement(self, expr):
        """Decompose `update(T).values(V).where(C)...` -> dict(kind, model, values, wheres, prefixes, extra) or None."""
        root, steps = self.chain(expr)
        c = self.ctor(root)
        if not c or c[0] == 'select':
            return None
        st = {'kind': c[0], 'model': c[1], 'values': [], 'wheres': [], 'prefixes': [], 'extra': [], 'node': root,
              'text': norm_text(expr)}
        if c[0] == 'update' and len(root.args) > 1:
            st['extra'].append('update(table, whereclause...)')
        for kw in root.keywords:
            if kw.arg == 'values' and kw.value is not None:
                st['values'].append(('arg', kw.value))
            else:
                st['extra'].append('%s=' % kw.arg)
        for name, call in steps:
            if name == 'values':
                for a in call.args:
                    st['values'].append(('arg', a))
                for k in call.keywords:
                    st['values'].append(('kw', k))
            elif name == 'where':
                st['wheres'].append(call)
            elif name == 'prefix_with':
                st['prefixes'].append(call)
            else:
                st['extra'].append(name)
        return st


def or_ignore(repo, module, call):
    """call is `.prefix_with('OR IGNORE')` (constant folded, case/space-insensitive)."""
    if len(call.args) != 1:
        return False
    v = U.const_str(repo, module, call.args[0])
    return isinstance(v, str) and ' '.join(v.upper().split()) == 'OR IGNORE'


def status_member(repo, module, expr):
    """Name of the Status member whose *value* expr denotes (`Status.x.value`, or a
    string constant equal to a member's value), else None."""
    st = repo.cls(ITEM + ':Status')
    members = {}
    for k, v in st.class_assigns.items():
        if isinstance(v, ast.Constant) and isinstance(v.value, str):
            members[k] = v.value
    if isinstance(expr, ast.Attribute) and expr.attr == 'value' and isinstance(expr.value, ast.Attribute):
        d = dotted(expr.value.value)
        r = repo.resolve_name(module, d) if d else None
        if r and r[0] == 'class' and r[1].qual == st.qual and expr.value.attr in members:
            return expr.value.attr
        return None
    v = U.const_str(repo, module, expr)
    if isinstance(v, str):
        hits = [k for k, mv in members.items() if mv == v]
        if len(hits) == 1:
            return hits[0]
    return None


def session_withs(fn):
    """[(With node, session variable name)] for `with self._session() as S` in fn."""
    out = []
    for n in walk_no_nested(fn):
        if isinstance(n, ast.With):
            for it in n.items:
                c = it.context_expr
                if isinstance(c, ast.Call) and U.is_self_attr(c.func, '_session') and not c.args:
                    out.append((n, it.optional_vars.id if isinstance(it.optional_vars, ast.Name) else None))
    return out


def inside(node, root):
    return any(n is node for n in ast.walk(root))


def is_logging(call):
    d = dotted(call.func) or ''
    return d.startswith('_logger.') or d.startswith('logging.')


def colkey(sql, e):
    """Column a `.values()` dict key denotes: `QueuedURL.status` or 'status'."""
    c = sql.col(e)
    if c:
        return c
    if isinstance(e, ast.Constant) and isinstance(e.value, str):
        return '*.' + e.value
    return None


def same_col(key, model, name):
    return key in ('%s.%s' % (model, name), '*.' + name)


# ---------------------------------------------------------------------- leaves of an operation
def parse_effect(s):
    if s.startswith('with '):
        return ('with', s[5:])
    if s.startswith('except ') or s.startswith('loop over '):
        return ('unknown', s)
    try:
        node = ast.parse(s).body[0]
    except SyntaxError:
        return ('unknown', s)
    return ('stmt', node)


def leaf_events(lf, session):
    """Classified effects of one decision-tree leaf, in program order."""
    ev = []
    for s in lf.effects:
        kind, x = parse_effect(s)
        if kind == 'with':
            ev.append(('with', x))
        elif kind == 'unknown':
            ev.append(('unknown', x))
        elif isinstance(x, ast.Assert):
            continue
        elif isinstance(x, ast.Expr) and isinstance(x.value, ast.Call):
            c = x.value
            if is_logging(c):
                continue
            f = c.func
            if isinstance(f, ast.Attribute) and f.attr == 'execute' and isinstance(f.value, ast.Name) and f.value.id == session:
                ev.append(('execute', c))
            elif isinstance(f, ast.Attribute) and f.attr == 'update' and isinstance(f.value, ast.Dict) and len(c.args) == 1 \
                    and not c.keywords:
                ev.append(('dictupdate', txt(f.value), c.args[0]))
            else:
                ev.append(('unknown', s))
        elif isinstance(x, ast.Assign) and len(x.targets) == 1 and isinstance(x.targets[0], ast.Attribute):
            ev.append(('attrstore', x.targets[0], x.value))
        elif isinstance(x, ast.Assign) and len(x.targets) == 1 and isinstance(x.targets[0], ast.Subscript) \
                and isinstance(x.targets[0].value, ast.Dict):
            ev.append(('dictstore', txt(x.targets[0].value), x.targets[0].slice, x.value))
        else:
            ev.append(('unknown', s))
    return ev


def values_of(sql, st, events_before):
    """{column key: value expr} a statement assigns, merging the dict literal given to
    .values() with the stores/updates made to that literal earlier on the path.
    Returns (cols, bulk sources, problems)."""
    cols, bulk, problems = {}, [], []
    for kind, v in st['values']:
        if kind == 'kw':
            if v.arg is None:
                bulk.append(v.value)
            else:
                cols['*.' + v.arg] = v.value
        elif isinstance(v, ast.Dict):
            for k, val in zip(v.keys, v.values):
                ck_ = colkey(sql, k) if k is not None else None
                if ck_ is None:
                    problems.append('unrecognised key %s' % (norm_text(k) if k is not None else '**'))
                else:
                    cols[ck_] = val
            t = txt(v)
            for e in events_before:
                if e[0] == 'dictstore' and e[1] == t:
                    ck_ = colkey(sql, e[2])
                    if ck_ is None:
                        problems.append('unrecognised key %s' % norm_text(e[2]))
                    else:
                        cols[ck_] = e[3]
                elif e[0] == 'dictupdate' and e[1] == t:
                    bulk.append(e[2])
        else:
            problems.append('values(%s) is not a dict literal' % norm_text(v))
    return cols, bulk, problems


def plus_one(sql, e, col):
    """e is `<col> + 1` (either operand order)."""
    if isinstance(e, ast.BinOp) and isinstance(e.op, ast.Add):
        for a, b in ((e.left, e.right), (e.right, e.left)):
            if sql.col(a) == col and isinstance(b, ast.Constant) and b.value == 1 and not isinstance(b.value, bool):
                return True
    return False


# ====================================================================== D1 schema + insert discipline
PK = {'primary_key': True}
KEY = {'unique': True, 'nullable': False}
SCHEMA = {
    'URLString': {'id': PK, 'url': KEY},
    'QueuedURL': {'id': PK,
                  'url_string_id': dict(KEY, fk='URLString.id'),
                  'status': {'nullable': False, 'default': ('status', 'todo'), 'enum': 'Status'},
                  'try_count': {'nullable': False, 'default': 0, 'type': 'Integer'},
                  'level': {'nullable': False, 'default': 0, 'type': 'Integer'}},
    'Hostname': {'hostname': KEY},
    'QueuedFile': {'id': PK, 'queued_url_id': dict(KEY, fk='QueuedURL.id'),
                   'status': {'nullable': False, 'default': ('status', 'todo'), 'enum': 'Status'}},
    'WARCVisit': {'url': PK},
}


def _fold(repo, mod, e):
    try:
        return True, repo.fold(mod, e)
    except ValueError:
        return False, None


def d1_schema(ctx):
    repo, ck = ctx.repo, ctx.check
    mod = repo.module(SQLM)
    sql = Sql(repo, mod)
    for cname, cols in SCHEMA.items():
        ci = repo.cls('%s:%s' % (SQLM, cname))
        for col, req in cols.items():
            where = ci.qual
            call = ci.class_assigns.get(col)
            e = sql.ext(call.func) if isinstance(call, ast.Call) else None
            if not (e and e.startswith('sqlalchemy') and e.endswith('.Column')):
                ck.bad('C14-D1', where, '%s = Column(...)' % col, 'column %s.%s is no longer declared as a Column' % (cname, col),
                       '%s:%s' % (SQLM, getattr(call, 'lineno', ci.node.lineno)))
                continue
            loc = 'wpull/database/sqlmodel.py:%s' % call.lineno
            for k, want in req.items():
                cons = '%s: %s=%s' % (col, k, want[1] if isinstance(want, tuple) else want)
                if k in ('primary_key', 'unique', 'nullable'):
                    v = U.kwarg(call, k)
                    ok, val = _fold(repo, mod, v) if v is not None else (True, None)
                    good = ok and val is want and type(val) is bool
                    ck.expect(good, 'C14-D1', where, cons,
                              'Column %s.%s must be declared %s=%s (found %s): the table is then no longer a keyed set with '
                              'total defaults' % (cname, col, k, want, norm_text(v) if v is not None else 'nothing'), loc)
                elif k == 'default':
                    v = U.kwarg(call, 'default')
                    if v is None:
                        good = False
                    elif isinstance(want, tuple):
                        good = status_member(repo, mod, v) == want[1]
                    else:
                        ok, val = _fold(repo, mod, v)
                        good = ok and type(val) is int and val == want
                    ck.expect(good, 'C14-D1', where, cons,
                              'Column %s.%s must default to %s (found %s): a freshly added URL would not start as todo/0/0' % (
                                  cname, col, want[1] if isinstance(want, tuple) else want, norm_text(v) if v is not None else 'no default'), loc)
                elif k == 'type':
                    t = call.args[0] if call.args else None
                    te = sql.ext(t.func if isinstance(t, ast.Call) else t) if t is not None else None
                    ck.expect(bool(te) and te.endswith('.' + want), 'C14-D1', where, cons,
                              'Column %s.%s is not an %s column' % (cname, col, want), loc)
                elif k == 'enum':
                    t = call.args[0] if call.args else None
                    te = sql.ext(t.func) if isinstance(t, ast.Call) else None
                    names = set()
                    if isinstance(t, ast.Call):
                        for n in ast.walk(t):
                            if isinstance(n, ast.Name):
                                r = repo.resolve_name(mod, n.id)
                                if r and r[0] == 'class':
                                    names.add(r[1].qual)
                    ck.expect(bool(te) and te.endswith('.Enum') and names == {ITEM + ':Status'}, 'C14-D1', where, cons,
                              'Column %s.%s is not an Enum over the members of Status' % (cname, col), loc)
                elif k == 'fk':
                    fks = [a for a in call.args if isinstance(a, ast.Call) and (sql.ext(a.func) or '').endswith('.ForeignKey')]
                    tgt = None
                    if len(fks) == 1 and fks[0].args:
                        a = fks[0].args[0]
                        tgt = sql.col(a)
                        if tgt is None and isinstance(a, ast.Constant) and isinstance(a.value, str):
                            tn = {repo.classes[q].class_assigns.get('__tablename__').value: repo.classes[q].name
                                  for q in repo.classes if q.startswith(SQLM + ':')
                                  and isinstance(repo.classes[q].class_assigns.get('__tablename__'), ast.Constant)}
                            t_, _, c_ = a.value.partition('.')
                            tgt = '%s.%s' % (tn.get(t_, t_), c_)
                    ck.expect(tgt == want, 'C14-D1', where, cons,
                              'Column %s.%s must reference %s (found %s)' % (cname, col, want, tgt), loc)
    # the Status enum: distinct values, the members the state machine names
    st = repo.cls(ITEM + ':Status')
    vals = {k: v.value for k, v in st.class_assigns.items() if isinstance(v, ast.Constant) and isinstance(v.value, str)}
    need = {'todo', 'in_progress', 'done', 'error', 'skipped'}
    ck.expect(need <= set(vals) and len(set(vals.values())) == len(vals), 'C14-D1', st.qual, 'Status members distinct',
              'Status must have the members %s with pairwise distinct values (found %s): aliased members merge two states' % (
                  sorted(need), vals), 'wpull/pipeline/item.py:%s' % st.node.lineno)
    # the record's url is the url_string relationship over url_string_id
    q = repo.cls(SQLM + ':QueuedURL')
    px = q.class_assigns.get('url')
    okp = isinstance(px, ast.Call) and (dotted(px.func) or '').endswith('association_proxy') and len(px.args) == 2 \
        and [U.const_str(repo, mod, a) for a in px.args] == ['url_string', 'url']
    rel = q.class_assigns.get('url_string')
    okr = False
    if isinstance(rel, ast.Call) and (dotted(rel.func) or '').endswith('relationship') and rel.args:
        fk = U.kwarg(rel, 'foreign_keys')
        fkn = [norm_text(e) for e in fk.elts] if isinstance(fk, (ast.List, ast.Tuple)) else ([norm_text(fk)] if fk is not None else [])
        okr = sql.model(rel.args[0]) == 'URLString' and fkn in (['url_string_id'], ['QueuedURL.url_string_id'])
    ck.expect(okp and okr, 'C14-D1', q.qual, "url = association_proxy('url_string', 'url') over url_string_id",
              'QueuedURL.url no longer denotes the URLString row referenced by url_string_id: records are looked up and '
              'returned under another URL', 'wpull/database/sqlmodel.py:%s' % getattr(px, 'lineno', q.node.lineno))
    # the same for the parent / root URL a record is read back with (the scope filters rely on them)
    for base in ('parent_url', 'root_url'):
        px_, rel_ = q.class_assigns.get(base), q.class_assigns.get(base + '_string')
        okp_ = isinstance(px_, ast.Call) and (dotted(px_.func) or '').endswith('association_proxy') and len(px_.args) == 2 \
            and [U.const_str(repo, mod, a) for a in px_.args] == [base + '_string', 'url']
        okr_ = False
        if isinstance(rel_, ast.Call) and (dotted(rel_.func) or '').endswith('relationship') and rel_.args:
            fk_ = U.kwarg(rel_, 'foreign_keys')
            fkn_ = [norm_text(e) for e in fk_.elts] if isinstance(fk_, (ast.List, ast.Tuple)) else ([norm_text(fk_)] if fk_ is not None else [])
            okr_ = sql.model(rel_.args[0]) == 'URLString' and fkn_ in ([base + '_string_id'], ['QueuedURL.%s_string_id' % base])
        ck.expect(okp_ and okr_, 'C14-D1', q.qual, "%s = association_proxy('%s_string', 'url') over %s_string_id" % (base, base, base),
                  'QueuedURL.%s is read through another column than the one add_many binds it to: a record comes back with a %s that is '
                  'not the one stored' % (base, base.replace('_', ' ')), 'wpull/database/sqlmodel.py:%s' % getattr(rel_, 'lineno', q.node.lineno))


def sql_modules(repo):
    out = []
    for m in repo.modules.values():
        if m.name.startswith('wpull.database') or any(
                (imp[1] or '').startswith('sqlalchemy') for imp in m.imports.values()):
            out.append(m)
    return out


def d1_inserts(ctx):
    """Every insert(<model>) carries .prefix_with('OR IGNORE'); no ORM-level insert."""
    repo, ck = ctx.repo, ctx.check
    seen = {}
    for m in sql_modules(repo):
        sql = Sql(repo, m)
        for fi in [f for f in repo.funcs.values() if f.module is m and f.outer is None]:
            pm = U.parents(fi.node)
            defs = None
            for c in [n for n in ast.walk(fi.node) if isinstance(n, ast.Call)]:
                ct = sql.ctor(c)
                if ct and ct[0] == 'insert':
                    # climb the method chain this insert is the root of
                    top, good = c, False
                    while True:
                        p = pm.get(id(top))
                        if isinstance(p, ast.Attribute) and p.value is top and isinstance(pm.get(id(p)), ast.Call) \
                                and pm[id(p)].func is p:
                            top = pm[id(p)]
                            if p.attr == 'prefix_with' and or_ignore(repo, m, top):
                                good = True
                        else:
                            break
                    if not good:
                        # `q = insert(T)` followed by `q = q.prefix_with('OR IGNORE')` before any use
                        st = pm.get(id(top))
                        if isinstance(st, ast.Assign) and len(st.targets) == 1 and isinstance(st.targets[0], ast.Name):
                            name = st.targets[0].id
                            defs = defs or U.local_defs(fi.node)
                            later = [d for d in defs.get(name, []) if d[2] is not st and d[1] == 'assign']
                            for v, _, s2 in later:
                                root, steps = sql.chain(v)
                                if isinstance(root, ast.Name) and root.id == name and s2.lineno > st.lineno and any(
                                        n == 'prefix_with' and or_ignore(repo, m, cc) for n, cc in steps):
                                    uses = [n for n in ast.walk(fi.node) if isinstance(n, ast.Name) and n.id == name
                                            and isinstance(n.ctx, ast.Load) and st.lineno < n.lineno < s2.lineno]
                                    good = not uses
                    model = ct[1] or norm_text(ct[2]) if ct[2] is not None else '?'
                    seen.setdefault(model, []).append(fi.qual)
                    ck.expect(good, 'C14-D1', fi.qual, 'insert(%s) OR IGNORE' % model,
                              "insert(%s) without .prefix_with('OR IGNORE'): adding a stored URL again raises IntegrityError "
                              'or replaces the row' % model, fi.loc(c))
                elif isinstance(c.func, ast.Attribute) and c.func.attr in (
                        'add', 'add_all', 'merge', 'bulk_save_objects', 'bulk_insert_mappings', 'bulk_update_mappings') \
                        and isinstance(c.func.value, ast.Name) and c.func.value.id in _session_names(fi):
                    ck.bad('C14-D1', fi.qual, norm_text(c)[:80], 'ORM-level %s() on the session bypasses INSERT OR IGNORE' % c.func.attr,
                           fi.loc(c))
    for model, where in (('URLString', SQLM + ':URLString.add_urls'), ('QueuedURL', TABLE + '.add_many'),
                         ('Hostname', TABLE + '.add_many')):
        repo.func(where)
        if where not in seen.get(model, []):
            ck.bad('C14-D1', where, 'insert(%s) OR IGNORE' % model, 'the insert of %s rows is gone from %s' % (model, where))


def _session_names(fi):
    names = {s for _, s in session_withs(fi.node) if s}
    a = fi.node.args
    names |= {x.arg for x in a.posonlyargs + a.args if x.arg == 'session'}
    return names


# ====================================================================== D2 per-operation effect tables
def _one_session(ob, fi):
    """Exactly one `with self._session() as S` in the operation; returns (with node, S)."""
    ws = session_withs(fi.node)
    ok = len(ws) == 1 and ws[0][1] is not None and isinstance(ws[0][0], ast.With) and any(ws[0][0] is s for s in fi.node.body)
    ob.need(ok, 'one session scope', 'the operation does not run inside exactly one `with self._session() as s` block '
            '(found %d)' % len(ws))
    return ws[0] if ok else (None, None)


def _record_atoms(sql, lf, session):
    """Atoms of the leaf's valuation that test the result of a `.query(..)...first()`:
    [(query text, query dict, nonempty?)]; plus the other atoms."""
    rec, other = [], []
    for k, v in lf.val.items():
        e = None
        if k[0] == 'T':
            e, nonempty = k[1], bool(v)
        elif k[0] == 'is' and 'None' in (k[1], k[2]):
            e, nonempty = (k[1] if k[2] == 'None' else k[2]), not v
        q = None
        if e is not None:
            try:
                q = sql.query(ast.parse(e, mode='eval').body, session)
            except SyntaxError:
                q = None
        if q is not None:
            rec.append((e, q, nonempty))
        else:
            other.append((k, v))
    return rec, other


def _cond_set(conds, canon=txt):
    out = set()
    for c in conds:
        if c[0] == 'join':
            out.add(('join', tuple(sorted(c[1])), c[2]))
        elif c[0] == '?':
            out.add(('?', c[1], ''))
        else:
            out.add((c[0], c[1], canon(c[2])))
    return out


def d2_checkout(ctx, name, model, status_rhs, level):
    """check_out-role operation: filter on the requested status (and level bound), NotFound
    exactly when nothing matches, store in_progress on that row only, return it."""
    repo, ck = ctx.repo, ctx.check
    fi = repo.func(TABLE + '.' + name)
    sql = Sql(repo, fi.module)
    ob = Ob(ck, 'C14-D2', fi)
    N_FILTER = 'filter: %s.status == %s%s' % (model, status_rhs if status_rhs.startswith('P') else 'todo',
                                              ' [and level < P1 iff P1 is not None]' if level else '')
    N_NF = 'NotFound raised exactly when the query returns nothing'
    N_STORE = 'stores only status = in_progress on the selected row'
    N_RET = 'returns the selected row'
    N_SESS = 'select and store inside the one session scope'
    ob.declare(N_FILTER, N_NF, N_STORE, N_RET, N_SESS)
    w, session = _one_session(ob, fi)
    if w is None:
        ob.close()
        return
    if status_rhs.startswith('P') and len(fi.params) < 2 or level and len(fi.params) < 3:
        ob.fail(N_FILTER, 'the operation no longer takes the status%s to filter on' % (' and level' if level else ''))
        ob.close()
        return
    it = Interp(repo, fi)
    notfound = BASE + ':NotFound'
    for lf in it.leaves():
        ctxt = fmt_val(lf.val) or 'always'
        rec, other = _record_atoms(sql, lf, session)
        lvl_none = None
        for k, v in other:
            if level and k[0] == 'is' and {k[1], k[2]} == {'P1', 'None'}:
                lvl_none = bool(v)
            else:
                ob.fail(N_FILTER, 'branches on %s, which is not part of the operation' % fmt_val({k: v}))
        ev = leaf_events(lf, session)
        if len(rec) != 1:
            ob.fail(N_NF, 'on the path [%s] the outcome (%s) does not depend on whether the query found a row' % (ctxt, lf.kind))
            continue
        qtext, q, nonempty = rec[0]
        # ---- the filter
        want_sets = []
        for ln in ([lvl_none] if lvl_none is not None else ([True, False] if level else [True])):
            if status_rhs.startswith('P'):
                ws_ = {('%s.status' % model, '==', status_rhs + '.value')}
            else:
                ws_ = {('%s.status' % model, '==', '<todo>')}
            if level and not ln:
                ws_.add(('%s.level' % model, '<', 'P1'))
            want_sets.append((ln, ws_))

        def canon(e):
            if not status_rhs.startswith('P'):
                m = status_member(repo, fi.module, e)
                if m:
                    return '<%s>' % m
            return txt(e)
        got = _cond_set(q['conds'], canon)
        for ln, ws_ in want_sets:
            if got != ws_ or q['entity'] != model or q['terminal'] != 'first' or q['extra']:
                ob.fail(N_FILTER, 'with level %s the row is selected by %s (expected %s .first())' % (
                    'None' if ln else 'given', q['text'], ' and '.join('%s %s %s' % c for c in sorted(ws_))))
        # ---- the outcome
        stores = [e for e in ev if e[0] == 'attrstore']
        execs = [e for e in ev if e[0] in ('execute', 'unknown', 'dictstore', 'dictupdate')]
        if not nonempty:
            et = None
            if lf.kind == 'raise' and lf.value is not None:
                et = repo.canon_exc(fi.module, lf.value.func if isinstance(lf.value, ast.Call) else lf.value)
            if et != notfound:
                ob.fail(N_NF, 'when the query finds nothing the operation does not raise NotFound (%s %s)' % (
                    lf.kind, norm_text(lf.value) if lf.value is not None else ''))
            if stores or execs:
                ob.fail(N_STORE, 'writes although nothing was found: %s' % [norm_text(e[1]) if e[0] == 'attrstore' else str(e[1])[:60] for e in stores + execs])
            continue
        if lf.kind != 'return':
            ob.fail(N_NF, 'a row was found but the operation ends with %s %s' % (lf.kind, norm_text(lf.value) if lf.value is not None else ''))
            continue
        good_store = len(stores) == 1 and txt(stores[0][1]) == '%s.status' % qtext \
            and status_member(repo, fi.module, stores[0][2]) == 'in_progress'
        if not good_store or execs:
            ob.fail(N_STORE, 'on the path [%s] the writes are %s (expected exactly <row>.status = Status.in_progress.value)' % (
                ctxt, ['%s = %s' % (norm_text(e[1])[-40:], norm_text(e[2])) for e in stores] + [str(e[1])[:60] for e in execs]))
        rv = lf.value
        if name == 'check_out':
            okr = rv is not None and txt(rv) == '%s.to_plain()' % qtext
        else:
            okr = isinstance(rv, ast.Tuple) and [txt(e) for e in rv.elts] == ['%s.id' % qtext, '%s.queued_url.to_plain()' % qtext]
        if not okr:
            ob.fail(N_RET, 'returns %s, not the checked-out row' % (norm_text(rv) if rv is not None else 'None'))
    # select/store/return syntactically inside the session block
    for n in walk_no_nested(fi.node):
        if isinstance(n, (ast.Assign, ast.AugAssign)):
            tg = n.targets if isinstance(n, ast.Assign) else [n.target]
            if any(isinstance(t, ast.Attribute) and not U.is_self_attr(t) for t in tg) and not inside(n, w):
                ob.fail(N_SESS, '%s is outside the session block: the store is never committed' % norm_text(n), n)
    ob.close()


def d2_get_one(ctx):
    repo, ck = ctx.repo, ctx.check
    fi = repo.func(TABLE + '.get_one')
    sql = Sql(repo, fi.module)
    ob = Ob(ck, 'C14-D2', fi)
    N_NF = 'NotFound raised exactly when the query returns nothing'
    N_Q = 'filter: QueuedURL.url == P0; read-only'
    ob.declare(N_NF, N_Q)
    w, session = _one_session(ob, fi)
    if w is None:
        ob.close()
        return
    for lf in Interp(repo, fi).leaves():
        rec, other = _record_atoms(sql, lf, session)
        if len(rec) != 1 or other:
            ob.fail(N_NF, 'the outcome (%s) is not decided by the query result alone [%s]' % (lf.kind, fmt_val(lf.val)))
            continue
        qtext, q, nonempty = rec[0]
        if _cond_set(q['conds']) != {('QueuedURL.url', '==', 'P0')} or q['entity'] != 'QueuedURL' or q['terminal'] != 'first' or q['extra']:
            ob.fail(N_Q, 'the record is selected by %s' % q['text'])
        if [e for e in leaf_events(lf, session) if e[0] != 'with']:
            ob.fail(N_Q, 'get_one has effects: %s' % list(lf.effects))
        if nonempty:
            if not (lf.kind == 'return' and lf.value is not None and txt(lf.value) == '%s.to_plain()' % qtext):
                ob.fail(N_NF, 'a stored URL yields %s %s' % (lf.kind, norm_text(lf.value) if lf.value is not None else ''))
        else:
            et = repo.canon_exc(fi.module, lf.value.func if isinstance(lf.value, ast.Call) else lf.value) \
                if lf.kind == 'raise' and lf.value is not None else None
            if et != BASE + ':NotFound':
                ob.fail(N_NF, 'an unknown URL yields %s, not NotFound' % lf.kind)
    ob.close()


def _where_is_url(sql, st, url_text, canon=txt):
    """The statement has exactly one where: QueuedURL.url_string_id == (select id of <url>)."""
    if len(st['wheres']) != 1:
        return False, '%d where clauses' % len(st['wheres'])
    cs = sql.conds(st['wheres'][0].args)
    if len(cs) == 1 and cs[0][0] == 'QueuedURL.url_string_id' and cs[0][1] == '==' and sql.url_id_select(cs[0][2], url_text, canon):
        return True, ''
    return False, norm_text(st['wheres'][0])


def d2_check_in(ctx):
    repo, ck = ctx.repo, ctx.check
    fi = repo.func(TABLE + '.check_in')
    sql = Sql(repo, fi.module)
    ob = Ob(ck, 'C14-D2', fi)
    N_ONE = 'exactly one update(QueuedURL) executed on every path; no other write'
    N_STATUS = 'sets status = P1.value'
    N_TRY = 'sets try_count = try_count + 1 iff P2 (increment_try_count)'
    N_COLS = 'other columns only from P3.database_items() (status_code, filename)'
    N_WHERE = 'where: QueuedURL.url_string_id == id of P0'
    N_FILE = 'insert(QueuedFile) iff status is done and a file name was recorded'
    ob.declare(N_ONE, N_STATUS, N_TRY, N_COLS, N_WHERE, N_FILE)
    w, session = _one_session(ob, fi)
    if w is None or len(fi.params) < 5:
        ob.need(len(fi.params) >= 5, N_ONE, 'check_in no longer takes (url, new_status, increment_try_count, url_result)')
        ob.close()
        return
    for lf in Interp(repo, fi).leaves():
        ctxt = fmt_val(lf.val) or 'always'
        ev = leaf_events(lf, session)
        inc = lf.val.get(('T', 'P2'))
        has_result = lf.val.get(('T', 'P3'))
        known_atoms = 0
        done = None
        for k, v in lf.val.items():
            if k in (('T', 'P2'), ('T', 'P3'), ('T', 'P3.filename')):
                continue
            if k[0] in ('ord', 'is') and {k[1], k[2]} in ({'P1', 'Status.done'}, {'P1.value', 'Status.done.value'}, {'P1.value', "'done'"}):
                done = (v == 'eq') if k[0] == 'ord' else bool(v)
                continue
            ob.fail(N_ONE, 'branches on %s, which is not part of the operation' % fmt_val({k: v}))
        if lf.kind == 'raise':
            ob.fail(N_ONE, 'raises %s on the path [%s]' % (norm_text(lf.value) if lf.value is not None else '', ctxt))
            continue
        upd, ins = [], []
        for i, e in enumerate(ev):
            if e[0] == 'unknown' or e[0] == 'attrstore':
                ob.fail(N_ONE, 'unexpected effect %s' % (e[1] if e[0] == 'unknown' else norm_text(e[1])))
            elif e[0] == 'execute':
                st = sql.statement(e[1].args[0]) if e[1].args else None
                if st is None:
                    ob.fail(N_ONE, 'executes %s' % norm_text(e[1])[:100])
                elif st['kind'] == 'update' and st['model'] == 'QueuedURL':
                    upd.append((st, ev[:i]))
                elif st['kind'] == 'insert' and st['model'] == 'QueuedFile':
                    ins.append((st, ev[:i]))
                else:
                    ob.fail(N_ONE, 'executes %s(%s)' % (st['kind'], st['model']))
        if len(upd) != 1:
            ob.fail(N_ONE, '%d update(QueuedURL) statements executed on the path [%s]' % (len(upd), ctxt))
            continue
        st, before = upd[0]
        if st['extra']:
            ob.fail(N_ONE, 'update statement has extra clauses %s' % st['extra'])
        cols, bulk, problems = values_of(sql, st, before)
        for p in problems:
            ob.fail(N_COLS, p)
        skeys = [k for k in cols if same_col(k, 'QueuedURL', 'status')]
        if len(skeys) != 1 or txt(cols[skeys[0]]) != 'P1.value':
            ob.fail(N_STATUS, 'status is set to %s' % ([norm_text(cols[k]) for k in skeys] or 'nothing'))
        tkeys = [k for k in cols if same_col(k, 'QueuedURL', 'try_count')]
        if inc is None:
            ob.fail(N_TRY, 'on the path [%s] the try count is %s regardless of increment_try_count' % (
                ctxt, 'incremented' if tkeys else 'left alone'))
        elif bool(tkeys) != inc:
            ob.fail(N_TRY, 'try_count %s although increment_try_count is %s' % ('written' if tkeys else 'not written', inc))
        for k in tkeys:
            if not plus_one(sql, cols[k], 'QueuedURL.try_count'):
                ob.fail(N_TRY, 'try_count is set to %s, not QueuedURL.try_count + 1' % norm_text(cols[k]))
        for k in cols:
            if k not in skeys and k not in tkeys:
                ob.fail(N_COLS, 'also writes column %s' % k)
        for b in bulk:
            if txt(b) != 'P3.database_items()' or not has_result:
                ob.fail(N_COLS, 'merges %s into the update%s' % (norm_text(b), '' if has_result else ' although no result was given'))
        okw, why = _where_is_url(sql, st, 'P0')
        if not okw:
            ob.fail(N_WHERE, 'the update is restricted by %s' % why)
        want_file = bool(done) and bool(has_result) and bool(lf.val.get(('T', 'P3.filename')))
        if bool(ins) != want_file or len(ins) > 1:
            ob.fail(N_FILE, '%d insert(QueuedFile) on the path [%s]' % (len(ins), ctxt))
        for st2, _ in ins:
            vs = st2['values']
            okv = len(vs) == 1 and vs[0][0] == 'arg' and isinstance(vs[0][1], ast.Dict) and len(vs[0][1].keys) == 1 \
                and colkey(sql, vs[0][1].keys[0]) in ('*.queued_url_id', 'QueuedFile.queued_url_id') \
                and sql.url_id_select(vs[0][1].values[0], 'P0', txt)
            if not okv:
                ob.fail(N_FILE, 'QueuedFile row values are %s' % st2['text'][:120])
    ob.close()
    # URLResult contributes only result columns
    ur = repo.cls(ITEM + ':URLResult')
    hit = repo.find_class_assign(ur, 'database_attributes')
    ok, val = _fold(repo, hit[0].module, hit[1]) if hit else (False, None)
    ck.expect(ok and set(val) <= {'status_code', 'filename'} and len(val) > 0, 'C14-D2', ur.qual,
              "URLResult.database_attributes within ('status_code', 'filename')",
              'URLResult.database_attributes = %s: check_in would overwrite key/state columns from the result object' % (val,),
              'wpull/pipeline/item.py:%s' % ur.node.lineno)


def d2_release(ctx):
    repo, ck = ctx.repo, ctx.check
    fi = repo.func(TABLE + '.release')
    sql = Sql(repo, fi.module)
    ob = Ob(ck, 'C14-D2', fi)
    N_Q = 'update(QueuedURL) status = todo where status == in_progress, on every path'
    N_ONLY = 'no other write (QueuedFile: same shape)'
    ob.declare(N_Q, N_ONLY)
    w, session = _one_session(ob, fi)
    if w is None:
        ob.close()
        return
    for lf in Interp(repo, fi).leaves():
        if lf.val:
            ob.fail(N_Q, 'release branches on %s' % fmt_val(lf.val))
        if lf.kind == 'raise':
            ob.fail(N_Q, 'release raises %s' % (norm_text(lf.value) if lf.value is not None else ''))
        n_url = 0
        ev = leaf_events(lf, session)
        for i, e in enumerate(ev):
            if e[0] == 'with':
                continue
            st = sql.statement(e[1].args[0]) if e[0] == 'execute' and e[1].args else None
            if st is None or st['kind'] != 'update' or st['model'] not in ('QueuedURL', 'QueuedFile'):
                ob.fail(N_ONLY, 'effect %s' % (norm_text(e[1]) if not isinstance(e[1], str) else e[1])[:100])
                continue
            model = st['model']
            name = N_Q if model == 'QueuedURL' else N_ONLY
            cols, bulk, problems = values_of(sql, st, ev[:i])
            okv = not bulk and not problems and len(cols) == 1 and same_col(list(cols)[0], model, 'status') \
                and status_member(repo, fi.module, list(cols.values())[0]) == 'todo'
            if not okv:
                ob.fail(name, 'update(%s) sets %s' % (model, {k: norm_text(v) for k, v in cols.items()} or st['text'][:80]))
            cs = [c for wc in st['wheres'] for c in sql.conds(wc.args)]
            okw = len(st['wheres']) == 1 and len(cs) == 1 and cs[0][0] == model + '.status' and cs[0][1] == '==' \
                and status_member(repo, fi.module, cs[0][2]) == 'in_progress' and not st['extra']
            if not okw:
                ob.fail(name, 'update(%s) applies to rows %s (expected exactly status == in_progress)' % (
                    model, ' '.join(norm_text(wc)[-80:] for wc in st['wheres']) or 'without a where clause'))
            if model == 'QueuedURL':
                n_url += 1
        if n_url != 1:
            ob.fail(N_Q, '%d update(QueuedURL) statements executed' % n_url)
    ob.close()


def _src_canon(fi):
    """Canonical text of a source-level expression: parameters by position (P0..)."""
    params = [p for p in fi.params if p not in ('self', 'cls')]

    def canon(e):
        if isinstance(e, ast.Name) and e.id in params:
            return 'P%d' % params.index(e.id)
        return norm_text(e)
    return canon


def _executed(fi, session, stmt_call, pm, defs):
    """The statement built by stmt_call (root constructor) reaches `<session>.execute(...)`:
    returns the execute call or None."""
    top = stmt_call
    while True:
        p = pm.get(id(top))
        if isinstance(p, ast.Attribute) and p.value is top and isinstance(pm.get(id(p)), ast.Call) and pm[id(p)].func is p:
            top = pm[id(p)]
        else:
            break
    par = pm.get(id(top))
    execs = [c for c in U.calls(fi.node, attr='execute') if isinstance(c.func.value, ast.Name) and c.func.value.id == session]
    for c in execs:
        if c.args and c.args[0] is top:
            return c, top
    if isinstance(par, ast.Assign) and len(par.targets) == 1 and isinstance(par.targets[0], ast.Name):
        name = par.targets[0].id
        cur_stmt = par
        while True:
            later = sorted([d for d in defs.get(name, []) if d[2].lineno > cur_stmt.lineno], key=lambda d: d[2].lineno)
            nxt = later[0] if later else None
            for c in execs:
                if c.args and isinstance(c.args[0], ast.Name) and c.args[0].id == name and c.lineno > cur_stmt.lineno \
                        and (nxt is None or c.lineno < nxt[2].lineno):
                    return c, top
            # `q = insert(T)` ... `q = q.prefix_with(..).values(..)`: continue with the extended chain
            if nxt is None or nxt[1] != 'assign' or nxt[0] is None:
                break
            root = nxt[0]
            while isinstance(root, ast.Call) and isinstance(root.func, ast.Attribute):
                root = root.func.value
            if not (isinstance(root, ast.Name) and root.id == name) or pm.get(id(nxt[2])) is not pm.get(id(cur_stmt)):
                break
            top = _graft(nxt[0], root, top)
            cur_stmt = nxt[2]
    return None, top


def _graft(expr, hole, filler):
    """Copy of expr with the node `hole` replaced by `filler`."""
    import copy

    class T(ast.NodeTransformer):
        def visit(self, n):
            if n is hole:
                return filler
            return self.generic_visit(n)
    memo = {id(hole): hole, id(filler): filler}
    return T().visit(copy.deepcopy(expr, memo))


def d2_update_one(ctx):
    repo, ck = ctx.repo, ctx.check
    fi = repo.func(TABLE + '.update_one')
    sql = Sql(repo, fi.module)
    ob = Ob(ck, 'C14-D2', fi)
    N_ONE = 'exactly one update(QueuedURL), executed unconditionally'
    N_COLS = 'assigns only the columns named by **kwargs'
    N_WHERE = 'where: QueuedURL.url_string_id == id of P0'
    ob.declare(N_ONE, N_COLS, N_WHERE)
    w, session = _one_session(ob, fi)
    kw = fi.node.args.kwarg.arg if fi.node.args.kwarg else None
    if w is None or kw is None or len(fi.params) < 2:
        ob.need(kw is not None and len(fi.params) >= 2, N_COLS, 'update_one no longer takes (url, **columns)')
        ob.close()
        return
    pm = U.parents(fi.node)
    defs = U.local_defs(fi.node)
    canon = _src_canon(fi)
    writes = [(c, sql.ctor(c)) for c in ast.walk(fi.node) if isinstance(c, ast.Call) and sql.ctor(c) and sql.ctor(c)[0] != 'select']
    ups = [c for c, ct in writes if ct[0] == 'update' and ct[1] == 'QueuedURL']
    if len(ups) != 1 or len(writes) != 1:
        ob.fail(N_ONE, 'statements built: %s' % ['%s(%s)' % (ct[0], ct[1]) for _, ct in writes])
        ob.close()
        return
    ex, top = _executed(fi, session, ups[0], pm, defs)
    cond = [a for a in U.ancestors(ex or ups[0], pm) if isinstance(a, (ast.If, ast.For, ast.While, ast.Try, ast.IfExp))]
    ob.need(ex is not None and not cond and inside(ex, w), N_ONE, 'the update statement is not executed unconditionally inside the session block', ups[0])
    st = sql.statement(top)
    ob.need(not st['extra'], N_ONE, 'update statement has extra clauses %s' % st['extra'], ups[0])
    okw, why = _where_is_url(sql, _expand_where(fi, st, defs), 'P0', canon) if st['wheres'] else (False, 'no where clause')
    ob.need(okw, N_WHERE, 'the update is restricted by: %s' % why, ups[0])
    # the values
    vs = st['values']
    good, why = False, 'values(%s)' % ', '.join(norm_text(v if k == 'arg' else v.value) for k, v in vs)
    if len(vs) == 1 and vs[0][0] == 'kw' and vs[0][1].arg is None and isinstance(vs[0][1].value, ast.Name) and vs[0][1].value.id == kw:
        good = True
    elif len(vs) == 1 and vs[0][0] == 'arg':
        v = vs[0][1]
        vname = None
        if isinstance(v, ast.Name) and v.id != kw:
            vname = v.id
            ds = defs.get(v.id, [])
            if len(ds) == 1 and ds[0][1] == 'assign' and ds[0][0] is not None:
                v = ds[0][0]
        if isinstance(v, ast.Name) and v.id == kw:
            good = True
        elif isinstance(v, ast.DictComp):
            good = _from_kwargs(sql, v.generators[0].target, v.generators[0].iter, v.key, v.value, kw) and len(v.generators) == 1 \
                and not v.generators[0].ifs
        empty = isinstance(v, ast.Dict) and not v.keys \
            or isinstance(v, ast.Call) and dotted(v.func) == 'dict' and not v.args and not v.keywords
        if vname is not None:
            muts, okm = [], True
            for n in walk_no_nested(fi.node):
                if isinstance(n, ast.Subscript) and isinstance(n.ctx, (ast.Store, ast.Del)) and isinstance(n.value, ast.Name) and n.value.id == vname:
                    muts.append(n)
                    stn = U.enclosing_stmt(n, pm)
                    loop = pm.get(id(stn))
                    okm = okm and isinstance(stn, ast.Assign) and len(stn.targets) == 1 and isinstance(loop, ast.For) \
                        and any(stn is s_ for s_ in loop.body) and not loop.orelse \
                        and _from_kwargs(sql, loop.target, loop.iter, n.slice, stn.value, kw) and stn.lineno < ups[0].lineno
                elif isinstance(n, ast.Call) and isinstance(n.func, ast.Attribute) and isinstance(n.func.value, ast.Name) \
                        and n.func.value.id == vname and n.func.attr in ('update', 'setdefault', 'pop', 'clear', 'popitem', '__setitem__'):
                    okm = False
                    why = 'the values dict is also changed by %s' % norm_text(n)
            if good:
                good = okm and not muts
            else:
                good = bool(empty) and okm and len(muts) == 1
            if not good and why.startswith('values('):
                why = 'the values dict is not built from **%s alone (%d stores%s)' % (kw, len(muts), '' if empty or isinstance(v, ast.DictComp) else ', not initially empty')
    ob.need(good, N_COLS, why, ups[0])
    ob.close()


def _expand_where(fi, st, defs):
    """Copy of st whose where clause has single-definition locals substituted (subquery)."""
    import copy
    st2 = dict(st)
    st2['wheres'] = [U.expand_locals(fi.node, wc, defs) for wc in st['wheres']]
    out = []
    for wc in st2['wheres']:
        wc = copy.deepcopy(wc)
        out.append(wc)
    st2['wheres'] = out
    return st2


def _from_kwargs(sql, target, it, key, value, kw):
    """`for K, V in <kw>.items()` with key getattr(QueuedURL, K) | K and value V."""
    if not (isinstance(target, ast.Tuple) and len(target.elts) == 2 and all(isinstance(e, ast.Name) for e in target.elts)):
        return False
    k, v = target.elts[0].id, target.elts[1].id
    if not (isinstance(it, ast.Call) and isinstance(it.func, ast.Attribute) and it.func.attr == 'items' and not it.args
            and isinstance(it.func.value, ast.Name) and it.func.value.id == kw):
        return False
    okk = isinstance(key, ast.Name) and key.id == k or (
        isinstance(key, ast.Call) and dotted(key.func) == 'getattr' and len(key.args) == 2 and sql.model(key.args[0]) == 'QueuedURL'
        and isinstance(key.args[1], ast.Name) and key.args[1].id == k)
    return okk and isinstance(value, ast.Name) and value.id == v


def d2_replace_order(ctx):
    """ItemSession.add_child_url(replace=True): the old row goes before the new one is offered.  add_url may flush its batch at
    once (every 1000th entry): offered first, INSERT OR IGNORE keeps the old row, and the removal that follows deletes the URL for
    good - a URL the caller re-added is gone with its status and try count."""
    repo, ck = ctx.repo, ctx.check
    ac = repo.func('wpull.pipeline.session:ItemSession.add_child_url')
    cfg = ctx.cfg(ac)
    rem = [n for n in cfg.stmt_nodes() if any(U.attr_name(c) in ('remove_many', 'remove_one') for c in F.node_calls(n))]
    add = [n for n in cfg.stmt_nodes() if any(U.attr_name(c) in ('add_url', 'add_many', 'add_one') for c in F.node_calls(n))]
    if not rem or not add:
        raise AnalysisError('ItemSession.add_child_url: remove / add calls not found')
    p = None
    for a in add:
        p = p or cfg.find_path(a, lambda n: n in rem, edge_ok=F.normal)
    ck.expect(p is None, 'C14-D2', ac.qual, 'replace: remove_many([url]) before add_url(url, ...)',
              'the replaced URL is offered to the table before the old row is removed: when the offer is flushed at once (a full batch) it is '
              'ignored as a duplicate and the removal then deletes the URL altogether', ac.loc(rem[0].stmt), path=describe_path(p) if p else None)


def d2_remove_many(ctx):
    repo, ck = ctx.repo, ctx.check
    fi = repo.func(TABLE + '.remove_many')
    # "only removal deletes" - and removal does delete: the model declares foreign keys without ON DELETE CASCADE (queued_files ->
    # queued_urls), SQLite ignores them unless asked; with enforcement on, removing a finished URL that has a file row fails
    lite = repo.cls('wpull.database.sqltable:SQLiteURLTable')
    pc = lite.methods.get('_apply_pragmas_callback')
    fk_on = False
    if pc is not None:
        for c in U.calls(pc.node, attr='execute'):
            if c.args and isinstance(c.args[0], ast.Constant) and isinstance(c.args[0].value, str):
                t = c.args[0].value.strip().lower().replace(' ', '')
                if t.startswith('pragmaforeign_keys=') and t.split('=')[1] in ('on', '1', 'true', 'yes'):
                    fk_on = True
    cascades = all(any(k.arg == 'ondelete' for k in c.keywords) for c in ast.walk(repo.module('wpull.database.sqlmodel').tree)
                   if isinstance(c, ast.Call) and isinstance(c.func, ast.Name) and c.func.id == 'ForeignKey')
    ck.expect(not fk_on or cascades, 'C14-D2', fi.qual, 'removal is not blocked by rows that refer to the URL',
              'PRAGMA foreign_keys=ON while the model\'s foreign keys have no ON DELETE action: remove_many / remove_one / '
              'add_child_url(replace=True) of a URL that has a queued_files row raises IntegrityError and the row stays', fi.loc())
    sql = Sql(repo, fi.module)
    ob = Ob(ck, 'C14-D2', fi)
    N_DEL = 'delete(QueuedURL) where url_string_id == id of each given URL, executed per URL'
    ob.declare(N_DEL)
    w, session = _one_session(ob, fi)
    if w is None or len(fi.params) < 2:
        ob.close()
        return
    pm = U.parents(fi.node)
    defs = U.local_defs(fi.node)
    dels = [c for c in ast.walk(fi.node) if isinstance(c, ast.Call) and (sql.ctor(c) or ('',))[0] == 'delete']
    if len(dels) != 1 or sql.ctor(dels[0])[1] != 'QueuedURL':
        ob.fail(N_DEL, 'remove_many builds %d delete statements (%s)' % (len(dels), [norm_text(d) for d in dels]))
        ob.close()
        return
    ex, top = _executed(fi, session, dels[0], pm, defs)
    loops = [a for a in U.ancestors(ex or dels[0], pm) if isinstance(a, (ast.For, ast.While, ast.If, ast.Try))]
    okl = ex is not None and inside(ex, w) and len(loops) == 1 and isinstance(loops[0], ast.For) and isinstance(loops[0].target, ast.Name) \
        and isinstance(loops[0].iter, ast.Name) and loops[0].iter.id == fi.params[1] and not loops[0].orelse \
        and not any(isinstance(n, (ast.Break, ast.Continue, ast.Return)) for n in ast.walk(loops[0]))
    ob.need(okl, N_DEL, 'the delete is not executed once for every element of %s inside the session block' % fi.params[1], dels[0])
    if okl:
        lv = loops[0].target.id
        st = sql.statement(top)
        cs = [c for wc in st['wheres'] for c in sql.conds(wc.args)]
        okw = len(st['wheres']) == 1 and len(cs) == 1 and cs[0][0] == 'QueuedURL.url_string_id' and cs[0][1] == '==' and not st['extra']
        if okw:
            rhs = U.expand_locals(fi.node, cs[0][2], defs)
            q = sql.query(rhs, session)
            okw = sql.url_id_select(rhs, lv) or (
                q is not None and sql.col(q['entity_expr']) == 'URLString.id' and q['terminal'] == 'scalar' and not q['extra']
                and len(q['conds']) == 1 and isinstance(q['conds'][0][2], ast.Name) and q['conds'][0][2].id == lv
                and q['conds'][0][1] == '==' and q['conds'][0][0] == 'URLString.url')
        ob.need(okw, N_DEL, 'the delete applies to rows %s (expected QueuedURL.url_string_id == id of the URL)' % (
            ' '.join(norm_text(wc)[-90:] for wc in st['wheres']) or 'without a where clause'), dels[0])
    ob.close()


WRITERS = {
    ('insert', 'URLString'): {SQLM + ':URLString.add_urls'},
    ('insert', 'QueuedURL'): {TABLE + '.add_many'},
    ('insert', 'Hostname'): {TABLE + '.add_many'},
    ('insert', 'QueuedFile'): {TABLE + '.check_in'},
    ('insert', 'WARCVisit'): {SQLM + ':WARCVisit.add_visits'},
    ('update', 'QueuedURL'): {TABLE + '.check_in', TABLE + '.update_one', TABLE + '.release'},
    ('update', 'QueuedFile'): {TABLE + '.release', TABLE + '.convert_check_in'},
    ('delete', 'QueuedURL'): {TABLE + '.remove_many'},
}
ATTR_WRITERS = {TABLE + '.check_out': {'status'}, TABLE + '.convert_check_out': {'status'}}


def d2_writers(ctx):
    """Who may write: every statement constructor, ORM write, raw SQL and row attribute
    store in the modules that use SQLAlchemy, against the table of operations."""
    repo, ck = ctx.repo, ctx.check
    n = 0
    for m in sql_modules(repo):
        sql = Sql(repo, m)
        for fi in [f for f in repo.funcs.values() if f.module is m and f.outer is None]:
            sess = _session_names(fi)
            defs = None
            for c in ast.walk(fi.node):
                if isinstance(c, ast.Call):
                    ct = sql.ctor(c)
                    if ct and ct[0] != 'select':
                        n += 1
                        allowed = WRITERS.get((ct[0], ct[1]), set())
                        ck.expect(fi.qual in allowed, 'C14-D2', fi.qual, '%s(%s)' % (ct[0], ct[1] or norm_text(c)[:40]),
                                  '%s(%s) outside the operations that may do so (%s): %s' % (
                                      ct[0], ct[1], ', '.join(sorted(a.split('.')[-1] for a in allowed)) or 'none',
                                      'only remove_many deletes' if ct[0] == 'delete' else 'state changes belong to the tabulated operations'),
                                  fi.loc(c))
                    elif isinstance(c.func, ast.Attribute):
                        a = c.func.attr
                        recv = c.func.value
                        if a in ('delete', 'expunge', 'expunge_all') and isinstance(recv, ast.Name) and recv.id in sess:
                            ck.bad('C14-D2', fi.qual, norm_text(c)[:80], 'ORM-level %s on the session outside the tabulated operations' % a, fi.loc(c))
                        elif a in ('delete', 'update') and any(isinstance(x, ast.Call) and isinstance(x.func, ast.Attribute)
                                                              and x.func.attr == 'query' for x in ast.walk(recv)):
                            ck.bad('C14-D2', fi.qual, norm_text(c)[:80], 'bulk query.%s() outside the tabulated operations' % a, fi.loc(c))
                        elif a in ('drop_all', 'drop'):
                            ck.bad('C14-D2', fi.qual, norm_text(c)[:80], 'schema %s() removes stored URLs' % a, fi.loc(c))
                        elif a == 'execute' and c.args:
                            s = U.const_str(repo, m, c.args[0])
                            if isinstance(s, str) and any(w_ in s.upper().split() for w_ in ('INSERT', 'UPDATE', 'DELETE', 'DROP', 'REPLACE')):
                                ck.bad('C14-D2', fi.qual, norm_text(c)[:80], 'raw SQL write outside the tabulated operations', fi.loc(c))
                elif isinstance(c, (ast.Assign, ast.AugAssign)):
                    for t in (c.targets if isinstance(c, ast.Assign) else [c.target]):
                        if isinstance(t, ast.Attribute) and isinstance(t.value, ast.Name) and t.value.id not in ('self', 'cls'):
                            defs = defs or U.local_defs(fi.node)
                            if U.derives_from(fi.node, t.value, lambda x: isinstance(x, ast.Call) and isinstance(x.func, ast.Attribute)
                                              and x.func.attr == 'query', defs):
                                n += 1
                                ck.expect(t.attr in ATTR_WRITERS.get(fi.qual, ()), 'C14-D2', fi.qual, 'row store .%s' % t.attr,
                                          'a queried row is modified (%s) outside check_out' % norm_text(c), fi.loc(c))
    if n == 0:
        raise AnalysisError('no SQL statement constructor found in the database modules')


def d2_to_plain(ctx):
    repo, ck = ctx.repo, ctx.check
    fi = repo.func(SQLM + ':QueuedURL.to_plain')
    stores = {}
    for n in walk_no_nested(fi.node):
        if isinstance(n, ast.Assign) and len(n.targets) == 1 and isinstance(n.targets[0], ast.Attribute) \
                and isinstance(n.targets[0].value, ast.Name):
            stores.setdefault(n.targets[0].attr, []).append((n.targets[0].value.id, n.value))
    rets = [n.value for n in walk_no_nested(fi.node) if isinstance(n, ast.Return)]
    rname = rets[0].id if len(rets) == 1 and isinstance(rets[0], ast.Name) else None
    for f in ('url', 'status', 'try_count', 'level'):
        s = stores.get(f, [])
        ok = len(s) == 1 and s[0][0] == rname
        if ok:
            v = s[0][1]
            if f == 'status':
                ok = isinstance(v, ast.Call) and (repo.resolve_name(fi.module, dotted(v.func) or '?') or ('',))[0] == 'class' \
                    and len(v.args) == 1 and U.is_self_attr(v.args[0], 'status')
            else:
                ok = U.is_self_attr(v, f)
        ck.expect(ok, 'C14-D2', fi.qual, 'record.%s from self.%s' % (f, f),
                  'the plain record returned by the table does not carry the row\'s %s' % f, fi.loc())


def d2_session(ctx):
    repo, ck = ctx.repo, ctx.check
    fi = repo.func(TABLE + '._session')
    cfg = ctx.cfg(fi)
    ys = [n for n in cfg.stmt_nodes() if n.kind == 'stmt' and isinstance(n.stmt, ast.Expr) and isinstance(n.stmt.value, ast.Yield)]
    ok = len(ys) == 1 and 'contextlib.contextmanager' in fi.decorators
    sname = norm_text(ys[0].stmt.value.value) if ok and ys[0].stmt.value.value is not None else None
    if ok:
        p = cfg.find_path(ys[0], lambda n: n is cfg.exit, edge_ok=F.normal, stop=F.has_call('commit', recv=sname))
        ok = p is None and bool(F.stmt_nodes_where(cfg, F.has_call('commit', recv=sname)))
    ck.expect(ok, 'C14-D2', fi.qual, 'commit after the block on every normal path',
              'a table operation can complete without its session being committed: its effect is lost', fi.loc())
    if sname:
        hs = [n for n in cfg.nodes if n.kind == 'handler']
        swallow = any(cfg.find_path(h, lambda n: n is cfg.exit, edge_ok=F.normal) for h in hs)
        ck.expect(not swallow, 'C14-D2', fi.qual, 'errors inside the block are re-raised',
                  'an error inside a table operation is swallowed by the session scope: NotFound never reaches the caller', fi.loc())


def d2_add_urls(ctx):
    repo, ck = ctx.repo, ctx.check
    fi = repo.func(SQLM + ':URLString.add_urls')
    sql = Sql(repo, fi.module)
    params = [p for p in fi.params if p not in ('self', 'cls')]
    pm = U.parents(fi.node)
    defs = U.local_defs(fi.node)
    ins = [c for c in ast.walk(fi.node) if isinstance(c, ast.Call) and sql.ctor(c) and sql.ctor(c)[0] == 'insert' and sql.ctor(c)[1] == 'URLString']
    ok = len(ins) == 1 and len(params) == 2
    why = 'add_urls builds %d insert(URLString) statements' % len(ins)
    if ok:
        ex, top = _executed(fi, params[0], ins[0], pm, defs)
        cond = [a for a in U.ancestors(ex or ins[0], pm) if isinstance(a, (ast.If, ast.Try, ast.While))]
        ok = ex is not None and not cond
        why = 'the insert is not executed unconditionally on the given session'
        if ok:
            rows = ex.args[1] if len(ex.args) == 2 else None
            in_loop = [a for a in U.ancestors(ex, pm) if isinstance(a, ast.For)]
            if isinstance(rows, (ast.ListComp, ast.GeneratorExp)) and not in_loop:
                g = rows.generators
                e = rows.elt
                ok = len(g) == 1 and not g[0].ifs and isinstance(g[0].iter, ast.Name) and g[0].iter.id == params[1] \
                    and isinstance(g[0].target, ast.Name) and isinstance(e, ast.Dict) and len(e.keys) == 1 \
                    and U.const_str(repo, fi.module, e.keys[0]) == 'url' and isinstance(e.values[0], ast.Name) and e.values[0].id == g[0].target.id
            elif isinstance(rows, ast.Dict) and len(in_loop) == 1 and isinstance(in_loop[0].iter, ast.Name) and in_loop[0].iter.id == params[1] \
                    and isinstance(in_loop[0].target, ast.Name):
                ok = len(rows.keys) == 1 and U.const_str(repo, fi.module, rows.keys[0]) == 'url' and isinstance(rows.values[0], ast.Name) \
                    and rows.values[0].id == in_loop[0].target.id
            else:
                ok = False
            why = "the rows are not {'url': u} for every u of %s" % params[1]
    ck.expect(ok, 'C14-D2', fi.qual, "insert(URLString) executed with {'url': u} for every given URL", why, fi.loc())


TABULATED = ('count', 'get_one', 'get_all', 'add_many', 'check_out', 'check_in', 'update_one', 'release', 'remove_many',
             'convert_check_out', 'convert_check_in', '_session')


def d2_impls(ctx):
    """The operations tabulated above are the ones every concrete table runs."""
    repo, ck = ctx.repo, ctx.check
    base = repo.cls(BASE + ':BaseURLTable')
    wrap = repo.cls(WRAP + ':URLTableHookWrapper')
    tab = repo.cls(TABLE)
    concretes = [c for c in repo.subclasses(base) if c is not wrap]
    leaves = [c for c in concretes if c is not tab]
    if not leaves:
        raise AnalysisError('no concrete URL table class found')
    for c in leaves:
        over = sorted(n for n in TABULATED if repo.find_method(c, n) is None or repo.find_method(c, n).cls is not tab)
        ck.expect(tab in repo.mro(c) and not over, 'C14-D2', c.qual, 'uses the tabulated BaseSQLURLTable operations',
                  '%s replaces or lacks the tabulated operation(s) %s: its behaviour is not the one decided here' % (c.name, over or 'all'),
                  'wpull/database/sqltable.py:%s' % c.node.lineno)


# ====================================================================== D3 added-URL detection
def d3_watch(ctx):
    repo, ck = ctx.repo, ctx.check
    fi = repo.func(SQLM + ':QueuedURL.watch_urls_inserted')
    sql = Sql(repo, fi.module)
    ob = Ob(ck, 'C14-D3', fi)
    N_MAX = 'max(QueuedURL.id) or 0 read from the given session before the block runs'
    N_SEL = 'inserted rows = URLString.url where QueuedURL.id > that max, joined on url_string_id, same session'
    ob.declare(N_MAX, N_SEL)
    params = [p for p in fi.params if p not in ('self', 'cls')]
    if not params or 'contextlib.contextmanager' not in fi.decorators:
        ob.fail(N_MAX, 'watch_urls_inserted is no longer a context manager over a session')
        ob.close()
        return
    session = params[0]
    defs = U.local_defs(fi.node)
    cfg = ctx.cfg(fi)
    dom = cfg.dominators()
    yields = [n for n in cfg.stmt_nodes() if n.kind == 'stmt' and any(isinstance(x, ast.Yield) for x in walk_no_nested(n.stmt))]
    marks = []
    for name, ds in defs.items():
        for v, kind, st in ds:
            if kind != 'assign' or v is None:
                continue
            for c in ast.walk(v):
                if isinstance(c, ast.Call) and dotted(c.func) == 'func.max':
                    marks.append((name, v, st, c))
    if len(marks) != 1 or len(yields) != 1 or len(defs.get(marks[0][0] if marks else '', [])) != 1:
        ob.fail(N_MAX, 'expected one assignment of func.max(QueuedURL.id) and one yield (found %d, %d)' % (len(marks), len(yields)))
        ob.close()
        return
    name, v, st, mc = marks[0]
    core, dflt = v, None
    if isinstance(v, ast.BoolOp) and isinstance(v.op, ast.Or) and len(v.values) == 2:
        core, dflt = v.values
    q = sql.query(core, session)
    okq = q is not None and q['terminal'] == 'scalar' and not q['conds'] and not q['extra'] and q['entity_expr'] is mc \
        and len(mc.args) == 1 and sql.col(mc.args[0]) == 'QueuedURL.id'
    okd = isinstance(dflt, ast.Constant) and type(dflt.value) is int and dflt.value == 0
    ob.need(okq and okd, N_MAX, 'the high-water mark is %s (expected <session>.query(func.max(QueuedURL.id)).scalar() or 0)' % norm_text(v), st)
    sn = cfg.nodes_of(st)
    ob.need(bool(sn) and any(n.id in dom[yields[0].id] for n in sn), N_MAX,
            'the maximum id is not read on every path before the block (the insert) runs: rows inserted by this batch are not seen as new', st)
    # the getter
    yv = [x for x in walk_no_nested(yields[0].stmt) if isinstance(x, ast.Yield)][0].value
    getter = None
    if isinstance(yv, ast.Name):
        for n in fi.node.body:
            if isinstance(n, ast.FunctionDef) and n.name == yv.id:
                getter = n
    if getter is None:
        ob.fail(N_SEL, 'the block is not handed a local function that lists the inserted URLs')
        ob.close()
        return
    gdefs = U.local_defs(getter)
    sels = [c for c in ast.walk(getter) if isinstance(c, ast.Call) and (sql.ctor(c) or ('',))[0] == 'select']
    pm = U.parents(getter)
    oks = False
    why = 'no select'
    if len(sels) == 1:
        top = sels[0]
        while True:
            p = pm.get(id(top))
            if isinstance(p, ast.Attribute) and p.value is top and isinstance(pm.get(id(p)), ast.Call) and pm[id(p)].func is p:
                top = pm[id(p)]
            else:
                break
        root, steps = sql.chain(top)
        wh = [c for n_, c in steps if n_ == 'where']
        cs = [c for w_ in wh for c in sql.conds(w_.args)]
        got = set()
        for c in cs:
            if c[0] == 'join':
                got.add(('join', tuple(sorted(c[1])), c[2]))
            else:
                got.add((c[0], c[1], norm_text(c[2]) if c[2] is not None else ''))
        want = {('QueuedURL.id', '>', name), ('join', ('QueuedURL.url_string_id', 'URLString.id'), '==')}
        oks = got == want and sql.col(sql.ctor(sels[0])[2]) == 'URLString.url' and all(n_ == 'where' for n_, _ in steps)
        why = 'rows selected by %s' % norm_text(top)[:150]
        ex = [c for c in U.calls(getter, attr='execute') if isinstance(c.func.value, ast.Name) and c.func.value.id == session]
        if oks and len(ex) != 1:
            oks, why = False, 'the select is not executed on the session the maximum was read from'
        if oks and name in gdefs:
            oks, why = False, 'the high-water mark is reassigned inside the getter'
        if oks:
            rets = [r for r in walk_no_nested(getter) if isinstance(r, ast.Return)]
            if len(rets) != 1 or not U.derives_from(getter, rets[0].value, lambda x: x is ex[0], gdefs):
                oks, why = False, 'the getter does not return the rows of that select'
    ob.need(oks, N_SEL, why, getter)
    ob.close()


def d2_batch_identity(ctx):
    """add_many hands every element of its argument to the INSERT in the given order: the parameter is only ever
    re-bound to tuple(param)/list(param) and iterated directly (INSERT OR IGNORE makes the FIRST occurrence win)."""
    repo, ck = ctx.repo, ctx.check
    fi = repo.func(TABLE + '.add_many')
    ob = Ob(ck, 'C14-D2', fi)
    N = 'the rows inserted are the elements of the argument, all of them, in order'
    ob.declare(N)
    p = fi.params[1] if len(fi.params) > 1 else None
    if p is None:
        ob.fail(N, 'add_many has no batch parameter')
        ob.close()
        return
    for v, kind, st in U.local_defs(fi.node).get(p, []):
        if kind == 'param':
            continue
        good = kind == 'assign' and isinstance(v, ast.Call) and dotted(v.func) in ('tuple', 'list') and len(v.args) == 1 \
            and isinstance(v.args[0], ast.Name) and v.args[0].id == p and not v.keywords
        if not good:
            ob.fail(N, 'the batch is rebuilt as `%s` before it is inserted: duplicates inside one batch are no longer resolved in '
                       'favour of the first occurrence (or rows are dropped/reordered)' % norm_text(v if v is not None else st), st)
    loops = [n for n in walk_no_nested(fi.node) if isinstance(n, ast.For) and isinstance(n.iter, ast.Name) and n.iter.id == p]
    other = [n for n in walk_no_nested(fi.node) if isinstance(n, ast.For) and any(isinstance(x, ast.Name) and x.id == p for x in ast.walk(n.iter))
             and n not in loops]
    if not loops:
        ob.fail(N, 'the batch parameter is never iterated directly')
    for n in other:
        ob.fail(N, 'the batch is iterated through `%s`' % norm_text(n.iter), n)
    for lp in loops:
        for x in ast.walk(lp):
            if isinstance(x, (ast.Break, ast.Continue)):
                ob.fail(N, 'the loop over the batch skips or stops early', x)
    # the row list handed to the INSERT grows by exactly one row per element of the batch, in order: a list that starts empty and
    # is append()ed to once on every path through the loop body (a dict keyed by URL lets the LAST duplicate win instead)
    defs = U.local_defs(fi.node)
    for c in U.calls(fi.node, attr='execute'):
        if len(c.args) == 2 and isinstance(c.args[1], ast.Name) and isinstance(c.args[0], ast.Name):
            qdefs = [v for v, k, s_ in defs.get(c.args[0].id, []) if v is not None]
            if not any('insert(QueuedURL)' in norm_text(v) for v in qdefs):
                continue
            rows = c.args[1].id
            ds = defs.get(rows, [])
            okinit = len(ds) == 1 and ds[0][1] == 'assign' and isinstance(ds[0][0], ast.List) and not ds[0][0].elts
            # one row per element through a comprehension over the batch is the same thing
            if len(ds) == 1 and ds[0][1] == 'assign' and isinstance(ds[0][0], ast.ListComp) and len(ds[0][0].generators) == 1 \
                    and isinstance(ds[0][0].generators[0].iter, ast.Name) and ds[0][0].generators[0].iter.id == p and not ds[0][0].generators[0].ifs:
                continue
            if not okinit:
                ob.fail(N, 'the row list `%s` is not a list that starts empty and is filled in the loop over the batch (%s)' % (
                    rows, '; '.join(norm_text(s_)[:60] for v, k, s_ in ds)), c)
                continue
            appended = False
            for lp in loops:
                lcfg_nodes = [n for n in ctx.cfg(fi).nodes if n.stmt is not None and any(n.stmt is x for x in ast.walk(lp))]
                apps = [n for n in lcfg_nodes if any(U.attr_name(a) == 'append' and isinstance(a.func.value, ast.Name) and a.func.value.id == rows
                                                     for a in F.node_calls(n))]
                if not apps:
                    continue
                appended = True
                cfg_ = ctx.cfg(fi)
                head = [n for n in cfg_.nodes if n.kind == 'for' and n.stmt is lp]
                if head:
                    # from the loop header into the body and back to the header without an append
                    p_ = cfg_.find_path(head[0], lambda m: m is head[0], edge_ok=F.normal, stop=lambda m: m in apps,
                                        first_edges=lambda a, b, k: k in ('T', 'body', 'iter', 'n'))
                    if p_ is not None and len(p_) > 1:
                        ob.fail(N, 'an element of the batch can pass the loop without a row being appended', lp)
            if not appended:
                ob.fail(N, 'no row is appended to `%s` in the loop over the batch' % rows, c)
    ob.close()


def d3_add_many(ctx):
    repo, ck = ctx.repo, ctx.check
    fi = repo.func(TABLE + '.add_many')
    sql = Sql(repo, fi.module)
    ob = Ob(ck, 'C14-D3', fi)
    N_IN = 'insert(QueuedURL) executed inside `with QueuedURL.watch_urls_inserted(<same session>)`'
    N_GET = 'added URLs read after the insert, inside the session, and returned'
    ob2 = Ob(ck, 'C14-D2', fi)
    N_STR = 'URL strings of every new URL inserted before the queue insert'
    N_KEY = "url_string_id bound to the id of URLString.url == bindparam('url'); rows carry 'url'"
    N_NOUP = 'no update/delete: adding a stored URL changes nothing'
    ob.declare(N_IN, N_GET)
    ob2.declare(N_STR, N_KEY, N_NOUP)
    w, session = _one_session(ob, fi)
    if w is None:
        ob.close()
        ob2.close()
        return
    pm = U.parents(fi.node)
    defs = U.local_defs(fi.node)
    cfg = ctx.cfg(fi)
    dom = cfg.dominators()
    watches = []
    for n in walk_no_nested(fi.node):
        if isinstance(n, ast.With):
            for it in n.items:
                c = it.context_expr
                if isinstance(c, ast.Call) and isinstance(c.func, ast.Attribute) and c.func.attr == 'watch_urls_inserted' \
                        and sql.model(c.func.value) == 'QueuedURL':
                    watches.append((n, c, it.optional_vars))
    ins = [c for c in ast.walk(fi.node) if isinstance(c, ast.Call) and sql.ctor(c) and sql.ctor(c)[0] == 'insert' and sql.ctor(c)[1] == 'QueuedURL']
    if len(watches) != 1 or len(ins) != 1:
        ob.fail(N_IN, 'expected one watch_urls_inserted block and one insert(QueuedURL) (found %d, %d)' % (len(watches), len(ins)))
        ob.close()
        ob2.close()
        return
    wn, wc, wv = watches[0]
    ex, top = _executed(fi, session, ins[0], pm, defs)
    okin = inside(wn, w) and len(wc.args) == 1 and isinstance(wc.args[0], ast.Name) and wc.args[0].id == session \
        and ex is not None and any(inside(ex, s) for s in wn.body) \
        and not [a for a in U.ancestors(ex, pm) if isinstance(a, (ast.If, ast.Try, ast.While)) and inside(a, wn)]
    ob.need(okin, N_IN, 'the queue insert %s the block that recorded max(id) on the same session: inserted rows cannot be told from old ones' % (
        'is not executed' if ex is None else 'runs outside'), ex or ins[0])
    # the getter call
    gname = wv.id if isinstance(wv, ast.Name) else None
    gcalls = [c for c in U.calls(fi.node) if isinstance(c.func, ast.Name) and c.func.id == gname and not c.args]
    okg = False
    why = 'the inserted-URL getter is called %d times' % len(gcalls)
    if len(gcalls) == 1 and ex is not None:
        gs = U.enclosing_stmt(gcalls[0], pm)
        es = U.enclosing_stmt(ex, pm)
        okg = isinstance(gs, ast.Assign) and len(gs.targets) == 1 and isinstance(gs.targets[0], ast.Name) and gs.value is gcalls[0] \
            and inside(gs, w) and any(n.id in dom[g.id] for n in cfg.nodes_of(es) for g in cfg.nodes_of(gs)) and gs is not es
        why = 'the added URLs are computed by %s, not after the insert inside the session' % norm_text(gs)
        if okg:
            rname = gs.targets[0].id
            okg = len(defs.get(rname, [])) == 1
            for r in [n for n in walk_no_nested(fi.node) if isinstance(n, ast.Return)]:
                v = r.value
                empty = isinstance(v, (ast.Tuple, ast.List)) and not v.elts
                if not (isinstance(v, ast.Name) and v.id == rname or empty and not inside(r, w)):
                    okg = False
                    why = 'add_many returns %s instead of the rows detected as inserted' % (norm_text(v) if v is not None else 'None')
            p = cfg.find_path(cfg.entry, lambda n: n is cfg.exit, edge_ok=F.normal, stop=lambda n: n.kind == 'return')
            if okg and p is not None:
                okg, why = False, 'add_many can end without returning the added URLs'
    ob.need(okg, N_GET, why, gcalls[0] if gcalls else fi.node)
    ob.close()
    # ---- D2: url strings first, key binding, nothing updated
    adds = [c for c in U.calls(fi.node, attr='add_urls') if sql.model(c.func.value) == 'URLString']
    oks = False
    why = 'URLString.add_urls is called %d times' % len(adds)
    if len(adds) == 1 and ex is not None and len(adds[0].args) == 2:
        a = adds[0]
        as_ = U.enclosing_stmt(a, pm)
        es = U.enclosing_stmt(ex, pm)
        lst = a.args[1]
        oks = isinstance(a.args[0], ast.Name) and a.args[0].id == session and inside(a, w) \
            and any(n.id in dom[e.id] for n in cfg.nodes_of(as_) for e in cfg.nodes_of(es)) and isinstance(lst, ast.Name)
        why = 'URLString.add_urls(%s) does not run on the same session before the queue insert' % norm_text(a)[:80]
        if oks:
            oks = False
            why = 'the URL of every new entry is not appended unconditionally to %s' % lst.id
            for lp in [n for n in walk_no_nested(fi.node) if isinstance(n, ast.For)]:
                if not (isinstance(lp.iter, ast.Name) and lp.iter.id == fi.params[1]):
                    continue
                first = lp.target.elts[0].id if isinstance(lp.target, ast.Tuple) and lp.target.elts and isinstance(lp.target.elts[0], ast.Name) else None
                for s in lp.body:
                    if isinstance(s, ast.Expr) and isinstance(s.value, ast.Call) and isinstance(s.value.func, ast.Attribute) \
                            and s.value.func.attr == 'append' and dotted(s.value.func.value) == lst.id and len(s.value.args) == 1:
                        arg = s.value.args[0]
                        if isinstance(arg, ast.Name) and arg.id == first and lp.lineno < as_.lineno:
                            oks = True
    ob2.need(oks, N_STR, why, adds[0] if adds else fi.node)
    # key binding
    okk = False
    why = 'the insert values do not bind url_string_id'
    st = sql.statement(top)
    bind = None
    for kind, v in st['values']:
        if kind == 'arg' and isinstance(v, ast.Name):
            for n in walk_no_nested(fi.node):
                if isinstance(n, ast.Assign) and len(n.targets) == 1 and isinstance(n.targets[0], ast.Subscript) \
                        and isinstance(n.targets[0].value, ast.Name) and n.targets[0].value.id == v.id \
                        and U.const_str(repo, fi.module, n.targets[0].slice) == 'url_string_id':
                    bind = n.value
            ds = defs.get(v.id, [])
            for dv, dk, _ in ds:
                if isinstance(dv, ast.Dict):
                    for k_, v_ in zip(dv.keys, dv.values):
                        if k_ is not None and U.const_str(repo, fi.module, k_) == 'url_string_id':
                            bind = v_
        elif kind == 'arg' and isinstance(v, ast.Dict):
            for k_, v_ in zip(v.keys, v.values):
                if k_ is not None and U.const_str(repo, fi.module, k_) == 'url_string_id':
                    bind = v_
    if bind is not None:
        def canon(e):
            if isinstance(e, ast.Call) and dotted(e.func) == 'bindparam' and len(e.args) == 1:
                return 'bind:%s' % U.const_str(repo, fi.module, e.args[0])
            return norm_text(e)
        okk = sql.url_id_select(bind, 'bind:url', canon)
        why = 'url_string_id is bound to %s' % norm_text(bind)[:120]
        if okk:
            # the parameter rows carry 'url': <the entry's url>
            okk = False
            why = "the parameter rows do not carry 'url': <url of the entry>"
            for lp in [n for n in walk_no_nested(fi.node) if isinstance(n, ast.For)]:
                if not (isinstance(lp.iter, ast.Name) and lp.iter.id == fi.params[1]):
                    continue
                first = lp.target.elts[0].id if isinstance(lp.target, ast.Tuple) and lp.target.elts and isinstance(lp.target.elts[0], ast.Name) else None
                for d in [n for s in lp.body for n in ast.walk(s) if isinstance(n, ast.Dict)]:
                    for k_, v_ in zip(d.keys, d.values):
                        if k_ is not None and U.const_str(repo, fi.module, k_) == 'url' and isinstance(v_, ast.Name) and v_.id == first:
                            okk = True
    ob2.need(okk, N_KEY, why, ins[0])
    others = [(c, sql.ctor(c)) for c in ast.walk(fi.node) if isinstance(c, ast.Call) and sql.ctor(c) and sql.ctor(c)[0] in ('update', 'delete')]
    ob2.need(not others, N_NOUP, 'add_many also builds %s' % ['%s(%s)' % (ct[0], ct[1]) for _, ct in others], others[0][0] if others else None)
    ob2.close()


# ====================================================================== D4 wrapper forwards unchanged
class Sig:
    def __init__(self, fn):
        a = fn.args
        allpos = [x.arg for x in a.posonlyargs + a.args]
        self.pos = allpos[1:] if allpos and allpos[0] in ('self', 'cls') else allpos
        nd = len(a.defaults)
        self.defaults = {}
        for name, d in zip(allpos[len(allpos) - nd:], a.defaults):
            self.defaults[name] = d
        self.vararg = a.vararg.arg if a.vararg else None
        self.kwarg = a.kwarg.arg if a.kwarg else None
        self.kwonly = [x.arg for x in a.kwonlyargs]


_KW_CACHE = {}


def _caller_keywords(repo, method):
    """Keyword names used by call sites `<url table>.method(...)` in the repository."""
    key = id(repo)
    if key not in _KW_CACHE:
        tab = {}
        for f in repo.funcs.values():
            if f.outer is not None:
                continue
            for c in ast.walk(f.node):
                if isinstance(c, ast.Call) and isinstance(c.func, ast.Attribute):
                    recv = norm_text(c.func.value)
                    if ('url_table' in recv or 'URLTable' in recv) and recv != 'self.url_table':
                        for k in c.keywords:
                            if k.arg is not None:
                                tab.setdefault(c.func.attr, set()).add(k.arg)
        _KW_CACHE.clear()
        _KW_CACHE[key] = tab
    return _KW_CACHE[key].get(method, set())


def _is_abstract(fi):
    return any(d.endswith('abstractmethod') or d.endswith('abstractproperty') for d in fi.decorators)


def _returns_value(fn):
    for n in walk_no_nested(fn):
        if isinstance(n, (ast.Yield, ast.YieldFrom)):
            return True
        if isinstance(n, ast.Return) and n.value is not None and not (isinstance(n.value, ast.Constant) and n.value.value is None):
            return True
    return False


def _same_default(repo, m1, d1, m2, d2):
    if (d1 is None) != (d2 is None):
        return False
    if d1 is None:
        return True
    ok1, v1 = _fold(repo, m1, d1)
    ok2, v2 = _fold(repo, m2, d2)
    return ok1 and ok2 and type(v1) is type(v2) and v1 == v2


def d4_wrapper(ctx):
    repo, ck = ctx.repo, ctx.check
    base = repo.cls(BASE + ':BaseURLTable')
    wrap = repo.cls(WRAP + ':URLTableHookWrapper')
    if base not in repo.mro(wrap):
        raise AnalysisError('URLTableHookWrapper no longer derives from BaseURLTable')
    abstract = [m for m in base.methods.values() if _is_abstract(m)]
    if not abstract:
        raise AnalysisError('BaseURLTable declares no abstract operation')
    # the wrapped table is the constructor argument, never replaced
    stores = [(m, s) for m in wrap.methods.values() for s in F.assigned_attrs(m.node, 'url_table')]
    init = wrap.methods.get('__init__')
    okf = len(stores) == 1 and init is not None and stores[0][0] is init and isinstance(stores[0][1], ast.Assign) \
        and isinstance(stores[0][1].value, ast.Name) and stores[0][1].value.id in init.params[1:] \
        and len(U.local_defs(init.node).get(stores[0][1].value.id, [])) == 1
    ck.expect(okf, 'C14-D4', wrap.qual, 'self.url_table is the constructor argument, assigned once',
              'the wrapped table is assigned %d times / not from the constructor argument' % len(stores),
              'wpull/database/wrap.py:%s' % wrap.node.lineno)
    concretes = [c for c in repo.subclasses(base) if c is not wrap and not c.module.name.endswith('_test')]
    leaves = [c for c in concretes if not any(c in repo.mro(o)[1:] for o in concretes)]
    if not leaves:
        raise AnalysisError('no concrete URL table implementation found')
    for bm in sorted(base.methods.values(), key=lambda f: f.node.lineno):
        if bm.name.startswith('__'):
            continue
        wm = wrap.methods.get(bm.name)
        where = '%s.%s' % (wrap.qual, bm.name)
        if wm is None:
            if _is_abstract(bm):
                ck.bad('C14-D4', where, 'override forwarding to self.url_table.%s' % bm.name,
                       'URLTableHookWrapper does not implement the abstract operation %s' % bm.name, 'wpull/database/wrap.py:%s' % wrap.node.lineno)
            else:
                # inherited default: must be built from operations the wrapper forwards
                tgt = [c for c in U.calls(bm.node) if isinstance(c.func, ast.Attribute) and U.is_self_attr(c.func)]
                ok = bool(tgt) and all(c.func.attr in wrap.methods and c.func.attr in base.methods for c in tgt)
                ck.expect(ok, 'C14-D4', where, 'inherited %s built on forwarded operations' % bm.name,
                          'the inherited default %s does not go through an operation the wrapper forwards' % bm.name, bm.loc())
            continue
        _d4_method(ctx, base, wrap, bm, wm, leaves, where)
    _d4_base_defaults(ctx, base)


def _d4_method(ctx, base, wrap, bm, wm, leaves, where):
    repo, ck = ctx.repo, ctx.check
    bs, ws = Sig(bm.node), Sig(wm.node)
    loc = wm.loc()
    # ---- signature of the override against the base
    used = _caller_keywords(repo, bm.name)
    oksig = (len(ws.pos) == len(bs.pos) or len(ws.pos) < len(bs.pos) and ws.vararg is not None) \
        and (bs.kwarg is None or ws.kwarg is not None) and (bs.vararg is None or ws.vararg is not None) \
        and all(_same_default(repo, bm.module, bs.defaults.get(bs.pos[i]), wm.module, ws.defaults.get(p)) for i, p in enumerate(ws.pos))
    missing = sorted(k for k in used if k not in ws.pos and ws.kwarg is None)
    ck.expect(oksig and not missing, 'C14-D4', where, 'signature compatible with BaseURLTable.%s' % bm.name,
              'the override takes (%s) but the base operation takes (%s)%s: callers written against the base get other behaviour' % (
                  norm_text(wm.node.args), norm_text(bm.node.args),
                  '; callers pass keyword(s) %s' % missing if missing else ''), loc)
    renamed = [(bs.pos[i], p) for i, p in enumerate(ws.pos) if i < len(bs.pos) and bs.pos[i] != p]
    if renamed:
        ck.remark('%s names parameter(s) %s differently from BaseURLTable.%s (%s); harmless while every caller passes them '
                  'positionally' % (wm.qual, [r[1] for r in renamed], bm.name, [r[0] for r in renamed]))
    # ---- the forwarding call
    fcalls = [c for c in U.calls(wm.node) if isinstance(c.func, ast.Attribute) and U.is_self_attr(c.func.value, 'url_table')]
    same = [c for c in fcalls if c.func.attr == bm.name]
    if len(same) != 1 or len(fcalls) != 1:
        ck.bad('C14-D4', where, 'one call of self.url_table.%s' % bm.name,
               'the override calls %s on the wrapped table (expected exactly one call of %s)' % (
                   [c.func.attr for c in fcalls] or 'nothing', bm.name), loc)
        return
    call = same[0]
    cfg = ctx.cfg(wm)
    pm = U.parents(wm.node)
    cs = U.enclosing_stmt(call, pm)
    cn = cfg.nodes_of(cs)
    p = cfg.find_path(cfg.entry, lambda n: n is cfg.exit, edge_ok=F.normal, stop=lambda n: n in cn)
    inloop = [a for a in U.ancestors(call, pm) if isinstance(a, (ast.For, ast.While))]
    ck.expect(p is None and bool(cn) and not inloop, 'C14-D4', where, 'forwarded on every normal path, once',
              'the override can return without calling the wrapped table (or calls it repeatedly)', wm.loc(call),
              path=None)
    # ... and does not answer on the table's behalf: no explicit raise (NotFound from a counter of its own) before the call
    raisers = [n for n in cfg.stmt_nodes() if isinstance(n.stmt, ast.Raise)]
    pr = cfg.find_path(cfg.entry, lambda n: n in raisers, edge_ok=F.normal, stop=lambda n: n in cn) if raisers else None
    ck.expect(pr is None, 'C14-D4', where, 'no answer of its own before the wrapped table is asked',
              'the override raises before it has called the wrapped table: what it reports (not found, ...) comes from bookkeeping of the '
              'wrapper - a counter that starts at 0 in every process - not from the rows', wm.loc(raisers[0].stmt) if raisers else loc)
    # ---- arguments
    defs = U.local_defs(wm.node)
    problems = []
    covered = []
    star_ok = kw_ok = False
    for i, a in enumerate(call.args):
        if isinstance(a, ast.Starred):
            if isinstance(a.value, ast.Name) and a.value.id == ws.vararg and i == len(call.args) - 1:
                star_ok = True
            else:
                problems.append('passes *%s' % norm_text(a.value))
        elif i < len(ws.pos) and isinstance(a, ast.Name) and a.id == ws.pos[i]:
            covered.append(a.id)
        else:
            problems.append('positional argument %d is %s, not %s' % (i + 1, norm_text(a), ws.pos[i] if i < len(ws.pos) else 'a parameter'))
    for k in call.keywords:
        if k.arg is None:
            if isinstance(k.value, ast.Name) and k.value.id == ws.kwarg:
                kw_ok = True
            else:
                problems.append('passes **%s' % norm_text(k.value))
        elif isinstance(k.value, ast.Name) and k.arg in bs.pos and bs.pos.index(k.arg) < len(ws.pos) \
                and k.value.id == ws.pos[bs.pos.index(k.arg)]:
            covered.append(k.value.id)
        else:
            problems.append('keyword %s=%s is not the same-named parameter' % (k.arg, norm_text(k.value)))
    for p_ in ws.pos:
        if covered.count(p_) != 1:
            problems.append('parameter %s is %s' % (p_, 'not passed on' if p_ not in covered else 'passed twice'))
        if any(kind != 'param' for _, kind, _ in defs.get(p_, [])):
            problems.append('parameter %s is reassigned in the override' % p_)
    if ws.vararg and not star_ok:
        problems.append('*%s is not passed on' % ws.vararg)
    if ws.kwarg and not kw_ok:
        problems.append('**%s is not passed on' % ws.kwarg)
    ck.expect(not problems, 'C14-D4', where, 'every parameter passed through unchanged',
              '; '.join(problems[:4]) + ' (call: %s)' % norm_text(call), wm.loc(call))
    # ---- concrete implementations accept what is passed, with the base defaults
    impls = {}
    for c in leaves:
        im = repo.find_method(c, bm.name)
        if im is None or _is_abstract(im):
            ck.bad('C14-D4', c.qual, 'implements %s' % bm.name, '%s does not implement the operation %s' % (c.name, bm.name), 'wpull/database/sqltable.py:%s' % c.node.lineno)
        else:
            impls[im.qual] = im
    npos = len([a for a in call.args if not isinstance(a, ast.Starred)])
    kws = [k.arg for k in call.keywords if k.arg is not None]
    for im in impls.values():
        s = Sig(im.node)
        probs = []
        if len(s.pos) < len(bs.pos) and s.vararg is None:
            probs.append('takes %d parameters, the base %d' % (len(s.pos), len(bs.pos)))
        for extra in s.pos[len(bs.pos):]:
            if extra not in s.defaults:
                probs.append('extra required parameter %s' % extra)
        for i_, bp in enumerate(bs.pos):
            if i_ < len(s.pos) and not _same_default(repo, bm.module, bs.defaults.get(bp), im.module, s.defaults.get(s.pos[i_])):
                probs.append('default of parameter %d (%s) differs from the base' % (i_ + 1, s.pos[i_]))
        if npos > len(s.pos) and s.vararg is None:
            probs.append('wrapper passes %d positional arguments' % npos)
        for k in kws:
            if k not in s.pos and k not in s.kwonly and s.kwarg is None:
                probs.append('wrapper passes keyword %s which %s does not accept' % (k, im.local))
            elif k in s.pos and k in bs.pos and s.pos.index(k) != bs.pos.index(k):
                probs.append('keyword %s names another position than in the base' % k)
            elif k in s.pos and s.pos.index(k) < npos:
                probs.append('keyword %s also passed positionally' % k)
        if bs.kwarg and not s.kwarg:
            probs.append('does not accept **%s' % bs.kwarg)
        for k in sorted(used):
            if k not in s.pos and k not in s.kwonly and s.kwarg is None:
                probs.append('callers pass keyword %s' % k)
        ck.expect(not probs, 'C14-D4', im.qual, 'accepts the base signature and the wrapper\'s call',
                  '; '.join(probs[:3]), im.loc())
        ren = [(bp, s.pos[i_]) for i_, bp in enumerate(bs.pos) if i_ < len(s.pos) and s.pos[i_] != bp]
        if ren:
            ck.remark('%s names parameter(s) %s differently from BaseURLTable.%s (%s); harmless while the wrapper and all '
                      'callers pass them positionally' % (im.qual, [r[1] for r in ren], bm.name, [r[0] for r in ren]))
    # ---- the result
    needs = any(_returns_value(im.node) for im in impls.values())
    if not needs:
        ck.ok('C14-D4', where, 'result: no implementation of %s returns a value' % bm.name)
        return
    par = pm.get(id(call))
    val = call
    if isinstance(par, ast.Call) and dotted(par.func) in ('tuple', 'list') and par.args == [call] and not par.keywords:
        val, par = par, pm.get(id(par))
    okr, why = False, 'the result of %s is dropped' % norm_text(call)[:80]
    if isinstance(par, ast.Return) and par.value is val:
        okr = True
    elif isinstance(par, ast.Assign) and par.value is val and len(par.targets) == 1 and isinstance(par.targets[0], ast.Name):
        r = par.targets[0].id
        rets = [n for n in walk_no_nested(wm.node) if isinstance(n, ast.Return)]
        okr = len(defs.get(r, [])) == 1 and bool(rets) and all(isinstance(n.value, ast.Name) and n.value.id == r for n in rets) \
            and cfg.find_path(cfg.entry, lambda n: n is cfg.exit, edge_ok=F.normal, stop=lambda n: n.kind == 'return') is None
        why = 'the override does not return the wrapped table\'s result %s on every path' % r
    ck.expect(okr, 'C14-D4', where, 'returns the wrapped table\'s result', why, wm.loc(call))


def _d4_base_defaults(ctx, base):
    """The non-abstract conveniences of BaseURLTable pass their arguments on unchanged."""
    repo, ck = ctx.repo, ctx.check
    one = base.methods.get('add_one')
    if one is not None:
        ps = Sig(one.node).pos
        cs = [c for c in U.calls(one.node) if isinstance(c.func, ast.Attribute) and U.is_self_attr(c.func, 'add_many')]
        ok = len(cs) == 1 and len(cs[0].args) == 1 and isinstance(cs[0].args[0], (ast.List, ast.Tuple)) and len(cs[0].args[0].elts) == 1
        if ok:
            e = cs[0].args[0].elts[0]
            r = repo.resolve_name(one.module, dotted(e.func) or '?') if isinstance(e, ast.Call) else None
            ok = isinstance(e, ast.Call) and dotted(e.func) == 'AddURLInfo' and not e.keywords \
                and [norm_text(a) for a in e.args] == ps and len(ps) == 3
            info = one.module.assigns.get('AddURLInfo')
            fields = None
            if isinstance(info, ast.Call) and len(info.args) == 2 and isinstance(info.args[1], (ast.List, ast.Tuple)):
                fields = [U.const_str(repo, one.module, f.elts[0]) for f in info.args[1].elts if isinstance(f, ast.Tuple) and f.elts]
            ok = ok and fields == ['url', 'properties', 'data']
        ck.expect(ok, 'C14-D4', one.qual, 'add_one -> add_many([AddURLInfo(url, properties, data)])',
                  'add_one does not hand (url, url_properties, url_data) in field order to add_many', one.loc())
    rem = base.methods.get('remove_one')
    if rem is not None:
        ps = Sig(rem.node).pos
        cs = [c for c in U.calls(rem.node) if isinstance(c.func, ast.Attribute) and U.is_self_attr(c.func, 'remove_many')]
        ok = len(cs) == 1 and len(cs[0].args) == 1 and isinstance(cs[0].args[0], (ast.List, ast.Tuple)) \
            and [norm_text(a) for a in cs[0].args[0].elts] == ps and len(ps) == 1
        ck.expect(ok, 'C14-D4', rem.qual, 'remove_one -> remove_many([url])', 'remove_one does not remove exactly the given URL', rem.loc())
    con = base.methods.get('contains')
    if con is not None:
        bad = []
        leaves = Interp(repo, con).leaves()
        for lf in leaves:
            r = [v for k, v in lf.val.items() if k[0] == 'raises' and k[1] == 'self.get_one(P0)']
            if len(r) != 1 or len(lf.val) != 1 or lf.kind != 'return' or not isinstance(lf.value, ast.Constant):
                bad.append(repr(lf))
            elif r[0] == 'no' and lf.value.value is not True or r[0] != 'no' and (lf.value.value is not False or not r[0].endswith(':NotFound')):
                bad.append('%s -> %s' % (r[0], lf.value.value))
        ck.expect(not bad and len(leaves) == 2, 'C14-D4', con.qual, 'contains(url) is True iff get_one(url) does not raise NotFound',
                  'contains() no longer mirrors get_one(): %s' % bad, con.loc())


# ====================================================================== driver
def run(ctx):
    ck = ctx.check
    for m in (SQLT, SQLM, BASE, WRAP, ITEM):
        ctx.repo.module(m)
    ck.assume('SQLAlchemy/SQLite semantics are trusted: INSERT OR IGNORE skips rows violating UNIQUE/NOT NULL, a query '
              'object\'s attribute store is flushed at commit, ids of new rows exceed the previous maximum')
    ck.assume('decides the schema and the statement shape of every operation on every path, not equivalence with a '
              'reference model over operation histories')
    ck.rule('C14-D1', 'schema: url string and queue key columns unique and NOT NULL, status/try_count/level NOT NULL with defaults '
                      'todo/0/0, Status members distinct, QueuedURL.url is the row referenced by url_string_id; every '
                      "insert(<model>) anywhere carries .prefix_with('OR IGNORE') and no ORM-level insert exists")
    ck.rule('C14-D2', 'per-operation effect tables read from the SQLAlchemy expression ASTs on every path (decision-tree leaves): '
                      'check_out/convert_check_out filter, NotFound iff no row, store only in_progress, one session; get_one; '
                      'check_in update shape (status, try_count + 1 iff asked, where on the URL id); update_one; release; '
                      'remove_many the only delete; who-may-write table; add_many order and key binding; to_plain; commit scope')
    ck.rule('C14-D3', 'added-URL detection: max(QueuedURL.id) read from the same session before the block, rows with a greater id '
                      'joined to their URL string; the queue insert runs inside that block; add_many returns exactly those rows')
    ck.rule('C14-D4', 'URLTableHookWrapper overrides every BaseURLTable operation with the same signature, calls the same-named '
                      'operation of the wrapped table once on every path with every parameter unchanged and returns its result; '
                      'concrete tables accept the base signature; inherited conveniences forward their arguments')
    d1_schema(ctx)
    d1_inserts(ctx)
    from .common import sql_boolop_lint
    sql_boolop_lint(ctx, 'C14-D1')
    d2_session(ctx)
    d2_checkout(ctx, 'check_out', 'QueuedURL', 'P0', True)
    d2_checkout(ctx, 'convert_check_out', 'QueuedFile', 'todo', False)
    d2_get_one(ctx)
    d2_check_in(ctx)
    d2_update_one(ctx)
    d2_release(ctx)
    d2_remove_many(ctx)
    d2_replace_order(ctx)
    if getattr(ctx, 'prop', None) == 'C14':
        # reopening: rows a previous process left in progress go back to todo before anything is handed out (rule shared with C03)
        from . import c03 as _c03
        from .common import RemapCtx as _RC
        _c03.d3_release_at_startup(_RC(ctx, {'C03-D3': 'C14-D2'}))
    d2_writers(ctx)
    d2_to_plain(ctx)
    d2_add_urls(ctx)
    d2_impls(ctx)
    d3_watch(ctx)
    d2_batch_identity(ctx)
    d3_add_many(ctx)
    d4_wrapper(ctx)
