"""C18 - work per URL is bounded: redirect chains and retries always end.

D1 the redirect counter is a ranking function of the web-session loop (writers,
   limit test before the next hop is built, single authentication retry, missing or
   unparsable Location gives up with ProtocolError, a failed start() leaves the loop);
D2 the limit is wired from the option and every web session gets a fresh tracker;
D3 a failed visit increments the try count exactly once;
D4 the retry gate: TriesFilter table, its construction, and error rows re-enter only
   through check_out(error) and the same filter consultation before any request.
(DESIGN.md section 3, C18-D1..D4.)  Static analysis only.
"""
import ast
import re

from ..index import dotted, walk_no_nested, norm_text, AnalysisError
from ..cfg import describe_path
from .. import util as U
from .. import flow as F
from ..dtable import Interp, compare, fmt_val, _Need

RED = 'wpull.protocol.http.redirect'
WEBM = 'wpull.protocol.http.web'
TRACKER = RED + ':RedirectTracker'
WSESSION = WEBM + ':WebSession'
WCLIENT = WEBM + ':WebClient'
PROC = 'wpull.processor.web:WebProcessorSession'
FTPS = 'wpull.processor.ftp:FTPProcessorSession'
ROBOTS = 'wpull.protocol.http.robots:RobotsTxtChecker'
RULEM = 'wpull.processor.rule'
SES = 'wpull.pipeline.session'
SQL = 'wpull.database.sqltable:BaseSQLURLTable'
WRAP = 'wpull.database.wrap:URLTableHookWrapper'
UF = 'wpull.urlfilter'
PE = 'wpull.errors:ProtocolError'


# ---------------------------------------------------------------------- helpers
_IDX = {}


def _index(repo):
    """One pass over the production functions: attribute stores, calls by method name, while loops."""
    if id(repo) in _IDX:
        return _IDX[id(repo)]
    funcs = [f for f in repo.funcs.values() if f.module.name.startswith('wpull') and 'thirdparty' not in f.module.name]
    stores, calls, whiles, setattrs, trykeys = {}, {}, [], [], []
    for f in funcs:
        for n in walk_no_nested(f.node):
            if isinstance(n, ast.Attribute):
                if isinstance(n.ctx, (ast.Store, ast.Del)):
                    stores.setdefault(n.attr, []).append((f, n))
            elif isinstance(n, ast.Call):
                if isinstance(n.func, ast.Attribute):
                    calls.setdefault(n.func.attr, []).append((f, n))
                elif isinstance(n.func, ast.Name):
                    calls.setdefault(n.func.id, []).append((f, n))
                    if n.func.id in ('setattr', 'delattr'):
                        setattrs.append((f, n))
            elif isinstance(n, ast.While):
                whiles.append((f, n))
            elif isinstance(n, ast.Subscript) and isinstance(n.ctx, ast.Store):
                k = n.slice
                if (dotted(k) or '').endswith('.try_count') or (isinstance(k, ast.Constant) and k.value == 'try_count'):
                    trykeys.append((f, n, n))
            elif isinstance(n, ast.Dict):
                for k in n.keys:
                    if k is not None and ((dotted(k) or '').endswith('.try_count') or (isinstance(k, ast.Constant) and k.value == 'try_count')):
                        trykeys.append((f, n, k))
    idx = {'funcs': funcs, 'stores': stores, 'calls': calls, 'whiles': whiles, 'setattrs': setattrs, 'trykeys': trykeys}
    _IDX.clear()
    _IDX[id(repo)] = idx
    return idx


def _prod_funcs(repo):
    return _index(repo)['funcs']


def _calls_named(repo, name):
    """[(FuncInfo, Call)] for calls of a method/function with this name in production code."""
    return _index(repo)['calls'].get(name, [])


def _accessor_field(repo, qual):
    """The self attribute a trivial accessor returns (role -> field name)."""
    fi = repo.func(qual)
    rets = [r for r in walk_no_nested(fi.node) if isinstance(r, ast.Return)]
    if len(rets) == 1 and U.is_self_attr(rets[0].value):
        return rets[0].value.attr
    raise AnalysisError('%s: accessor does not return a field of self' % qual)


def _is_none(e):
    return isinstance(e, ast.Constant) and e.value is None


def _strip_not(e):
    neg = False
    while isinstance(e, ast.UnaryOp) and isinstance(e.op, ast.Not):
        neg = not neg
        e = e.operand
    return e, neg


def _truth_edge(fn, test, is_target, defs=None):
    """For `if test:` return the edge kind ('T'/'F') taken when the target expression is
    TRUTHY, or None when the test is not a plain (possibly negated / is-None) test of it."""
    e, neg = _strip_not(test)
    if isinstance(e, ast.Compare) and len(e.ops) == 1 and _is_none(e.comparators[0]) \
            and isinstance(e.ops[0], (ast.Is, ast.IsNot, ast.Eq, ast.NotEq)):
        if isinstance(e.ops[0], (ast.Is, ast.Eq)):
            neg = not neg
        e = e.left
    ex = U.expand_locals(fn, e, defs)
    if is_target(e) or is_target(ex):
        return 'F' if neg else 'T'
    return None


def _other(edge):
    return 'F' if edge == 'T' else 'T'


def _raise_anc(repo, fi, stmt):
    e = stmt.exc
    if e is None:
        return None
    if isinstance(e, ast.Call):
        e = e.func
    d = dotted(e)
    if d is None:
        return None
    return repo.exc_ancestors(d, fi.module)


def _is_protocol_error(repo, fi, stmt):
    anc = _raise_anc(repo, fi, stmt)
    return anc is not None and PE in anc


def _gives_up(repo, fi, cfg, start, first_edge, forbidden):
    """From `start` along edges `first_edge(kind)` (then normal edges) every path ends in a
    `raise` of ProtocolError that is not swallowed: no normal exit and no `forbidden`
    node is reachable.  Returns (ok, reason, path)."""
    def eok(a, b, k):
        if a is start:
            return first_edge(k)
        return F.normal(a, b, k)
    bad_goal = lambda m: m is cfg.exit or m in forbidden
    p = cfg.find_path(start, bad_goal, edge_ok=eok)
    if p is not None:
        return False, 'continues without giving up', describe_path(p)
    reach = cfg.reachable([start], edge_ok=eok)
    raises = [n for n in reach if n.kind == 'raise']
    if not raises:
        return False, 'no raise reached', None
    for r in raises:
        if r.stmt.exc is None:
            # bare re-raise inside a handler keeps the caught type; only accepted in a ProtocolError handler
            return False, 'bare re-raise (type not established)', None
        if not _is_protocol_error(repo, fi, r.stmt):
            return False, 'raises %s, which is not a ProtocolError' % norm_text(r.stmt.exc)[:60], None
        q = cfg.find_path(r, bad_goal, edge_ok=lambda a, b, k: True)
        if q is not None:
            return False, 'the ProtocolError raised at line %s is caught again inside the function' % r.lineno, describe_path(q)
    return True, '', None


def _handler_covers(repo, fi, hstmt, want=('ValueError', 'Exception', 'BaseException')):
    if hstmt.type is None:
        return True
    try:
        v = repo.fold(fi.module, hstmt.type)
    except ValueError:
        return False
    names = v if isinstance(v, tuple) else (v,)
    return any(str(n) in want for n in names)


def _foreign_stores(repo, attr, own_quals):
    """Stores/deletes of `<x>.<attr>` (or setattr with that name) that are not `self.<attr>` inside the owning
    classes (those are enumerated by _class_stores) and not a same-named field of an unrelated class."""
    out = []
    idx = _index(repo)
    for f, n in idx['stores'].get(attr, []):
        if isinstance(n.value, ast.Name) and n.value.id == 'self':
            continue
        out.append((f, n))
    for f, n in idx['setattrs']:
        if any(isinstance(a, ast.Constant) and a.value == attr for a in n.args):
            out.append((f, n))
    return out


def _class_stores(repo, ci, attr):
    """[(FuncInfo, stmt)] storing self.<attr> in the methods of the class (and subclasses)."""
    out = []
    classes = [ci] + list(repo.subclasses(ci))
    for c in classes:
        for m in list(c.methods.values()) + list(c.setters.values()):
            for s in F.assigned_attrs(m.node, attr):
                out.append((m, s))
            for n in walk_no_nested(m.node):
                if isinstance(n, ast.Delete) and any(U.is_self_attr(t, attr) for t in n.targets):
                    out.append((m, n))
    return out


def _store_value(s):
    if isinstance(s, ast.Assign) and all(not isinstance(t, (ast.Tuple, ast.List)) for t in s.targets):
        return s.value
    if isinstance(s, ast.AnnAssign):
        return s.value
    return None


def _const_int(repo, fi, e):
    try:
        v = repo.fold(fi.module, e)
    except ValueError:
        return None
    return v if isinstance(v, int) and not isinstance(v, bool) else None


def _recv_text(fn, call, defs=None):
    if not isinstance(call.func, ast.Attribute):
        return ''
    return norm_text(U.expand_locals(fn, call.func.value, defs))


def _truthy_obs(o, truth):
    if o.kind == 'return':
        return bool(truth(o.value)) if o.value is not None else False
    if o.kind == 'fall':
        return False
    return 'raises'


def _same_bool(it, test, ref_src):
    ref = ast.parse(ref_src, mode='eval').body
    stack = [{}]
    n = 0
    while stack:
        val = stack.pop()
        try:
            a = it.truth(test, val)
            b = it.truth(ref, val)
        except _Need as need:
            for dv in need.domain:
                v2 = dict(val)
                v2[need.key] = dv
                stack.append(v2)
            continue
        n += 1
        if bool(a) != bool(b) or n > 1024:
            return False
    return True


def run(ctx):
    ck = ctx.check
    ck.assume('plugins/hooks (accept_url, handle_* actions, add_child_url(replace=True) from scripts) are user configuration')
    ck.assume('asserts are enabled (the interpreter is not run with -O); enum members compare by identity')
    ck.assume('decides the shape of the loops and counters on all paths; termination of a whole crawl additionally needs a finite site')
    ck.rule('C18-D1', 'redirect counter is a ranking function: _num_redirects is written only by __init__ (0) and load (+1 whenever '
                      'the response has a Location); exceeded() is `count > max` or `count >= max` on the constructor maximum; in '
                      'WebSession every path of _process_response passes load() and then ends the session, or runs _process_redirect '
                      '(limit test -> raise ProtocolError before the next request is built; missing/unparsable Location -> '
                      'ProtocolError), or the single authentication retry guarded by and setting _loop_type; an exception from '
                      'start() never leads back into a session loop and the session is not re-created inside it')
    ck.rule('C18-D2', 'the limit is wired: RedirectTracker factory = partial(RedirectTracker, max_redirects=args.max_redirect) handed to '
                      'the WebClient, which calls it once per session() so every WebSession owns a fresh tracker')
    ck.rule('C18-D3', 'one try-count increment per failed visit: every set_status(Status.error) / check_in(error) site keeps '
                      'increment_try_count=True, set_status asserts no earlier increment and forwards the flag, the wrapper forwards it, '
                      'check_in adds exactly one iff the flag; nothing else writes try_count')
    ck.rule('C18-D4', 'retry gate: TriesFilter accepts iff limit unset or try_count < limit and is constructed iff args.tries; error '
                      'rows re-enter only through check_out(Status.error) in URLItemSource.get_item with the stored try_count, and '
                      'both processors consult the filters on that record (false -> skip(), status skipped) before any request')
    ctx.c18 = {}
    d1_counter(ctx)
    d1_session(ctx)
    d1_loops(ctx)
    d2_wiring(ctx)
    d3_increment(ctx)
    d4_gate(ctx)


# ---------------------------------------------------------------------- D1: the counter
LOC_RX = re.compile(r"\.fields\.get\(['\"]location['\"]\)$|\.fields\[['\"]location['\"]\]$", re.I)


def d1_counter(ctx):
    repo, ck = ctx.repo, ctx.check
    tr = repo.cls(TRACKER)
    exceeded = repo.func(TRACKER + '.exceeded')
    load = repo.func(TRACKER + '.load')
    init = repo.func(TRACKER + '.__init__')
    nextloc = repo.func(TRACKER + '.next_location')

    # role -> field: the two operands of the comparison in exceeded()
    it = Interp(repo, exceeded)
    fields = sorted({n.attr for n in ast.walk(exceeded.node) if U.is_self_attr(n)} - set(tr.methods))
    maxf = [f for f in fields if it.canon.field_map.get(f)]
    numf = [f for f in fields if f not in maxf]
    if len(maxf) != 1 or len(numf) != 1:
        ck.bad('C18-D1', exceeded.qual, 'count > configured maximum',
               'exceeded() does not compare a counter field with a maximum fed by a constructor parameter '
               '(fields read: %s, constructor-fed: %s)' % (fields, maxf), exceeded.loc())
        return
    MAXF, NUMF = maxf[0], numf[0]
    cmax, cnum = it.t('self.' + MAXF), it.t('self.' + NUMF)

    # exceeded(): `num > max` or `num >= max`
    results = []
    for name, ref in (('>', lambda v: v.ord(cmax, cnum) == 'lt'), ('>=', lambda v: v.ord(cmax, cnum) in ('lt', 'eq'))):
        rows, mism, atoms, refonly = compare(Interp(repo, exceeded), ref, _truthy_obs)
        results.append((name, rows, mism, atoms))
    good = [r for r in results if not r[2]]
    m = results[0][2]
    ck.expect(bool(good), 'C18-D1', exceeded.qual, 'exceeded() == (%s %s %s)' % (NUMF, good[0][0] if good else '>', MAXF),
              'the limit test is neither `count > max` nor `count >= max`: e.g. [%s] -> %s' % (
                  fmt_val(m[0][0]) if m else '', m[0][1] if m else ''), exceeded.loc())

    # the maximum is the constructor argument and is never rewritten
    for f, s in _class_stores(repo, tr, MAXF):
        v = _store_value(s)
        okm = f.qual == init.qual and isinstance(s, ast.Assign) and isinstance(v, ast.Name) and v.id in init.params
        ck.expect(okm, 'C18-D1', f.qual, norm_text(s), 'the redirect maximum is written outside the constructor / not from its parameter', f.loc(s))
    for f, n in _foreign_stores(repo, MAXF, {tr.qual}):
        ck.bad('C18-D1', f.qual, norm_text(n), 'the redirect maximum of a tracker is written from outside the class', f.loc(n))

    # writers of the counter
    seen_init = seen_inc = 0
    for f, s in _class_stores(repo, tr, NUMF):
        v = _store_value(s)
        if f.qual == init.qual and isinstance(s, ast.Assign) and v is not None and _const_int(repo, f, v) == 0:
            seen_init += 1
            ck.ok('C18-D1', f.qual, 'counter initialised: %s' % norm_text(s))
        elif f.qual == load.qual and ((isinstance(s, ast.AugAssign) and isinstance(s.op, ast.Add) and _const_int(repo, f, s.value) == 1)
                                      or (U.step_of(s) is not None and U.is_self_attr(U.step_of(s)[0], NUMF) and U.step_of(s)[1] == 1)):
            seen_inc += 1
            ck.ok('C18-D1', f.qual, 'counter incremented: %s' % norm_text(s))
        else:
            ck.bad('C18-D1', f.qual, norm_text(s), 'the redirect counter is written by something other than `= 0` in __init__ / `+= 1` in load '
                   '(a reset or decrement lets a redirect cycle run forever)', f.loc(s))
    for f, n in _foreign_stores(repo, NUMF, {tr.qual}):
        ck.bad('C18-D1', f.qual, norm_text(n), 'the redirect counter is written from outside RedirectTracker', f.loc(n))
    if not seen_init:
        ck.bad('C18-D1', init.qual, 'self.%s = 0' % NUMF, 'the counter is not initialised to 0 in the constructor', init.loc())
    if not seen_inc:
        ck.bad('C18-D1', load.qual, 'self.%s += 1' % NUMF, 'load() no longer counts the redirect', load.loc())
    for sub in repo.subclasses(tr):
        for name in ('load', 'exceeded', 'next_location', '__init__'):
            if name in sub.methods:
                ck.bad('C18-D1', sub.qual, 'override of %s' % name, 'a RedirectTracker subclass overrides the counter discipline', sub.methods[name].loc())

    # load(): every response carrying a Location is counted, exactly once
    lt = Interp(repo, load, rename=False)
    bad = []
    leaves = lt.leaves()
    inc_text = 'self.%s Add= 1' % NUMF
    for o in leaves:
        touching = [e for e in o.effects if re.match(r'self\.%s\b' % re.escape(NUMF), e) or ('self.%s' % NUMF) in e.split('=')[0]]
        if touching == [inc_text] or touching in (['self.%s = self.%s + 1' % (NUMF, NUMF)], ['self.%s = 1 + self.%s' % (NUMF, NUMF)]):
            continue
        if touching:
            bad.append('[%s] -> %s' % (fmt_val(o.val), '; '.join(touching)))
            continue
        absent = [k for k, v in o.val.items() if k[0] == 'T' and v is False and (
            re.match(r'self\.next_location\((raw=)?True\)$', k[1]) or LOC_RX.search(k[1]))]
        if not absent:
            bad.append('[%s] -> not counted' % fmt_val(o.val))
    ck.expect(not bad and leaves, 'C18-D1', load.qual, 'load(): +1 on every path where the response has a Location (%d rows)' % len(leaves),
              'a response with a Location can be loaded without being counted exactly once: %s' % '; '.join(bad[:2]), load.loc())
    # the response examined is the one being loaded
    cfg = ctx.cfg(load)
    p0 = load.params[1] if len(load.params) > 1 else None
    resp_fields = sorted({n.attr for n in ast.walk(nextloc.node) if U.is_self_attr(n)} - set(tr.methods))
    st = [n for n in cfg.stmt_nodes() if n.kind == 'stmt' and isinstance(n.stmt, ast.Assign) and any(
        U.is_self_attr(t) and t.attr in resp_fields for t in n.stmt.targets) and norm_text(n.stmt.value) == p0]
    incn = [n for n in cfg.stmt_nodes() if n.kind == 'stmt' and ((isinstance(n.stmt, ast.AugAssign) and U.is_self_attr(n.stmt.target, NUMF))
                                                                   or (U.step_of(n.stmt) is not None and U.is_self_attr(U.step_of(n.stmt)[0], NUMF)))]
    tests = [n for n in cfg.stmt_nodes() if n.kind == 'if']
    okorder = len(st) == 1 and all(cfg.find_path(cfg.entry, lambda m, t=t: m is t, edge_ok=F.normal, stop=lambda m: m is st[0]) is None
                                   for t in tests + incn)
    ck.expect(okorder, 'C18-D1', load.qual, 'the loaded response is stored before its Location is examined',
              'load() examines the previous response (the store of the new response does not precede the test)', load.loc())

    # next_location(): no URL without a Location header
    nt = Interp(repo, nextloc, rename=False)
    bad = []
    leaves = nt.leaves()
    for o in leaves:
        if o.kind == 'fall' or (o.kind == 'return' and (o.value is None or _is_none(o.value))):
            continue
        if o.kind != 'return':
            bad.append('[%s] -> %s' % (fmt_val(o.val), o.kind))
            continue
        vt = norm_text(o.value)
        if LOC_RX.search(vt):
            continue            # returns the header value itself: falsy when absent
        present = [k for k, v in o.val.items() if k[0] == 'T' and v is True and LOC_RX.search(k[1])]
        if not present:
            bad.append('[%s] -> %s' % (fmt_val(o.val), vt[:60]))
    ck.expect(not bad and leaves, 'C18-D1', nextloc.qual, 'next_location(): a URL only when the response has a Location (%d rows)' % len(leaves),
              'next_location() can produce a follow-up URL although the Location header is missing: %s' % '; '.join(bad[:2]), nextloc.loc())
    ctx.c18.update({'MAXF': MAXF, 'NUMF': NUMF})


# ---------------------------------------------------------------------- D1: WebSession
def _self_calls(node, name):
    return [c for c in U.calls(node, attr=name) if isinstance(c.func.value, ast.Name) and c.func.value.id == 'self']


def d1_session(ctx):
    repo, ck = ctx.repo, ctx.check
    ws = repo.cls(WSESSION)
    NEXT = _accessor_field(repo, WSESSION + '.next_request')
    LOOP = _accessor_field(repo, WSESSION + '.loop_type')
    TRK = _accessor_field(repo, WSESSION + '.redirect_tracker')
    trk_texts = ('self.' + TRK, 'self.redirect_tracker')
    init = repo.func(WSESSION + '.__init__')
    pr = repo.func(WSESSION + '._process_response')
    rd = repo.func(WSESSION + '._process_redirect')
    au = repo.func(WSESSION + '._process_authentication')
    st = repo.func(WSESSION + '.start')
    done = repo.func(WSESSION + '.done')

    def trk_call(fn, c, name, defs=None):
        return isinstance(c, ast.Call) and U.attr_name(c) == name and _recv_text(fn, c, defs) in trk_texts

    # -- writers of the next request -------------------------------------------------
    may_build = {init.qual, rd.qual}
    for f, s in _class_stores(repo, ws, NEXT):
        v = _store_value(s)
        if v is not None and _is_none(v):
            ck.ok('C18-D1', f.qual, 'ends the session: %s' % norm_text(s))
        elif f.qual in may_build and isinstance(s, ast.Assign):
            ck.ok('C18-D1', f.qual, 'next request set: %s' % norm_text(s))
        else:
            ck.bad('C18-D1', f.qual, norm_text(s), 'the next request of a web session is set outside the constructor and '
                   '_process_redirect: a follow-up request that no redirect-limit test precedes', f.loc(s))
    for f, n in _foreign_stores(repo, NEXT, {ws.qual}):
        ck.bad('C18-D1', f.qual, norm_text(n), 'the next request of a web session is written from outside WebSession', f.loc(n))
    # the loop condition really is "no next request"
    dl = Interp(repo, done, rename=False).leaves()
    okd = len(dl) == 1 and dl[0].kind == 'return' and dl[0].value is not None and norm_text(dl[0].value) in (
        'self.next_request() is None', 'self.%s is None' % NEXT, 'not self.next_request()', 'not self.%s' % NEXT,
        'self.next_request() == None', 'self.%s == None' % NEXT)
    ck.expect(okd, 'C18-D1', done.qual, 'done() <=> there is no next request',
              'done() no longer reports "no next request": the fetch loop cannot end when the session ends', done.loc())

    # -- start(): each response is processed --------------------------------------------
    scfg = ctx.cfg(st)
    sends = [n for n in scfg.stmt_nodes() if any(isinstance(y, (ast.YieldFrom, ast.Await)) and isinstance(y.value, ast.Call)
                                                 and U.attr_name(y.value) == 'start' for y in walk_no_nested(F.node_expr(n) or ast.Pass()))]
    is_proc = lambda n: bool(_self_calls(F.node_expr(n) or ast.Pass(), '_process_response')) if n.stmt is not None else False
    if not sends:
        ck.bad('C18-D1', st.qual, 'response = yield from session.start(request)', 'WebSession.start no longer sends the request', st.loc())
    for n in sends:
        p = F.escapes_without(scfg, n, is_proc)
        ck.expect(p is None, 'C18-D1', st.qual, 'every response is handed to _process_response',
                  'start() can return a response without updating the session state: the same request is sent again forever',
                  st.loc(n.stmt), path=describe_path(p) if p else None)

    # -- _process_response ---------------------------------------------------------------
    cfg = ctx.cfg(pr)
    defs = U.local_defs(pr.node)
    nodes = cfg.stmt_nodes()
    expr = lambda n: F.node_expr(n) or ast.Pass()
    loads = [n for n in nodes if any(trk_call(pr.node, c, 'load', defs) for c in U.calls(expr(n)))]
    reds = [n for n in nodes if _self_calls(expr(n), rd.name)]
    auths = [n for n in nodes if _self_calls(expr(n), au.name)]
    nones = [n for n in nodes if n.kind == 'stmt' and isinstance(n.stmt, ast.Assign) and _is_none(n.stmt.value)
             and any(U.is_self_attr(t, NEXT) for t in n.stmt.targets)]
    if len(loads) != 1:
        ck.bad('C18-D1', pr.qual, 'self.%s.load(response)' % TRK, '_process_response does not load the response into the redirect tracker '
               'exactly once (%d sites): redirects are not counted' % len(loads), pr.loc())
    else:
        ld = loads[0]
        lc = [c for c in U.calls(expr(ld)) if trk_call(pr.node, c, 'load', defs)][0]
        p0 = pr.params[1] if len(pr.params) > 1 else None
        ck.expect(len(lc.args) == 1 and norm_text(U.expand_locals(pr.node, lc.args[0], defs)) == p0, 'C18-D1', pr.qual,
                  'load() receives the response just received', 'the tracker is loaded with something other than the new response', pr.loc(lc))
        p = F.escapes_without(cfg, cfg.entry, lambda m: m is ld)
        ck.expect(p is None, 'C18-D1', pr.qual, 'every path loads the response into the tracker',
                  'a response can be processed without being counted by the redirect tracker', pr.loc(),
                  path=describe_path(p) if p else None)
        for r in reds:
            p = cfg.find_path(cfg.entry, lambda m, r=r: m is r, edge_ok=F.normal, stop=lambda m: m is ld)
            ck.expect(p is None, 'C18-D1', pr.qual, 'load() precedes _process_redirect()',
                      'the redirect is followed before the response was counted: the limit test sees a stale count', pr.loc(r.stmt),
                      path=describe_path(p) if p else None)
        term = set(id(n) for n in reds + auths + nones)
        p = F.escapes_without(cfg, ld, lambda m: id(m) in term)
        ck.expect(p is None and bool(reds) and bool(nones), 'C18-D1', pr.qual,
                  'after load(): end the session, or _process_redirect(), or _process_authentication()',
                  'a path through _process_response keeps the next request without a limit test, an authentication guard or ending the session',
                  pr.loc(), path=describe_path(p) if p else None)
    # the two helpers are entered only from here
    for helper in (rd, au):
        callers = sorted({f.qual for f, c in _calls_named(repo, helper.name) if f.cls is not None and f.qual != helper.qual
                          and isinstance(c.func, ast.Attribute) and isinstance(c.func.value, ast.Name) and c.func.value.id == 'self'
                          and any(k.qual == ws.qual for k in repo.mro(f.cls))})
        ck.expect(callers == [pr.qual], 'C18-D1', helper.qual, 'called only from _process_response (after load())',
                  '%s is also called from %s, where no load() precedes it' % (helper.name, callers), helper.loc())
    # the loop type set by the authentication retry survives _process_response
    loop_store = lambda m: m.kind == 'stmt' and isinstance(m.stmt, (ast.Assign, ast.AugAssign, ast.AnnAssign)) and bool(
        [s for s in F.assigned_attrs(ast.Module(body=[m.stmt], type_ignores=[]), LOOP)])
    for a in auths:
        p = cfg.find_path(a, loop_store, edge_ok=F.normal)
        ck.expect(p is None, 'C18-D1', pr.qual, 'nothing rewrites %s after _process_authentication()' % LOOP,
                  'the loop type is overwritten after the authentication branch: the "already retried" guard never holds and a '
                  'server answering 401 forever is retried forever', pr.loc(a.stmt), path=describe_path(p) if p else None)
        # ... and nothing rewrites it BEFORE the authentication branch either: the guard must see what the previous response left
        pb = cfg.find_path(cfg.entry, lambda m, a=a: m is a, edge_ok=F.normal, stop=lambda m: False)
        pre = [m for m in nodes if loop_store(m) and cfg.find_path(cfg.entry, lambda x, m=m: x is m, edge_ok=F.normal) is not None
               and cfg.find_path(m, lambda x, a=a: x is a, edge_ok=F.normal) is not None]
        ck.expect(not pre, 'C18-D1', pr.qual, 'nothing rewrites %s before _process_authentication() tests it' % LOOP,
                  'the loop type is reset before the authentication branch tests it: the "already retried once" guard never holds and '
                  'a server that keeps answering 401 is retried without end', pr.loc(pre[0].stmt) if pre else pr.loc())
    allowed_loop = {init.qual, pr.qual, au.qual}
    for f, s in _class_stores(repo, ws, LOOP):
        ck.expect(f.qual in allowed_loop, 'C18-D1', f.qual, norm_text(s),
                  'the loop type is rewritten outside __init__/_process_response/_process_authentication (defeats the single-retry guard)', f.loc(s))
    for f, n in _foreign_stores(repo, LOOP, {ws.qual}):
        ck.bad('C18-D1', f.qual, norm_text(n), 'the loop type of a web session is written from outside WebSession', f.loc(n))

    _process_redirect(ctx, rd, NEXT, trk_call)
    _process_authentication(ctx, au, NEXT, LOOP)
    ctx.c18.update({'NEXT': NEXT, 'TRK': TRK})


def _process_redirect(ctx, rd, NEXT, trk_call):
    repo, ck = ctx.repo, ctx.check
    cfg = ctx.cfg(rd)
    fn = rd.node
    defs = U.local_defs(fn)
    nodes = cfg.stmt_nodes()
    expr = lambda n: F.node_expr(n) or ast.Pass()
    stores = [n for n in nodes if n.kind == 'stmt' and isinstance(n.stmt, ast.Assign) and not _is_none(n.stmt.value)
              and any(U.is_self_attr(t, NEXT) for t in n.stmt.targets)]
    if not stores:
        ck.bad('C18-D1', rd.qual, 'self.%s = <request for the Location>' % NEXT, '_process_redirect no longer sets the next request '
               '(rule instance missing)', rd.loc())
        return
    # names that make up the stored request, and the statements building them
    built_names = set()
    for s in stores:
        todo = [x.id for x in ast.walk(s.stmt.value) if isinstance(x, ast.Name)]
        while todo:
            nm = todo.pop()
            if nm in built_names or nm not in defs or nm == 'self':
                continue
            built_names.add(nm)
            for v, kind, stt in defs[nm]:
                if v is not None:
                    todo.extend(x.id for x in ast.walk(v) if isinstance(x, ast.Name))
    def_stmts = {id(stt) for nm in built_names for v, kind, stt in defs[nm] if kind != 'param'}
    builds = [n for n in nodes if n.kind == 'stmt' and id(n.stmt) in def_stmts]
    protected = stores + builds
    forbidden = set(protected)

    # (a) the limit test
    guards = []
    for n in nodes:
        if n.kind != 'if':
            continue
        edge = _truth_edge(fn, n.stmt.test, lambda e: trk_call(fn, e, 'exceeded', defs), defs)
        if edge is not None:
            guards.append((n, edge))
    if not guards:
        ck.bad('C18-D1', rd.qual, 'if self._redirect_tracker.exceeded(): raise ProtocolError', 'no redirect-limit test before the next request is built: '
               'a redirect cycle is followed forever', rd.loc())
    else:
        gset = {id(g) for g, _ in guards}
        for t in protected:
            p = cfg.find_path(cfg.entry, lambda m, t=t: m is t, edge_ok=F.normal, stop=lambda m: id(m) in gset)
            what = 'stored' if t in stores else 'built'
            ck.expect(p is None, 'C18-D1', rd.qual, 'limit test dominates `%s`' % norm_text(t.stmt)[:70],
                      'the next request is %s on a path that has not passed the exceeded() test' % what, rd.loc(t.stmt),
                      path=describe_path(p) if p else None)
        for g, edge in guards:
            ok, why, path = _gives_up(repo, rd, cfg, g, lambda k, e=edge: k == e, forbidden)
            ck.expect(ok, 'C18-D1', rd.qual, 'exceeded() -> raise ProtocolError',
                      'when the limit is exceeded the session does not give up with a ProtocolError: %s' % why, rd.loc(g.stmt), path=path)

    # (b) missing Location
    loc_defs = {nm for nm, ds in defs.items() if any(v is not None and trk_call(fn, v, 'next_location', defs) for v, k, s in ds)}
    is_url = lambda e: (isinstance(e, ast.Name) and e.id in loc_defs) or trk_call(fn, e, 'next_location', defs)
    uguards = []
    for n in nodes:
        if n.kind == 'if':
            edge = _truth_edge(fn, n.stmt.test, is_url)
            if edge is not None:
                uguards.append((n, _other(edge)))      # edge taken when the URL is missing
    derives = all(U.derives_from(fn, s.stmt.value, lambda x: trk_call(fn, x, 'next_location', defs), defs) for s in stores)
    ck.expect(derives, 'C18-D1', rd.qual, 'the next request is made from tracker.next_location()',
              'the follow-up request is not derived from the Location of the response that was counted', rd.loc(stores[0].stmt))
    if not uguards:
        ck.bad('C18-D1', rd.qual, 'if not url: raise ProtocolError', 'a redirect without Location is not turned into a ProtocolError', rd.loc())
    else:
        uset = {id(g) for g, _ in uguards}
        users = [t for t in protected if t.kind == 'stmt' and any(isinstance(x, ast.Name) and x.id in loc_defs for x in ast.walk(t.stmt.value))] or stores
        for t in users:
            p = cfg.find_path(cfg.entry, lambda m, t=t: m is t, edge_ok=F.normal, stop=lambda m: id(m) in uset)
            ck.expect(p is None, 'C18-D1', rd.qual, 'Location test dominates `%s`' % norm_text(t.stmt)[:70],
                      'the request is built although the Location may be missing', rd.loc(t.stmt), path=describe_path(p) if p else None)
        for g, edge in uguards:
            ok, why, path = _gives_up(repo, rd, cfg, g, lambda k, e=edge: k == e, forbidden)
            ck.expect(ok, 'C18-D1', rd.qual, 'missing Location -> raise ProtocolError',
                      'a redirect without Location does not end with a ProtocolError: %s' % why, rd.loc(g.stmt), path=path)

    # (c) unparsable Location: everything computed from the Location sits under `except ValueError -> raise ProtocolError`
    tainted = set(loc_defs)
    changed = True
    while changed:
        changed = False
        for nm, ds in defs.items():
            if nm in tainted:
                continue
            for v, k, s in ds:
                if v is not None and any(isinstance(x, ast.Name) and x.id in tainted for x in ast.walk(v)):
                    tainted.add(nm)
                    changed = True
    def obliged(n):
        if n.kind != 'stmt' or n in stores:
            return False
        s = n.stmt
        if isinstance(s, ast.Expr) and isinstance(s.value, ast.Call) and (dotted(s.value.func) or '').startswith('_logger.'):
            return False
        if any(trk_call(fn, c, 'next_location', defs) for c in U.calls(s)):
            return True
        uses = lambda e: any(isinstance(x, ast.Name) and x.id in tainted for x in ast.walk(e))
        if any(uses(c) for c in U.calls(s)):
            return True
        if isinstance(s, ast.Assign) and any(isinstance(t, ast.Attribute) and uses(t.value) for t in s.targets):
            return True
        return False
    obl = [n for n in nodes if obliged(n)]
    if not obl:
        ck.bad('C18-D1', rd.qual, 'statements parsing the Location', 'no statement derived from the Location was found (rule instance missing)', rd.loc())
    for n in obl:
        ok, why, path = _value_error_covered(repo, rd, cfg, n, forbidden)
        ck.expect(ok, 'C18-D1', rd.qual, 'ValueError -> ProtocolError around `%s`' % norm_text(n.stmt)[:70],
                  'an unparsable Location does not end the visit with a ProtocolError: %s' % why, rd.loc(n.stmt), path=path)


def _value_error_covered(repo, fi, cfg, n, forbidden):
    targets = [d for d, k in n.succ if k in ('x:call', 'x:suspend')]
    if isinstance(n.stmt, ast.Assign) and any(isinstance(t, ast.Attribute) for t in n.stmt.targets):
        targets += [d for d, k in n.succ if k == 'x:attr']
    if not targets:
        return True, '', None
    for d in targets:
        cur = d
        hops = 0
        while True:
            hops += 1
            if cur is cfg.xexit or hops > 20:
                return False, 'a ValueError raised here leaves _process_redirect unconverted', None
            if cur.kind == 'dispatch':
                hs = [h for h, k in cur.succ if k == 'catch']
                cov = [h for h in hs if _handler_covers(repo, fi, h.stmt)]
                if cov:
                    ok, why, path = _gives_up(repo, fi, cfg, cov[0], lambda k: True, forbidden)
                    if not ok:
                        return False, 'the ValueError handler: ' + why, path
                    break
                nxt = [x for x, k in cur.succ if k == 'x:uncaught']
            else:
                nxt = [x for x, k in cur.succ]
            if len(nxt) != 1:
                # finally/with bodies: follow the exceptional continuation
                nxt = [x for x, k in cur.succ if k.startswith('x:')] or nxt
            if not nxt:
                return False, 'exception continuation not understood', None
            cur = nxt[0]
    return True, '', None


def _process_authentication(ctx, au, NEXT, LOOP):
    repo, ck = ctx.repo, ctx.check
    it = Interp(repo, au, rename=False)
    leaves = it.leaves()
    none_eff = 'self.%s = None' % NEXT
    auth_eff = 'self.%s = LoopType.authentication' % LOOP
    retry_rows = 0
    for o in leaves:
        nxt = [e for e in o.effects if e.startswith('self.%s = ' % NEXT) or e.startswith('self.%s ' % NEXT)]
        lp = [e for e in o.effects if e.startswith('self.%s = ' % LOOP)]
        if o.kind == 'raise':
            ck.ok('C18-D1', au.qual, '[%s] raises' % fmt_val(o.val))
            continue
        if nxt and nxt[-1] == none_eff:
            ck.ok('C18-D1', au.qual, '[%s] ends the session' % fmt_val(o.val))
            continue
        if nxt:
            ck.bad('C18-D1', au.qual, nxt[-1], '_process_authentication installs a new request', au.loc())
            continue
        retry_rows += 1
        already = None
        for k, v in o.val.items():
            if k[0] == 'ord' and {k[1], k[2]} == {'LoopType.authentication', 'self.' + LOOP}:
                already = (v == 'eq')
            elif k[0] == 'is' and {k[1], k[2]} == {'LoopType.authentication', 'self.' + LOOP}:
                already = bool(v)
        guarded = already is False
        sets = bool(lp) and lp[-1] == auth_eff
        ck.expect(guarded and sets, 'C18-D1', au.qual,
                  'authentication retry only when %s != authentication, and it sets %s = authentication' % (LOOP, LOOP),
                  'the request is retried with credentials %s: a server answering 401 forever is retried forever' % (
                      'without testing that the previous request was not already the authentication retry' if not guarded
                      else 'without recording that the retry was used'), au.loc())
    if not leaves or retry_rows == 0:
        ck.ok('C18-D1', au.qual, 'no retry path (every path ends the session)', nontrivial=False)


# ---------------------------------------------------------------------- D1: the loops that drive a web session
def _is_websession(ctx, fi, recv):
    res = ctx.res
    # fields first, through the (shallow) type of the creating call's receiver: asking the resolver for the field
    # itself runs into its depth limit and caches the truncated (empty) answer
    if U.is_self_attr(recv) and fi.cls is not None:
        for c in ctx.repo.mro(fi.cls):
            for m in c.methods.values():
                for s in F.assigned_attrs(m.node, recv.attr):
                    v = _store_value(s)
                    if isinstance(v, ast.Call) and U.attr_name(v) == 'session' and isinstance(v.func, ast.Attribute) \
                            and any(t.qual == WCLIENT for t in res.type_of(m, v.func.value)):
                        return True
        return False
    return any(t.qual == WSESSION for t in res.type_of(fi, recv))


def _session_loops(ctx):
    """[(FuncInfo, While node, receiver expr)] for loops conditioned on a WebSession's done()/next_request()."""
    out = []
    for f, w in _index(ctx.repo)['whiles']:
        for c in U.calls(w.test):
            if U.attr_name(c) in ('done', 'next_request') and isinstance(c.func, ast.Attribute) \
                    and _is_websession(ctx, f, c.func.value):
                out.append((f, w, c.func.value))
                break
    return out


def _contains_start(ctx, fi, node_expr, recv_text, depth=0):
    """Does the expression call <recv>.start()/download() directly -> 'direct'; through a method of the
    same class -> ('via', callee FuncInfo); else None."""
    for c in U.calls(node_expr):
        if U.attr_name(c) in ('start', 'download') and isinstance(c.func, ast.Attribute) and norm_text(c.func.value) == recv_text:
            return 'direct'
    if depth < 2 and fi.cls is not None:
        for c in U.calls(node_expr):
            if isinstance(c.func, ast.Attribute) and isinstance(c.func.value, ast.Name) and c.func.value.id == 'self':
                g = ctx.repo.find_method(fi.cls, c.func.attr)
                if g is not None and g.qual != fi.qual and any(
                        U.attr_name(x) in ('start', 'download') and isinstance(x.func, ast.Attribute)
                        and norm_text(x.func.value) == recv_text for x in U.calls(g.node)):
                    return ('via', g, c)
    return None


def d1_loops(ctx):
    repo, ck = ctx.repo, ctx.check
    # the session is created once per visit, outside any loop
    created = 0
    for f, c in _calls_named(repo, 'session'):
        if not isinstance(c.func, ast.Attribute) or not any(t.qual == WCLIENT for t in ctx.res.type_of(f, c.func.value)):
            continue
        created += 1
        pm = U.parents(f.node)
        in_loop = any(isinstance(a, (ast.For, ast.While, ast.AsyncFor)) for a in U.ancestors(c, pm))
        ck.expect(not in_loop, 'C18-D1', f.qual, 'web session created once, outside any loop: %s' % norm_text(c)[:50],
                  'a web session (fresh redirect counter) is created inside a loop', f.loc(c))
    if not created:
        ck.bad('C18-D1', PROC + '.process', 'web_client.session(request)', 'no creation of a web session found (rule instance missing)')
    loops = _session_loops(ctx)
    have = {f.qual for f, _, _ in loops}
    for must in (PROC + '._process_loop', ROBOTS + '.fetch_robots_txt'):
        fi = repo.func(must)
        if must not in have:
            ck.bad('C18-D1', must, 'while not session.done()', 'the fetch loop is no longer conditioned on the web session being done', fi.loc())
    for f, w, recv in loops:
        rt = norm_text(recv)
        ok_test = norm_text(w.test) in ('not %s.done()' % rt, '%s.next_request()' % rt, '%s.next_request() is not None' % rt,
                                        '%s.done() is False' % rt, '%s.done() == False' % rt)
        ck.expect(ok_test, 'C18-D1', f.qual, 'loop runs while the session has a next request',
                  'the session loop condition `%s` is not "while not done"' % norm_text(w.test), f.loc(w))
        cfg = ctx.cfg(f)
        heads = cfg.nodes_of(w)
        heads = [h for h in heads if h.kind == 'while']
        if len(heads) != 1:
            raise AnalysisError('%s: loop header not found in the CFG' % f.qual)
        head = heads[0]
        inside = {id(s) for b in w.body for s in ast.walk(b)}
        # the session object is not replaced while the loop runs
        rebinds = []
        for s in ast.walk(ast.Module(body=w.body, type_ignores=[])):
            if isinstance(s, (ast.Assign, ast.AugAssign, ast.AnnAssign, ast.For, ast.With, ast.NamedExpr)):
                tg = s.targets if isinstance(s, ast.Assign) else [getattr(s, 'target', None)] if not isinstance(s, ast.With) else [
                    i.optional_vars for i in s.items]
                for t in tg:
                    if t is not None and any(norm_text(x) == rt and isinstance(getattr(x, 'ctx', None), ast.Store) for x in ast.walk(t)):
                        rebinds.append(s)
        ck.expect(not rebinds, 'C18-D1', f.qual, 'the session (and its redirect tracker) is not replaced inside the loop',
                  'the web session is re-created inside the loop: its redirect counter starts again at 0 on every hop',
                  f.loc(rebinds[0]) if rebinds else f.loc(w))
        sites = 0
        for n in cfg.stmt_nodes():
            if n.stmt is None or id(n.stmt) not in inside:
                continue
            e = F.node_expr(n)
            if e is None:
                continue
            kind = _contains_start(ctx, f, e, rt)
            if kind is None:
                continue
            sites += 1
            # an exception out of this statement never leads back to the loop header
            p = cfg.find_path(n, lambda m: m is head, edge_ok=lambda a, b, k: True if a is not n else k.startswith('x:'))
            ck.expect(p is None, 'C18-D1', f.qual, 'an error in `%s` leaves the loop' % norm_text(n.stmt)[:60],
                      'after a failed request the loop continues with the same next request: a server that keeps failing '
                      '(or exceeds the redirect limit) is asked forever', f.loc(n.stmt), path=describe_path(p) if p else None)
            if kind != 'direct':
                _, g, call = kind
                _via_callee(ctx, f, cfg, head, n, g, rt)
        if not sites:
            ck.bad('C18-D1', f.qual, '%s.start()' % rt, 'the session loop does not start the next request (rule instance missing)', f.loc(w))


def _via_callee(ctx, f, cfg, head, n, g, rt):
    """The loop calls self.<g>() which starts the request: after a failure g must report "stop" and the loop must obey."""
    repo, ck = ctx.repo, ctx.check
    gcfg = ctx.cfg(g)
    starts = [m for m in gcfg.stmt_nodes() if m.stmt is not None and F.node_expr(m) is not None and any(
        U.attr_name(c) in ('start', 'download') and isinstance(c.func, ast.Attribute) and norm_text(c.func.value) == rt
        for c in U.calls(F.node_expr(m)))]
    for m in starts:
        xs = [d for d, k in m.succ if k.startswith('x:')]
        seen = set()
        todo = list(xs)
        rets = []
        while todo:
            cur = todo.pop()
            if cur.id in seen:
                continue
            seen.add(cur.id)
            if cur.kind == 'return':
                rets.append(cur)
            for d, k in cur.succ:
                todo.append(d)
        falls = gcfg.exit.id in seen and any(p.kind != 'return' and p.id in seen for p, k in gcfg.exit.pred)
        gdefs = U.local_defs(g.node)

        def says_stop(r):
            v = r.stmt.value
            if not (isinstance(v, ast.Tuple) and v.elts):
                return False
            e0 = U.expand_locals(g.node, v.elts[0], gdefs)
            return isinstance(e0, ast.Constant) and e0.value is True
        badr = [r for r in rets if not says_stop(r)]
        ck.expect(not badr and not falls, 'C18-D1', g.qual, 'after an error in `%s` the result says "stop" (True, ...)' % norm_text(m.stmt)[:50],
                  'after a failed request %s returns %s: the caller keeps looping on the same request' % (
                      g.name, norm_text(badr[0].stmt) if badr else 'None'), g.loc(badr[0].stmt if badr else m.stmt))
    # the caller leaves the loop when told to
    fdefs = U.local_defs(f.node)
    guards = []
    for m in cfg.stmt_nodes():
        if m.kind != 'if':
            continue
        def from_call(e):
            if not isinstance(e, ast.Name):
                return False
            ds = fdefs.get(e.id, [])
            return bool(ds) and all(k == 'tuple:0' and v is not None and any(
                U.attr_name(c) == g.name for c in U.calls(v)) for v, k, s in ds)
        edge = _truth_edge(f.node, m.stmt.test, from_call, {})
        if edge is not None:
            guards.append((m, edge))
    def eok(a, b, k):
        # the guards' "continue" edges are removed: is the header still reachable?
        return F.normal(a, b, k) and not any(a is gd and k != edge for gd, edge in guards)
    p = cfg.find_path(n, lambda m: m is head, edge_ok=eok)
    p_stop = None
    for gd, edge in guards:
        p_stop = p_stop or cfg.find_path(gd, lambda m: m is head, edge_ok=F.normal, first_edges=lambda a, b, k, e=edge: k == e)
    ck.expect(bool(guards) and p is None and p_stop is None, 'C18-D1', f.qual, 'the loop is left when %s() says stop' % g.name,
              'the loop goes on to the next iteration although %s() reported an error/stop' % g.name, f.loc(n.stmt),
              path=describe_path(p or p_stop) if (p or p_stop) else None)


# ---------------------------------------------------------------------- D2: wiring of the limit
def _add_argument(repo, flag):
    m = repo.module('wpull.application.options')
    for n in ast.walk(m.tree):
        if isinstance(n, ast.Call) and U.attr_name(n) == 'add_argument' and any(
                isinstance(a, ast.Constant) and a.value == flag for a in n.args):
            return m, n
    return m, None


def d2_wiring(ctx):
    repo, ck, res = ctx.repo, ctx.check, ctx.res
    MAXF = ctx.c18.get('MAXF')
    tinit = repo.func(TRACKER + '.__init__')
    # the constructor parameter that feeds the maximum
    maxparam = None
    for s in F.assigned_attrs(tinit.node, MAXF or '_max_redirects'):
        v = _store_value(s)
        if isinstance(v, ast.Name) and v.id in tinit.params:
            maxparam = v.id
    if maxparam is None:
        ck.bad('C18-D2', tinit.qual, 'self._max_redirects = max_redirects', 'the tracker maximum is not taken from a constructor parameter', tinit.loc())
        return
    fmap = res.factory_map()
    ck.expect(fmap.get('RedirectTracker') is not None and fmap['RedirectTracker'].qual == TRACKER and fmap.get('WebClient') is not None
              and fmap['WebClient'].qual == WCLIENT, 'C18-D2', 'wpull.application.builder:Builder',
              "factory classes 'RedirectTracker' -> RedirectTracker, 'WebClient' -> WebClient",
              'the factory no longer maps RedirectTracker/WebClient to the analysed classes')
    cands = [f for f in _prod_funcs(repo) if f.name == '_build_web_client' and f.module.name == 'wpull.application.tasks.download']
    if len(cands) != 1:
        raise AnalysisError('anchor function wpull.application.tasks.download:*._build_web_client not found')
    bw = cands[0]
    defs = U.local_defs(bw.node)
    news = [c for c in U.calls(bw.node, attr='new') if c.args and isinstance(c.args[0], ast.Constant) and c.args[0].value == 'WebClient']
    wparams = [p for p in repo.func(WCLIENT + '.__init__').params if p != 'self']
    if len(news) != 1:
        ck.bad('C18-D2', bw.qual, "factory.new('WebClient', ...)", 'the web client is not built here (rule instance missing)', bw.loc())
    else:
        c = news[0]
        fac = U.kwarg(c, 'redirect_tracker_factory')
        if fac is None and 'redirect_tracker_factory' in wparams:
            i = wparams.index('redirect_tracker_factory') + 1       # after the class name
            fac = c.args[i] if len(c.args) > i else None
        if fac is None:
            ck.bad('C18-D2', bw.qual, 'redirect_tracker_factory=partial(RedirectTracker, max_redirects=args.max_redirect)',
                   'the web client is built without a tracker factory: --max-redirect is ignored (default limit)', bw.loc(c))
        else:
            e = U.expand_locals(bw.node, fac, defs)
            ok, why = _tracker_factory_ok(repo, res, bw, e, maxparam, defs)
            ck.expect(ok, 'C18-D2', bw.qual, 'redirect_tracker_factory=partial(RedirectTracker, %s=args.max_redirect)' % maxparam,
                      'the tracker factory does not pass the configured limit: %s' % why, bw.loc(fac))
    # WebClient keeps the factory and calls it once per session()
    wc = repo.cls(WCLIENT)
    winit = repo.func(WCLIENT + '.__init__')
    wsess = repo.func(WCLIENT + '.session')
    ffield = None
    for n in walk_no_nested(winit.node):
        if isinstance(n, ast.Assign) and isinstance(n.value, ast.Name) and n.value.id == 'redirect_tracker_factory' \
                and len(n.targets) == 1 and U.is_self_attr(n.targets[0]):
            ffield = n.targets[0].attr
    if ffield is None:
        ck.bad('C18-D2', winit.qual, 'self._redirect_tracker_factory = redirect_tracker_factory', 'WebClient does not keep the tracker factory it is given', winit.loc())
        return
    for m, s in _class_stores(repo, wc, ffield):
        ck.expect(m.qual == winit.qual, 'C18-D2', m.qual, norm_text(s), 'the tracker factory is replaced after construction', m.loc(s))
    for f, n in _foreign_stores(repo, ffield, {wc.qual}):
        ck.bad('C18-D2', f.qual, norm_text(n), 'the tracker factory of a web client is replaced from outside', f.loc(n))
    sdefs = U.local_defs(wsess.node)
    ctor = [c for c in U.calls(wsess.node) if dotted(c.func) == 'WebSession']
    sparams = [p for p in repo.func(WSESSION + '.__init__').params if p != 'self']
    rets = [r for r in walk_no_nested(wsess.node) if isinstance(r, ast.Return)]
    okret = len(ctor) == 1 and len(rets) == 1 and rets[0].value is not None and (
        rets[0].value is ctor[0] or norm_text(U.expand_locals(wsess.node, rets[0].value, sdefs)) == norm_text(ctor[0]))
    if len(ctor) != 1:
        ck.bad('C18-D2', wsess.qual, 'WebSession(..., redirect_tracker=self.%s())' % ffield, 'WebClient.session does not construct a WebSession', wsess.loc())
        return
    c = ctor[0]
    arg = U.kwarg(c, 'redirect_tracker')
    if arg is None and 'redirect_tracker' in sparams:
        i = sparams.index('redirect_tracker')
        arg = c.args[i] if len(c.args) > i else None
    e = U.expand_locals(wsess.node, arg, sdefs) if arg is not None else None
    fresh = isinstance(e, ast.Call) and not e.args and not e.keywords and norm_text(e.func) in (
        'self.' + ffield, 'self.redirect_tracker_factory')
    ck.expect(fresh and okret, 'C18-D2', wsess.qual, 'each session() returns WebSession(redirect_tracker=self.%s()) - a fresh tracker' % ffield,
              'WebClient.session does not give the new session a freshly constructed tracker (`%s`): counters would be shared or unlimited'
              % (norm_text(arg) if arg is not None else 'missing'), wsess.loc(c))
    # WebSession keeps exactly that tracker
    ws = repo.cls(WSESSION)
    sinit = repo.func(WSESSION + '.__init__')
    TRK = ctx.c18.get('TRK') or _accessor_field(repo, WSESSION + '.redirect_tracker')
    for m, s in _class_stores(repo, ws, TRK):
        v = _store_value(s)
        ck.expect(m.qual == sinit.qual and isinstance(v, ast.Name) and v.id == 'redirect_tracker', 'C18-D2', m.qual, norm_text(s),
                  'the session\'s tracker is not (only) the one it was constructed with', m.loc(s))
    for f, n in _foreign_stores(repo, TRK, {ws.qual}):
        ck.bad('C18-D2', f.qual, norm_text(n), 'the tracker of a web session is replaced from outside', f.loc(n))
    # the option yields an integer
    m, call = _add_argument(repo, '--max-redirect')
    if call is None:
        ck.bad('C18-D2', 'wpull.application.options:AppArgumentParser', "add_argument('--max-redirect', type=int, default=<int>)",
               'the --max-redirect option is gone')
    else:
        ty, df = U.kwarg(call, 'type'), U.kwarg(call, 'default')
        okopt = ty is not None and norm_text(ty) in ('int', 'self.int_0_inf') and df is not None \
            and isinstance(df, ast.Constant) and isinstance(df.value, int) and not isinstance(df.value, bool) and df.value >= 0
        dest = U.kwarg(call, 'dest')
        okopt = okopt and (dest is None or (isinstance(dest, ast.Constant) and dest.value == 'max_redirect'))
        ck.expect(okopt, 'C18-D2', 'wpull.application.options:AppArgumentParser', "--max-redirect: integer with a non-negative integer default",
                  'the redirect limit option is not a plain integer (`%s`): the limit test compares a count with it' % norm_text(call)[:100],
                  'wpull/application/options.py:%s' % call.lineno)


def _tracker_factory_ok(repo, res, fi, e, maxparam, defs):
    """e: expression handed to WebClient as tracker factory (locals expanded)."""
    def is_tracker_class(x):
        x = U.expand_locals(fi.node, x, defs)
        if isinstance(x, ast.Subscript) and (dotted(x.value) or '').endswith('class_map') and isinstance(x.slice, ast.Constant):
            ci = res.factory_map().get(x.slice.value)
            return ci is not None and ci.qual == TRACKER
        ci = repo.resolve_class_expr(fi.module, x) if dotted(x) else None
        return ci is not None and ci.qual == TRACKER

    def is_limit(x):
        t = norm_text(U.expand_locals(fi.node, x, defs))
        return t.endswith('args.max_redirect') and re.match(r'^[\w.]+$', t) is not None

    call = None
    if isinstance(e, ast.Call) and dotted(e.func) in ('functools.partial', 'partial') and e.args and is_tracker_class(e.args[0]):
        call = ast.Call(func=e.args[0], args=e.args[1:], keywords=e.keywords)
    elif isinstance(e, ast.Lambda) and isinstance(e.body, ast.Call) and is_tracker_class(e.body.func):
        call = e.body
    if call is None:
        return False, '`%s` is not partial(RedirectTracker, ...) / lambda: RedirectTracker(...)' % norm_text(e)[:80]
    params = [p for p in repo.func(TRACKER + '.__init__').params if p != 'self']
    bound = {}
    for i, a in enumerate(call.args):
        if i < len(params):
            bound[params[i]] = a
    for k in call.keywords:
        if k.arg is None:
            return False, '**kwargs in the tracker construction'
        bound[k.arg] = k.value
    if maxparam not in bound:
        return False, '%s is not passed (the default limit is used whatever --max-redirect says)' % maxparam
    if not is_limit(bound[maxparam]):
        return False, '%s=%s is not args.max_redirect' % (maxparam, norm_text(bound[maxparam])[:60])
    return True, ''


# ---------------------------------------------------------------------- D3: one increment per failed visit
def _status_of(e):
    """'error' / other member name for Status.<member>, None when not a constant member."""
    d = dotted(e) if e is not None else None
    if d and (d.startswith('Status.') or '.Status.' in d):
        return d.rsplit('.', 1)[1]
    return None


def _flag_arg(call, pos):
    v = U.kwarg(call, 'increment_try_count')
    if v is None and len(call.args) > pos and not any(isinstance(a, ast.Starred) for a in call.args):
        v = call.args[pos]
    return v


def d3_increment(ctx):
    repo, ck = ctx.repo, ctx.check
    ss = repo.func(SES + ':ItemSession.set_status')
    isess = repo.cls(SES + ':ItemSession')
    wrap = repo.func(WRAP + '.check_in')
    sqlci = repo.func(SQL + '.check_in')
    forwarding = {ss.qual, wrap.qual}

    # -- every site that marks an item as failed -----------------------------------------
    nerr = 0
    for f, c in _calls_named(repo, 'set_status'):
        if not isinstance(c.func, ast.Attribute):
            continue
        st = U.kwarg(c, 'status', 0)
        member = _status_of(st)
        if member is not None and member != 'error':
            continue
        recv = c.func.value
        is_item = (isinstance(recv, ast.Name) and 'session' in recv.id.lower()) or 'item_session' in norm_text(recv) or (
            isinstance(recv, ast.Name) and recv.id == 'self' and f.cls is not None and any(k.qual == isess.qual for k in repo.mro(f.cls)))
        if member is None and not is_item:
            continue        # not an ItemSession (e.g. an HTTP handler's set_status)
        nerr += 1
        fl = _flag_arg(c, 1)
        okf = fl is None or (isinstance(fl, ast.Constant) and fl.value is True)
        ck.expect(okf, 'C18-D3', f.qual, norm_text(c) if not okf else 'set_status(%s) keeps increment_try_count=True' % (
            'Status.error' if member else norm_text(st)),
            'a failed visit is recorded without incrementing the try count: the URL is retried for ever '
            '(the tries limit is never reached)', f.loc(c))
    for f, c in _calls_named(repo, 'check_in'):
        if f.qual in forwarding or not isinstance(c.func, ast.Attribute):
            continue
        st = U.kwarg(c, 'new_status', 1)
        member = _status_of(st)
        if member is not None and member != 'error':
            ck.ok('C18-D3', f.qual, 'check_in(%s): not a retry status' % norm_text(st), nontrivial=False)
            continue
        fl = _flag_arg(c, 2)
        okf = fl is None or (isinstance(fl, ast.Constant) and fl.value is True)
        ck.expect(okf, 'C18-D3', f.qual, norm_text(c)[:120] if not okf else 'check_in(error) keeps increment_try_count=True',
                  'a row is put back as `error` without incrementing its try count', f.loc(c))
    if nerr == 0:
        ck.bad('C18-D3', RULEM + ':ResultRule', 'set_status(Status.error)', 'no site marks a failed visit as error (rule instance missing)')

    # -- ItemSession.set_status: asserts, marks, forwards ---------------------------------
    asserts = [a for a in walk_no_nested(ss.node) if isinstance(a, ast.Assert)]
    FLAG = None
    for a in asserts:
        t, neg = _strip_not(a.test)
        if neg and U.is_self_attr(t):
            FLAG = t.attr
    a_ = ss.node.args
    allp = [x.arg for x in a_.posonlyargs + a_.args]
    dflt = dict(zip(allp[len(allp) - len(a_.defaults):], a_.defaults))
    dflt.update({k.arg: d for k, d in zip(a_.kwonlyargs, a_.kw_defaults) if d is not None})
    cins = U.calls(ss.node, attr='check_in')
    INC = None
    if len(cins) == 1:
        v = _flag_arg(cins[0], 2)
        if isinstance(v, ast.Name) and v.id in dflt:
            INC = v.id
    okdef = INC is not None and isinstance(dflt[INC], ast.Constant) and dflt[INC].value is True \
        and not any(kind != 'param' for _, kind, _ in U.local_defs(ss.node).get(INC, []))
    ck.expect(okdef, 'C18-D3', ss.qual, 'check_in(..., increment_try_count=<parameter defaulting to True>)',
              'set_status does not forward an increment flag that defaults to True to the URL table', ss.loc(cins[0]) if cins else ss.loc())
    if FLAG is None:
        ck.bad('C18-D3', ss.qual, 'assert not self._try_count_incremented', 'set_status no longer asserts that the try count was not '
               'already incremented in this item session (two increments per visit become possible)', ss.loc())
    if okdef:
        it = Interp(repo, ss, rename=False)
        bad = []
        leaves = it.leaves()
        for o in leaves:
            eff = list(o.effects)
            ci = [i for i, e in enumerate(eff) if '.check_in(' in e]
            if o.kind == 'raise':
                continue
            if len(ci) != 1:
                bad.append('[%s]: check_in called %d times' % (fmt_val(o.val), len(ci)))
                continue
            call = ast.parse(eff[ci[0]], mode='eval').body
            stv = U.kwarg(call, 'new_status', 1)
            flv = _flag_arg(call, 2)
            if stv is None or norm_text(stv) != allp[1]:
                bad.append('the status stored is not the one requested')
            if flv is None or norm_text(flv) != INC:
                bad.append('the increment flag is not forwarded')
            if FLAG is not None:
                ai = [i for i, e in enumerate(eff) if e == 'assert not self.%s' % FLAG]
                if not ai or ai[0] > ci[0]:
                    bad.append('[%s]: no assertion before check_in' % fmt_val(o.val))
                marks = [e for e in eff if e.startswith('self.%s = ' % FLAG)]
                want_mark = o.val.get(('T', INC))
                if want_mark is True and marks != ['self.%s = True' % FLAG]:
                    bad.append('[%s]: increment not recorded in %s' % (fmt_val(o.val), FLAG))
                if want_mark is None:
                    bad.append('the flag %s is not tested before recording' % INC)
                if want_mark is False and any(m != 'self.%s = True' % FLAG for m in marks):
                    bad.append('[%s]: %s reset' % (fmt_val(o.val), FLAG))
        ck.expect(not bad and len(leaves) >= 2, 'C18-D3', ss.qual, 'set_status table (%d rows): assert, record the increment, one check_in with the flag' % len(leaves),
                  'set_status differs from the reference: %s' % '; '.join(bad[:3]), ss.loc())
    if FLAG is not None:
        for m, s in _class_stores(repo, isess, FLAG):
            v = _store_value(s)
            okw = isinstance(v, ast.Constant) and ((m.name == '__init__' and v.value is False) or (m.qual == ss.qual and v.value is True))
            ck.expect(okw, 'C18-D3', m.qual, norm_text(s), 'the "try count already incremented" flag is reset/rewritten: a second '
                      'increment in the same visit is no longer caught', m.loc(s))
        for f, n in _foreign_stores(repo, FLAG, {isess.qual}):
            ck.bad('C18-D3', f.qual, norm_text(n), 'the increment flag of an item session is written from outside', f.loc(n))

    # -- the hook wrapper forwards the flag ----------------------------------------------
    fw = [c for c in U.calls(wrap.node, attr='check_in')]
    okw = len(fw) == 1 and 'increment_try_count' in wrap.params
    if okw:
        v = _flag_arg(fw[0], 2)
        stv = U.kwarg(fw[0], 'new_status', 1)
        okw = isinstance(v, ast.Name) and v.id == 'increment_try_count' and stv is not None and norm_text(stv) == wrap.params[2] \
            and not any(kind != 'param' for _, kind, _ in U.local_defs(wrap.node).get('increment_try_count', []))
        rcfg = ctx.cfg(wrap)
        p = F.escapes_without(rcfg, rcfg.entry, lambda n: n.stmt is not None and F.node_expr(n) is not None and fw[0] in U.calls(F.node_expr(n)))
        okw = okw and p is None
    ck.expect(okw, 'C18-D3', wrap.qual, 'forwards (status, increment_try_count) to the wrapped table on every path',
              'the URL table wrapper drops or changes the increment flag', wrap.loc())

    # -- the SQL table adds exactly one iff asked ----------------------------------------
    if 'increment_try_count' not in sqlci.params:
        ck.bad('C18-D3', sqlci.qual, 'check_in(url, new_status, increment_try_count=True, ...)', 'check_in lost its increment flag', sqlci.loc())
    else:
        a_ = sqlci.node.args
        allp = [x.arg for x in a_.posonlyargs + a_.args]
        dflt = dict(zip(allp[len(allp) - len(a_.defaults):], a_.defaults))
        d = dflt.get('increment_try_count')
        ck.expect(isinstance(d, ast.Constant) and d.value is True, 'C18-D3', sqlci.qual, 'increment_try_count defaults to True',
                  'check_in no longer increments by default (skip() and plugin callers rely on it)', sqlci.loc())
        it = Interp(repo, sqlci, rename=False, max_leaves=256)
        leaves = it.leaves()
        bad = []
        rx = re.compile(r'^(?P<d>.+)\[QueuedURL\.try_count\] = (QueuedURL\.try_count \+ 1|1 \+ QueuedURL\.try_count)$')
        for o in leaves:
            tc = [e for e in o.effects if 'try_count' in e]
            inc = o.val.get(('T', 'increment_try_count'))
            if inc is None:
                bad.append('the flag is not tested on [%s]' % fmt_val(o.val))
            elif inc:
                ms = [rx.match(e) for e in tc]
                if len(tc) != 1 or ms[0] is None:
                    bad.append('[%s] -> %s' % (fmt_val(o.val), '; '.join(tc) or 'no increment'))
                elif not any('update(QueuedURL).values(%s)' % ms[0].group('d') in e and 'execute(' in e for e in o.effects):
                    bad.append('the incremented value is not part of the executed UPDATE')
            elif tc:
                bad.append('[%s] -> %s although no increment was asked for' % (fmt_val(o.val), tc[0]))
        ck.expect(not bad and len(leaves) >= 2, 'C18-D3', sqlci.qual, 'check_in table (%d rows): try_count = try_count + 1 iff increment_try_count' % len(leaves),
                  'check_in does not add exactly one to the try count iff asked: %s' % '; '.join(bad[:2]), sqlci.loc())

    # -- nothing else writes the try count -------------------------------------------------
    idx = _index(repo)
    for f, n, k in idx['trykeys']:
        ck.expect(f.qual == sqlci.qual, 'C18-D3', f.qual, 'try_count column written in check_in' if f.qual == sqlci.qual else norm_text(k if isinstance(n, ast.Dict) else n),
                  'the try count column is written outside check_in', f.loc(n))
    for f, n in idx['stores'].get('try_count', []):
        fdefs = U.local_defs(f.node)
        recv = n.value
        plain = isinstance(recv, ast.Name) and recv.id != 'self' and recv.id in fdefs and all(
            isinstance(v, ast.Call) and (dotted(v.func) or '').endswith('URLRecord') for v, k, s in fdefs[recv.id])
        own = isinstance(recv, ast.Name) and recv.id == 'self' and f.cls is not None and f.cls.name in ('URLRecord', 'URLProperties')
        ck.expect(plain or own, 'C18-D3', f.qual, 'plain record: %s' % norm_text(n) if (plain or own) else norm_text(n),
                  'try_count is assigned on an object that may be a database row (resets the retry counter)', f.loc(n))
    for name in ('update_one', 'update_record_value'):
        for f, n in _calls_named(repo, name):
            kws = [k.arg for k in n.keywords]
            star = [k for k in n.keywords if k.arg is None]
            own_fwd = bool(star) and f.name in ('update_one', 'update_record_value') and all(
                isinstance(k.value, ast.Name) and k.value.id == (f.node.args.kwarg.arg if f.node.args.kwarg else None) for k in star)
            okk = not ({'try_count', 'status'} & set(kws)) and (not star or own_fwd)
            ck.expect(okk, 'C18-D3', f.qual, 'update without try_count/status: %s' % norm_text(n)[:60] if okk else norm_text(n)[:100],
                      'the try count or the status of a row is rewritten through update_one', f.loc(n))

    # -- a row keeps its count when its URL is found again ----------------------------------
    from . import c14 as _c14
    from .common import RemapCtx as _RemapCtx
    _c14.d1_inserts(_RemapCtx(ctx, {'C14-D1': 'C18-D3'}))
    acu = repo.func(SES + ':ItemSession.add_child_url')
    for f, c in _calls_named(repo, 'remove_many') + _calls_named(repo, 'remove_one'):
        fwd = f.name in ('remove_many', 'remove_one') and f.module.name.startswith('wpull.database')
        guarded = False
        if f.qual == acu.qual:
            pm = U.parents(f.node)
            guarded = any(isinstance(a, ast.If) and norm_text(a.test) == 'replace' and any(c is x for b in a.body for x in ast.walk(b))
                          for a in U.ancestors(c, pm))
        ck.expect(fwd or guarded, 'C18-D3', f.qual, 'rows removed only on an explicit replace request' if (fwd or guarded) else norm_text(c)[:100],
                  'queue rows are deleted (and later re-added with try count 0) outside the explicit replace request', f.loc(c))
    a_ = acu.node.args
    allp = [x.arg for x in a_.posonlyargs + a_.args]
    dflt = dict(zip(allp[len(allp) - len(a_.defaults):], a_.defaults))
    okd = 'replace' in dflt and isinstance(dflt['replace'], ast.Constant) and dflt['replace'].value is False
    ck.expect(okd, 'C18-D3', acu.qual, 'add_child_url(replace=False) by default', 'add_child_url replaces existing rows by default', acu.loc())
    for f, c in _calls_named(repo, 'add_child_url'):
        v = U.kwarg(c, 'replace', allp.index('replace') - 1 if 'replace' in allp else None)
        okr = v is None or (isinstance(v, ast.Constant) and not v.value)
        ck.expect(okr, 'C18-D3', f.qual, 'child URL added without replace' if okr else norm_text(c)[:100],
                  'discovered links replace their existing rows: a failing URL that is linked again starts with try count 0', f.loc(c))


# ---------------------------------------------------------------------- D4: the retry gate
def _guarded_by_verdict(cfg, fn, targets, is_verdict_src, defs):
    """Some `if` on a local defined by is_verdict_src(value, kind) whose FALSE-verdict edge cannot reach a target and which
    lies on every path from ENTRY to each target.  Returns (ok, guard node, path)."""
    for g in cfg.stmt_nodes():
        if g.kind != 'if':
            continue

        def is_v(e):
            if not isinstance(e, ast.Name):
                return False
            ds = defs.get(e.id, [])
            return bool(ds) and all(v is not None and is_verdict_src(v, k) for v, k, s in ds)
        edge = _truth_edge(fn, g.stmt.test, is_v, {})
        if edge is None:
            continue
        bypass = [cfg.find_path(cfg.entry, lambda m, t=t: m is t, edge_ok=lambda a, b, k: True, stop=lambda m: m is g) for t in targets]
        leak = [cfg.find_path(g, lambda m, t=t: m is t, edge_ok=F.normal, first_edges=lambda a, b, k: k == _other(edge)) for t in targets]
        if all(b is None for b in bypass) and all(x is None for x in leak):
            return True, g, None
    return False, None, None


def _skips_on_false(cfg, fn, g, defs, is_v):
    """On the false-verdict edge of guard g every normal path calls <item session>.skip() and leaves without falling through."""
    edge = _truth_edge(fn, g.stmt.test, is_v, {})
    p = cfg.find_path(g, lambda m: m is cfg.exit, edge_ok=F.normal, first_edges=lambda a, b, k: k == _other(edge),
                      stop=lambda m: m.stmt is not None and F.node_expr(m) is not None and bool(F.node_calls(m, 'skip')))
    return p


def d4_gate(ctx):
    repo, ck, res = ctx.repo, ctx.check, ctx.res
    # -- TriesFilter decision table ----------------------------------------------------
    tf = repo.func(UF + ':TriesFilter.test')
    it = Interp(repo, tf)
    lim = None
    tfi = repo.func(UF + ':TriesFilter.__init__')
    for fld, c in it.canon.field_map.items():
        if c == 'C0':
            lim = fld
    if lim is None or len([p for p in tfi.params if p != 'self']) != 1:
        ck.bad('C18-D4', tfi.qual, 'self._tries = max_tries', 'TriesFilter does not keep the limit it is constructed with', tfi.loc())
    else:
        ref = lambda v: (not v.T('C0')) or v.lt('P1.try_count', 'C0')
        rows, mism, atoms, refonly = compare(it, ref, _truthy_obs)
        ck.expect(not mism, 'C18-D4', tf.qual, 'accept <=> limit unset or try_count < limit (%d rows, %d atoms)' % (rows, len(atoms)),
                  'the retry gate differs from "limit unset or try_count < limit": [%s] -> code %s, reference %s' % (
                      fmt_val(mism[0][0]) if mism else '', mism[0][1] if mism else '', mism[0][2] if mism else ''), tf.loc())
        for m, s in _class_stores(repo, repo.cls(UF + ':TriesFilter'), lim):
            ck.expect(m.qual == tfi.qual, 'C18-D4', m.qual, norm_text(s), 'the tries limit is rewritten after construction', m.loc(s))
    # -- constructed iff args.tries, with args.tries, into the list that is used ------
    bf = repo.func('wpull.application.tasks.rule:URLFiltersSetupTask._build_url_filters')
    d = U.local_defs(bf.node)
    bit = Interp(repo, bf, rename=False)
    sites = [c for c in U.calls(bf.node) if dotted(c.func) == 'TriesFilter']
    if len(sites) != 1:
        ck.bad('C18-D4', bf.qual, 'if args.tries: filters.append(TriesFilter(args.tries))', 'TriesFilter is constructed %d times in the filter '
               'set-up: --tries is not enforced' % len(sites), bf.loc())
    else:
        c = sites[0]
        pm = U.parents(bf.node)
        arg = U.kwarg(c, [p for p in tfi.params if p != 'self'][0], 0) if len(tfi.params) > 1 else None
        argt = norm_text(U.expand_locals(bf.node, arg, d)) if arg is not None else ''
        okarg = argt.endswith('args.tries') and re.match(r'^[\w.]+$', argt) is not None and len(c.args) + len(c.keywords) == 1
        conds = []
        app = None
        child = c
        for a in U.ancestors(c, pm):
            if isinstance(a, ast.Call) and U.attr_name(a) in ('append', 'insert', 'extend') and app is None:
                app = a
            if isinstance(a, ast.If):
                in_body = any(child is s or any(child is x for x in ast.walk(s)) for s in a.body)
                conds.append((a.test, in_body))
            if isinstance(a, (ast.List, ast.Tuple)) and app is None:
                app = a
            if isinstance(a, ast.IfExp):
                conds.append((a.test, any(c is x for x in ast.walk(a.body))))
            child = a
        okcond = len(conds) == 1 and conds[0][1] and _same_bool(bit, U.expand_locals(bf.node, conds[0][0], d),
                                                                 norm_text(U.expand_locals(bf.node, arg, d)) if arg is not None else 'False')
        rets = [r for r in walk_no_nested(bf.node) if isinstance(r, ast.Return)]
        oklist = False
        if app is not None and len(rets) == 1 and isinstance(rets[0].value, ast.Name):
            if isinstance(app, ast.Call):
                oklist = norm_text(app.func.value) == rets[0].value.id
            else:
                oklist = any(v is app for v, k, s in d.get(rets[0].value.id, []))
        ck.expect(okarg and okcond and oklist, 'C18-D4', bf.qual, 'TriesFilter(args.tries) appended to the returned filter list iff args.tries',
                  'the tries limit is not wired: argument `%s`, condition(s) `%s`, %s' % (
                      argt, '; '.join(norm_text(t) for t, _ in conds), 'in the returned list' if oklist else 'not in the returned list'), bf.loc(c))
    m, call = _add_argument(repo, '--tries')
    if call is None:
        ck.bad('C18-D4', 'wpull.application.options:AppArgumentParser', "add_argument('--tries', ...)", 'the --tries option is gone')
    else:
        ty, df = U.kwarg(call, 'type'), U.kwarg(call, 'default')
        okopt = ty is not None and norm_text(ty) in ('int', 'self.int_0_inf') and isinstance(df, ast.Constant) and isinstance(df.value, int) \
            and not isinstance(df.value, bool) and df.value >= 0
        ck.expect(okopt, 'C18-D4', 'wpull.application.options:AppArgumentParser', '--tries: integer (0 = unlimited) with an integer default',
                  'the tries option is not a plain integer: `%s`' % norm_text(call)[:100], 'wpull/application/options.py:%s' % call.lineno)
    # -- the filter list is consulted completely ------------------------------------------
    ti = repo.func(UF + ':DemuxURLFilter.test_info')
    loops = [n for n in walk_no_nested(ti.node) if isinstance(n, (ast.For, ast.While))]
    okl = len(loops) == 1 and isinstance(loops[0], ast.For) and norm_text(loops[0].iter) in ('self._url_filters', 'self.url_filters') \
        and not any(isinstance(x, (ast.Break, ast.Continue, ast.Return)) for b in loops[0].body for x in ast.walk(b)) and not loops[0].orelse
    if okl:
        lp = loops[0]
        tgt = norm_text(lp.target)
        ld = U.local_defs(ti.node)
        tests = [c for b in lp.body for c in U.calls(b, attr='test') if norm_text(c.func.value) == tgt
                 and [norm_text(a) for a in c.args] == ti.params[1:3]]
        okl = len(tests) == 1
        # a falsy result is recorded as failed; verdict <=> nothing failed
        rets = [r for r in walk_no_nested(ti.node) if isinstance(r, ast.Return)]
        info = rets[0].value if len(rets) == 1 else None
        if isinstance(info, ast.Name) and len(ld.get(info.id, [])) == 1:
            info = ld[info.id][0][0]
        verdict = None
        if isinstance(info, ast.Dict):
            for k, v in zip(info.keys, info.values):
                if isinstance(k, ast.Constant) and k.value == 'verdict':
                    verdict = v
        failed = None
        if verdict is not None:
            vt = norm_text(verdict)
            mm = re.match(r'^(?:len\((\w+)\) == 0|0 == len\((\w+)\)|not (\w+)|not len\((\w+)\)|len\((\w+)\) < 1|1 > len\((\w+)\)|len\((\w+)\) <= 0|0 >= len\((\w+)\))$', vt)
            failed = next((g for g in (mm.groups() if mm else ()) if g), None)
        okf = False
        if failed is not None and okl:
            resn = [nm for nm, ds in ld.items() if any(v is tests[0] or (v is not None and tests[0] in U.calls(v)) for v, k, s in ds)]
            for i in walk_no_nested(lp):
                if isinstance(i, ast.If) and resn:
                    e = _truth_edge(ti.node, i.test, lambda x: isinstance(x, ast.Name) and x.id in resn, {})
                    if e is not None:
                        neg_body = i.orelse if e == 'T' else i.body
                        okf = any(U.attr_name(c) == 'add' and norm_text(c.func.value) == failed and [norm_text(a) for a in c.args] == [tgt]
                                  for b in neg_body for c in U.calls(b))
        okl = okl and okf
    ck.expect(okl, 'C18-D4', ti.qual, 'every filter is asked; a falsy answer makes the verdict false',
              'DemuxURLFilter.test_info can skip a filter or ignore a falsy answer (the tries gate may not count)', ti.loc())
    # -- FetchRule: the verdict comes from the filters, on the item's own record -----------
    cf = repo.func(RULEM + ':FetchRule.consult_filters')
    cit = Interp(repo, cf, rename=False)
    bad = []
    leaves = cit.leaves()
    nofilter = 0
    for o in leaves:
        if o.kind != 'return' or not isinstance(o.value, ast.Tuple) or not o.value.elts:
            bad.append('[%s] -> %s' % (fmt_val(o.val), o.kind))
            continue
        v0 = o.value.elts[0]
        fv = [(k, v) for k, v in o.val.items() if k[0] == 'T' and k[1].endswith("['verdict']")]
        has_filter = o.val.get(('T', 'self._url_filter'))
        if has_filter is False:
            nofilter += 1
            continue
        if not fv or not re.search(r"\.test_info\(%s, %s\)\['verdict'\]$" % (cf.params[1], cf.params[2]), fv[0][0][1]):
            bad.append('[%s]: the filters\' verdict is not examined' % fmt_val(o.val))
            continue
        if fv[0][1] is False:
            try:
                tv = cit.truth(v0, o.val)
            except _Need:
                tv = None
            waiver = o.val.get(('T', cf.params[3])) is True and any(
                k[0] == 'T' and k[1].startswith('self.is_only_span_hosts_failed(') and v is True for k, v in o.val.items())
            if tv is not False and not waiver:
                bad.append('[%s] -> verdict %s' % (fmt_val(o.val), norm_text(v0)))
    ck.expect(not bad and len(leaves) >= 3, 'C18-D4', cf.qual, 'consult_filters table (%d rows): a false filter verdict stays false except for the span-hosts redirect waiver' % len(leaves),
              'a false verdict of the filters (tries limit reached) can be turned into "fetch": %s' % '; '.join(bad[:2]), cf.loc())
    for name in ('check_initial_web_request', 'check_generic_request'):
        f = repo.func(RULEM + ':FetchRule.' + name)
        fd = U.local_defs(f.node)
        cs = [c for c in U.calls(f.node, attr='consult_filters') if isinstance(c.func.value, ast.Name) and c.func.value.id == 'self']
        isn = f.params[1]
        okc = len(cs) == 1 and len(cs[0].args) >= 2 and norm_text(cs[0].args[1]) == '%s.url_record' % isn
        rets = [r for r in walk_no_nested(f.node) if isinstance(r, ast.Return)]
        # the verdict returned derives from consult_filters (possibly lowered by robots, passed through the hook)
        okv = okc and all(r.value is not None and U.derives_from(f.node, r.value, lambda x: x is cs[0], fd) for r in rets) and bool(rets)
        forced = [s for s in walk_no_nested(f.node) if isinstance(s, ast.Assign) and isinstance(s.value, ast.Constant) and s.value.value is True
                  and any(isinstance(t, ast.Name) and t.id == 'verdict' for t in s.targets)]
        ck.expect(okc and okv and not forced, 'C18-D4', f.qual, 'verdict = consult_filters(<request url>, item_session.url_record)',
                  'the request verdict is not the filters\' verdict for the checked-out record (its try_count)', f.loc())
    fr = repo.cls(RULEM + ':FetchRule')
    alias = fr.class_assigns.get('check_ftp_request')
    ck.expect(alias is not None and norm_text(alias) == 'check_generic_request' or 'check_ftp_request' in fr.methods, 'C18-D4', fr.qual,
              'check_ftp_request is check_generic_request', 'check_ftp_request is gone', fr.qual)
    # -- error rows re-enter only through the item source ----------------------------------
    gi = repo.func(SES + ':URLItemSource.get_item')
    for f, c in _calls_named(repo, 'check_out'):
        okc = f.qual in (gi.qual, WRAP + '.check_out')
        ck.expect(okc, 'C18-D4', f.qual, 'check_out by the item source / its wrapper' if okc else norm_text(c)[:100],
                  'rows are checked out outside URLItemSource.get_item: they bypass the per-item accounting', f.loc(c))
    git = Interp(repo, gi, rename=False)
    bad = []
    leaves = git.leaves()
    statuses = set()
    for o in leaves:
        rs = {k[1]: v for k, v in o.val.items() if k[0] == 'raises'}
        for k in rs:
            mm = re.search(r'\.check_out\(([\w.]+)\)', k)
            statuses.add(mm.group(1) if mm else k)
        if o.kind == 'return' and isinstance(o.value, ast.Call) and dotted(o.value.func) == 'ItemSession':
            src = norm_text(o.value.args[1]) if len(o.value.args) > 1 else norm_text(U.kwarg(o.value, 'url_record') or ast.Constant(value=None))
            taken = [k for k, v in rs.items() if v == 'no']
            if not taken or not re.search(r"\.check_out\((Status\.todo|Status\.error)\)$", src) or src not in ' '.join(taken):
                bad.append('the item is not the row just checked out (%s)' % src[:60])
        elif o.kind == 'return' and (o.value is None or _is_none(o.value)) or o.kind == 'fall':
            if any(v == 'no' for v in rs.values()):
                bad.append('a checked-out row is dropped')
        else:
            bad.append('[%s] -> %s' % (fmt_val(o.val), o.kind))
    okst = statuses == {'Status.todo', 'Status.error'}
    ck.expect(not bad and okst and len(leaves) >= 3, 'C18-D4', gi.qual, 'get_item table (%d rows): a fresh ItemSession around the row checked out as todo or error' % len(leaves),
              'the item source differs from the reference: %s' % ('; '.join(bad[:2]) or 'statuses checked out: %s' % sorted(statuses)), gi.loc())
    tp = repo.func('wpull.database.sqlmodel:QueuedURL.to_plain')
    okp = any(isinstance(s, ast.Assign) and len(s.targets) == 1 and isinstance(s.targets[0], ast.Attribute) and s.targets[0].attr == 'try_count'
              and norm_text(s.value) == 'self.try_count' for s in walk_no_nested(tp.node))
    ck.expect(okp, 'C18-D4', tp.qual, 'record.try_count = self.try_count', 'the checked-out record does not carry the stored try count: the gate compares something else', tp.loc())
    co = repo.func(SQL + '.check_out')
    okco = any(isinstance(r, ast.Return) and r.value is not None and norm_text(r.value).endswith('.to_plain()') for r in walk_no_nested(co.node))
    ck.expect(okco, 'C18-D4', co.qual, 'check_out returns row.to_plain()', 'check_out does not return the plain copy of the row', co.loc())
    sk = repo.func(SES + ':ItemSession.skip')
    skc = [c for c in U.calls(sk.node, attr='check_in')]
    ck.expect(len(skc) == 1 and _status_of(U.kwarg(skc[0], 'new_status', 1)) == 'skipped', 'C18-D4', sk.qual, 'skip() stores Status.skipped (never checked out again)',
              'skip() does not park the row as skipped: a rejected row may be offered again', sk.loc())
    # -- both processors ask before the first request -----------------------------------------
    _web_gate(ctx)
    _ftp_gate(ctx)


def _web_gate(ctx):
    repo, ck = ctx.repo, ctx.check
    pp = repo.func(PROC + '.process')
    pcfg = ctx.cfg(pp)
    d = U.local_defs(pp.node)
    targets = [n for n in pcfg.stmt_nodes() if n.stmt is not None and F.node_expr(n) is not None and (
        F.node_calls(n, '_process_loop') or F.node_calls(n, 'session'))]
    ok, g, _ = _guarded_by_verdict(pcfg, pp.node, targets, lambda v, k: k == 'assign' and any(
        U.attr_name(c) == '_process_robots' for c in U.calls(v)), d)
    ck.expect(ok and bool(targets), 'C18-D4', pp.qual, 'the web session is created and run only after _process_robots() said yes',
              'WebProcessorSession.process can start fetching without the initial filter verdict', pp.loc())
    pr = repo.func(PROC + '._process_robots')
    rcfg = ctx.cfg(pr)
    rd = U.local_defs(pr.node)
    src = lambda v, k: k == 'tuple:0' and any(U.attr_name(c) == '_should_fetch_reason_with_robots' for c in U.calls(v))
    ret_true = [n for n in rcfg.stmt_nodes() if n.kind == 'return' and not (isinstance(n.stmt.value, ast.Constant) and not n.stmt.value.value)
                and n.stmt.value is not None]
    ok, g, _ = _guarded_by_verdict(rcfg, pr.node, ret_true, src, rd)
    p = None
    if ok:
        def is_v(e):
            return isinstance(e, ast.Name) and bool(rd.get(e.id)) and all(v is not None and src(v, k) for v, k, s in rd[e.id])
        p = _skips_on_false(rcfg, pr.node, g, rd, is_v)
    ck.expect(ok and bool(ret_true) and p is None, 'C18-D4', pr.qual, 'truthy result only after a true verdict; a false verdict skips the item',
              '_process_robots can say "go ahead" without a true verdict, or leaves a rejected item un-skipped', pr.loc(),
              path=describe_path(p) if p else None)
    sr = repo.func(PROC + '._should_fetch_reason_with_robots')
    cs = [c for c in U.calls(sr.node, attr='check_initial_web_request')]
    okc = len(cs) == 1 and cs[0].args and norm_text(cs[0].args[0]) == 'self._item_session' and norm_text(cs[0].func.value) == 'self._fetch_rule'
    rets = [r for r in walk_no_nested(sr.node) if isinstance(r, ast.Return)]
    okc = okc and bool(rets) and all(r.value is not None and U.derives_from(sr.node, r.value, lambda x: x is cs[0]) for r in rets)
    ck.expect(okc, 'C18-D4', sr.qual, 'verdict = fetch_rule.check_initial_web_request(item session, request)',
              'the initial verdict is not the fetch rule\'s verdict for this item session', sr.loc())
    wi = repo.func(PROC + '.__init__')
    oki = any(isinstance(s, ast.Assign) and any(U.is_self_attr(t, '_item_session') for t in s.targets) and norm_text(s.value) == wi.params[2]
              for s in walk_no_nested(wi.node)) and any(
        isinstance(s, ast.Assign) and any(U.is_self_attr(t, '_fetch_rule') for t in s.targets) and "factory['FetchRule']" in norm_text(s.value)
        for s in walk_no_nested(wi.node))
    ck.expect(oki, 'C18-D4', wi.qual, "the item session judged is the one being processed; the rule is factory['FetchRule']",
              'the processor session judges another item session or uses another fetch rule', wi.loc())


def _ftp_gate(ctx):
    repo, ck = ctx.repo, ctx.check
    fp = repo.func(FTPS + '.process')
    cfg = ctx.cfg(fp)
    d = U.local_defs(fp.node)
    targets = [n for n in cfg.stmt_nodes() if n.stmt is not None and F.node_expr(n) is not None and (
        F.node_calls(n, '_fetch') or F.node_calls(n, '_prepare_request_file_vs_dir'))]

    def src(v, k):
        cs = [c for c in U.calls(v) if U.attr_name(c) in ('check_ftp_request', 'check_generic_request')]
        if len(cs) != 1 or not cs[0].args or norm_text(cs[0].args[0]) != 'self._item_session':
            return False
        return (k == 'assign' and isinstance(v, ast.Subscript) and isinstance(v.slice, ast.Constant) and v.slice.value == 0) or k == 'tuple:0'
    ok, g, _ = _guarded_by_verdict(cfg, fp.node, targets, src, d)
    p = None
    if ok:
        def is_v(e):
            return isinstance(e, ast.Name) and bool(d.get(e.id)) and all(v is not None and src(v, k) for v, k, s in d[e.id])
        p = _skips_on_false(cfg, fp.node, g, d, is_v)
    ck.expect(ok and bool(targets) and p is None, 'C18-D4', fp.qual, 'FTP fetch only after a true check_ftp_request verdict; a false verdict skips the item',
              'the FTP processor can contact the server without a true filter verdict (tries limit not consulted), or leaves a rejected item un-skipped',
              fp.loc(), path=describe_path(p) if p else None)
    # ... and robots.txt, the one request made before the verdict is acted on, is asked for only when the filters (retry limit
    # included) accepted the item: a failing robots.txt fetch checks the item in as error again, whatever its try count
    from .common import robots_after_verdict_rule
    robots_after_verdict_rule(ctx, 'C18-D4')
