"""C03 - a killed crawl resumes from its database without loss or refetch.

Transaction shape, durability pragmas, release-before-use at start-up, and the
ordering of durable effects: discovered links are committed before their page is
checked in (DESIGN.md section 3, C03-D1..D6).  SQLite's own guarantees and the
behaviour at each kill instant are not decided.
"""
import ast
import os

from ..index import dotted, walk_no_nested, norm_text, AnalysisError
from ..cfg import describe_path
from .. import util as U
from .. import flow as F
from .common import pipeline_tasks, pipeline_sources, effect_closure

SQL = 'wpull.database.sqltable'
SES = 'wpull.pipeline.session:ItemSession'


def run(ctx):
    repo, ck, res = ctx.repo, ctx.check, ctx.res
    ck.assume('SQLite in WAL mode with synchronous=NORMAL keeps committed transactions across a process kill')
    ck.assume('decides transaction shape and the order of durable effects on every path, not the state after each kill instant')
    ck.rule('C03-D1', 'every table operation touches the database inside one `with self._session()` block; the session '
                      'manager commits on the normal edge, rolls back and re-raises on the exception edge, closes on both')
    ck.rule('C03-D2', 'the SQLite connection callback sets journal_mode=WAL and synchronous=NORMAL|FULL and is registered '
                      'before the schema is created')
    ck.rule('C03-D3', 'in-progress rows are released at start-up on every path of DatabaseSetupTask, which precedes the '
                      'URL import and the download pipeline; release rewrites only in-progress rows')
    ck.rule('C03-D4', 'start URLs reach the table only through add_many (INSERT OR IGNORE), so existing rows keep their state')
    ck.rule('C03-D5', 'effect ordering: the transaction that inserts an item\'s discovered links precedes the transaction '
                      'that checks the item in (flush inside set_status/skip before check_in; no link is queued after a check-in)')
    ck.rule('C03-D6', 'a final status without a script hook is stored only after the body was downloaded without error '
                      '(the status-setting handlers are reached from the else-branch of the download try)')

    # ------------------------------------------------------------------ D1
    base = repo.cls(SQL + ':BaseSQLURLTable')
    sm = repo.func(base.qual + '._session')
    ok = 'contextlib.contextmanager' in sm.decorators
    trys = [n for n in walk_no_nested(sm.node) if isinstance(n, ast.Try)]
    if ok and len(trys) == 1:
        t = trys[0]
        bnd = {}
        ok = len(t.body) == 2 and U.like(t.body[0], 'yield L_s', bnd) and U.like(t.body[1], 'L_s.commit()', bnd)
        hs = t.handlers
        ok = ok and len(hs) == 1 and (hs[0].type is None or norm_text(hs[0].type) in ('BaseException', 'Exception')) \
            and len(hs[0].body) == 2 and U.like(hs[0].body[0], 'L_s.rollback()', bnd) and isinstance(hs[0].body[1], ast.Raise) \
            and hs[0].body[1].exc is None
        ok = ok and len(t.finalbody) == 1 and U.like(t.finalbody[0], 'L_s.close()', bnd)
        sdef = U.local_defs(sm.node).get(bnd.get('L_s', ''), [])
        ok = ok and len(sdef) == 1 and norm_text(sdef[0][0]) == 'self._session_maker()'
    else:
        ok = False
    ck.expect(ok, 'C03-D1', sm.qual, 'yield -> commit | rollback + re-raise | close on both',
              'the transaction scope no longer commits on success / rolls back and re-raises on error / always closes', sm.loc())
    n_ops = 0
    for m in base.methods.values():
        if m.name.startswith('_session'):
            continue
        withs = [w for w in walk_no_nested(m.node) if isinstance(w, ast.With)
                 and any(norm_text(i.context_expr) == 'self._session()' for i in w.items)]
        snames = {it.optional_vars.id for w in withs for it in w.items if isinstance(it.optional_vars, ast.Name)} | {'session'}
        uses = [n for n in walk_no_nested(m.node) if isinstance(n, ast.Name) and n.id in snames and isinstance(n.ctx, ast.Load)]
        if not withs and not uses:
            continue
        n_ops += 1
        okm = len(withs) == 1
        if okm:
            inside = {id(x) for x in ast.walk(withs[0])}
            okm = all(id(u) in inside for u in uses)
            nested = [w for w in ast.walk(withs[0]) if w is not withs[0] and isinstance(w, ast.With)
                      and any(norm_text(i.context_expr) == 'self._session()' for i in w.items)]
            okm = okm and not nested
            susp = [y for y in ast.walk(withs[0]) if isinstance(y, (ast.YieldFrom, ast.Await))]
            okm = okm and not susp
        ck.expect(okm, 'C03-D1', m.qual, 'one `with self._session()` around every use of the session',
                  '%s uses the database outside a single transaction scope (%d scopes)' % (m.name, len(withs)), m.loc())
    if n_ops < 10:
        ck.bad('C03-D1', base.qual, 'table operations', 'only %d table operations found (expected >= 10)' % n_ops)
    # `commit` ends a transaction only if one was begun: nothing in the database layer switches the driver or the engine to
    # autocommit (pysqlite `isolation_level = None` without a BEGIN of one's own, SQLAlchemy AUTOCOMMIT): every statement of an
    # operation would then be durable on its own and a kill between two of them leaves half an operation behind
    auto = []
    for m2 in repo.modules.values():
        if not m2.name.startswith('wpull.database') or m2.name.endswith('_test'):
            continue
        for x in ast.walk(m2.tree):
            if isinstance(x, ast.Assign) and any(isinstance(t, ast.Attribute) and t.attr in ('isolation_level', 'autocommit') for t in x.targets):
                v = x.value
                if not (isinstance(v, ast.Constant) and v.value in ('DEFERRED', 'IMMEDIATE', 'EXCLUSIVE', False)):
                    auto.append((m2, x))
            if isinstance(x, ast.Call):
                for k in x.keywords:
                    if (k.arg == 'isolation_level' and isinstance(k.value, ast.Constant) and (k.value.value is None or str(k.value.value).upper() == 'AUTOCOMMIT')) \
                            or (k.arg == 'autocommit' and isinstance(k.value, ast.Constant) and k.value.value is True):
                        auto.append((m2, x))
    for m2, x in auto:
        ck.bad('C03-D1', m2.name, 'no autocommit in the database layer', '`%s` puts the connection into autocommit: the statements of one table '
               'operation are no longer one transaction' % norm_text(x)[:60], '%s:%d' % (os.path.relpath(m2.path, repo.root), x.lineno))
    if not auto:
        ck.ok('C03-D1', 'wpull.database', 'no autocommit in the database layer')
    # ... and an operation that has its own scope does not hand part of its work to a helper with another one (two commits:
    # a kill between them leaves half of the operation behind)
    def opens(m):
        return any(isinstance(w, ast.With) and any(norm_text(i.context_expr) == 'self._session()' for i in w.items) for w in walk_no_nested(m.node))
    opening = {m.name for m in base.methods.values() if opens(m) and not m.name.startswith('_session')}
    changed = True
    while changed:
        changed = False
        for m in base.methods.values():
            if m.name not in opening and not m.name.startswith('_session') and any(
                    U.is_self_attr(c.func) and c.func.attr in opening for c in U.calls(m.node) if isinstance(c.func, ast.Attribute)):
                opening.add(m.name)
                changed = True
    for m in base.methods.values():
        if not opens(m) or m.name.startswith('_session'):
            continue
        for c in U.calls(m.node):
            if isinstance(c.func, ast.Attribute) and U.is_self_attr(c.func) and c.func.attr in opening and c.func.attr != m.name:
                ck.bad('C03-D1', m.qual, 'self.%s(...) from an operation with its own transaction scope' % c.func.attr,
                       '%s commits in its own scope and also calls %s, which opens another: the operation is two transactions' % (m.name, c.func.attr), m.loc(c))

    # ------------------------------------------------------------------ D2
    lite = repo.cls(SQL + ':SQLiteURLTable')
    pc = repo.func(lite.qual + '._apply_pragmas_callback')
    prag = []
    for c in U.calls(pc.node, attr='execute'):
        if c.args and isinstance(c.args[0], ast.Constant) and isinstance(c.args[0].value, str):
            prag.append(c.args[0].value.strip().lower().replace(' ', ''))
    okp = 'pragmajournal_mode=wal' in prag and any(p in ('pragmasynchronous=normal', 'pragmasynchronous=full', 'pragmasynchronous=extra') for p in prag)
    bad_prag = [p for p in prag if p.startswith('pragmasynchronous=') and p.split('=')[1] in ('off', '0')]
    ck.expect(okp and not bad_prag, 'C03-D2', pc.qual, 'PRAGMA journal_mode=WAL; PRAGMA synchronous=NORMAL|FULL',
              'durability pragmas changed: %s' % prag, pc.loc())
    init = repo.func(lite.qual + '.__init__')
    cfg = ctx.cfg(init)
    listen = F.stmt_nodes_where(cfg, lambda n: any((dotted(c.func) or '').endswith('event.listen') and len(c.args) >= 3
                                                   and isinstance(c.args[1], ast.Constant) and c.args[1].value == 'connect'
                                                   and norm_text(c.args[2]) == 'self._apply_pragmas_callback' for c in F.node_calls(n)))
    create = F.stmt_nodes_where(cfg, F.has_call('create_all'))
    dom = cfg.dominators()
    okl = len(listen) == 1 and len(create) >= 1 and all(listen[0].id in dom[c.id] for c in create)
    ck.expect(okl, 'C03-D2', init.qual, 'pragma callback registered for "connect" before create_all',
              'the pragma callback is not registered before the first connection is made', init.loc())
    tbl = repo.module(SQL).assigns.get('URLTable')
    ck.expect(tbl is not None and norm_text(tbl) == 'SQLiteURLTable', 'C03-D2', SQL + ':URLTable', 'default table implementation is the SQLite one',
              'default URL table implementation changed', 'wpull/database/sqltable.py')

    # ------------------------------------------------------------------ D3
    d3_release_at_startup(ctx)
    order = pipeline_tasks(repo)
    flat = [t for _, ts in order for t in ts]
    try:
        oko = flat.index('DatabaseSetupTask') < flat.index('InputURLTask') < flat.index('ProcessTask')
    except ValueError:
        oko = False
    ck.expect(oko, 'C03-D3', 'wpull.application.builder:Builder._build_pipelines', 'DatabaseSetupTask < InputURLTask < ProcessTask',
              'task order changed: %s' % flat)
    srcs = pipeline_sources(repo)
    okd = any('URLItemSource(' in s for s in srcs.values())
    ck.expect(okd, 'C03-D3', 'wpull.application.builder:Builder._build_pipelines', 'download pipeline fed by URLItemSource',
              'download pipeline source changed: %s' % srcs)
    from . import c14
    from .common import RemapCtx
    c14.d2_release(RemapCtx(ctx, {'C14-D2': 'C03-D3'}))
    # what the item source is told about todo / error rows comes from the table, not from the hook wrapper's own counters
    c14.d4_wrapper(RemapCtx(ctx, {'C14-D4': 'C03-D3'}))

    # ------------------------------------------------------------------ D4
    it = repo.func('wpull.application.tasks.database:InputURLTask.process')
    tcalls = [c for c in U.calls(it.node) if isinstance(c.func, ast.Attribute) and norm_text(U.expand_locals(it.node, c.func.value)) == "session.factory['URLTable']"]
    names = sorted({U.attr_name(c) for c in tcalls})
    ck.expect(names == ['add_many'], 'C03-D4', it.qual, 'start URLs stored only through add_many',
              'InputURLTask touches the table through %s: existing rows can lose their status' % names, it.loc())

    # ------------------------------------------------------------------ D5
    ses = repo.cls(SES)
    for name in ('set_status', 'skip'):
        f = repo.func(SES + '.' + name)
        fcfg = ctx.cfg(f)
        checkins = F.stmt_nodes_where(fcfg, F.has_call('check_in'))
        if not checkins:
            ck.bad('C03-D5', f.qual, 'check_in', '%s no longer checks the item in' % name, f.loc())
            continue

        def is_flush(n):
            return bool(F.node_calls(n, text_prefix='self.finish()')) or any(
                U.attr_name(c) == 'add_many' and c.args and norm_text(c.args[0]) == 'self._add_url_batch' for c in F.node_calls(n))
        for cn in checkins:
            p = fcfg.find_path(fcfg.entry, lambda m: m is cn, edge_ok=lambda a, b, k: True, stop=is_flush)
            ck.expect(p is None, 'C03-D5', f.qual, 'batched child links flushed before check_in',
                      'the item is checked in (%s) while its discovered links are still only in memory: a kill between the two '
                      'transactions loses every link of a page that is never fetched again' % name, f.loc(cn.stmt),
                      path=describe_path(p) if p else None)
    fin = repo.func(SES + '.finish')
    okfin = any(U.attr_name(c) == 'add_many' and c.args and norm_text(c.args[0]) == 'self._add_url_batch' for c in U.calls(fin.node))
    ck.expect(okfin, 'C03-D5', fin.qual, 'finish() stores the whole batch with add_many', 'finish() no longer stores the batch', fin.loc())
    # the batch is cleared only after it was stored
    for f in ses.methods.values():
        fcfg = ctx.cfg(f)
        for cn in F.stmt_nodes_where(fcfg, lambda n: any(norm_text(c) == 'self._add_url_batch.clear()' for c in F.node_calls(n))):
            p = fcfg.find_path(fcfg.entry, lambda m: m is cn, edge_ok=lambda a, b, k: True,
                               stop=lambda n: any(U.attr_name(c) == 'add_many' for c in F.node_calls(n)))
            ck.expect(p is None, 'C03-D5', f.qual, 'batch cleared only after add_many', 'the link batch can be cleared without being stored', f.loc(cn.stmt))
    # no link queued after a check-in within one item's processing
    seeds = {SES + '.add_url': 'BATCH', SES + '.set_status': 'CHECKIN', SES + '.skip': 'CHECKIN'}
    pmaps = {}

    def hook_conditional(f, c):
        """set_status under `action == Actions.RETRY/FINISH`: driven by a script hook (out of scope of D5/D6)."""
        if U.attr_name(c) != 'set_status':
            return False
        pm = pmaps.setdefault(f.qual, U.parents(f.node))
        child = c
        for a in U.ancestors(c, pm):
            if isinstance(a, ast.If) and any(child is b or any(child is x for x in ast.walk(b)) for b in a.body):
                if any(U.like(a.test, pat) for pat in ('L_a == Actions.RETRY', 'L_a == Actions.FINISH', 'L_a == Actions.STOP',
                                                       'Actions.RETRY == L_a', 'Actions.FINISH == L_a', 'Actions.STOP == L_a')):
                    return True
        return False
    eff, callmap = effect_closure(repo, res, seeds, ignore_call=hook_conditional)

    def reports_checkin_as_falsy(g):
        """Every normal path of g from a check-in to the exit returns a falsy constant."""
        gcfg = ctx.cfg(g)
        glabels = {}
        for c, cal in callmap.get(g.qual, []):
            labs = set()
            for h in cal:
                labs |= eff.get(h, set())
            glabels[id(c)] = labs
        cis = [n for n in gcfg.nodes if any('CHECKIN' in glabels.get(id(c), ()) for c in F.node_calls(n))]
        if not cis:
            return False
        for n in cis:
            bad = gcfg.find_path(n, lambda m: m.kind == 'return' and not (isinstance(m.stmt.value, ast.Constant) and not m.stmt.value.value),
                                 edge_ok=F.normal)
            fall = gcfg.find_path(n, lambda m: m is gcfg.exit, edge_ok=F.normal, stop=lambda m: m.kind == 'return')
            if bad is not None or fall is not None:
                return False
        return True

    def falsy_result_name(node):
        """node is `X = yield from self.g()`: the name X."""
        s = node.stmt
        if isinstance(s, ast.Assign) and len(s.targets) == 1 and isinstance(s.targets[0], ast.Name):
            return s.targets[0].id
        return None
    scope = [f for f in repo.funcs.values() if f.module.name.startswith('wpull.processor') or f.qual.startswith('wpull.application.tasks.download:ProcessTask')]
    n_checked = 0
    for f in scope:
        labels = {}
        for c, cal in callmap.get(f.qual, []):
            labs = set()
            for g in cal:
                labs |= eff.get(g, set())
            if labs:
                labels[id(c)] = labs
        if not any('CHECKIN' in l for l in labels.values()) or not any('BATCH' in l for l in labels.values()):
            continue
        n_checked += 1
        fcfg = ctx.cfg(f)

        def node_labels(n):
            out = set()
            for c in F.node_calls(n):
                out |= labels.get(id(c), set())
            return out
        for a in fcfg.nodes:
            if 'CHECKIN' in node_labels(a):
                callees = [g for c in F.node_calls(a) for g in res.callee_funcs(f, c, allow_name=True, count=False)]
                x = falsy_result_name(a)
                if callees and x and all(reports_checkin_as_falsy(g) for g in callees):
                    # the check-in happened only if the result is falsy: no link may be queued on a path consistent with a falsy result
                    pth = F.feasible_path(fcfg, a, lambda m: 'BATCH' in node_labels(m) and m is not a, edge_ok=F.normal,
                                          init={(x, 0): frozenset({'eq'})})
                    if pth is None:
                        ck.ok('C03-D5', f.qual, '%s reports a check-in as a falsy result and no link is queued on a path where it is falsy' % _callee_names(a))
                        continue
                pth = fcfg.find_path(a, lambda m: 'BATCH' in node_labels(m) and m is not a, edge_ok=F.normal)
                if pth is not None:
                    b = pth[-1][0]
                    ck.bad('C03-D5', f.qual, 'links queued (%s) after check-in (%s)' % (
                        _callee_names(b), _callee_names(a)),
                        'links are queued after the item\'s status has been committed: they stay in memory until finish(), '
                        'so a kill in between loses them although the page is never fetched again', f.loc(b.stmt), describe_path(pth))
                else:
                    ck.ok('C03-D5', f.qual, 'no link is queued after %s' % _callee_names(a))
    ck.info['effect_order_functions'] = n_checked
    pt = repo.func('wpull.application.tasks.download:ProcessTask.process')
    okpt = any(norm_text(c) == 'session.finish()' for c in U.calls(pt.node))
    ck.expect(okpt, 'C03-D5', pt.qual, 'finish() after the processor (flushes links of items that were only skipped)', 'ProcessTask no longer flushes the link batch', pt.loc())

    # ------------------------------------------------------------------ D6
    for q, dl in (('wpull.processor.web:WebProcessorSession._fetch_one', 'download'),
                  ('wpull.processor.ftp:FTPProcessorSession._fetch', 'download')):
        f = repo.func(q)
        trys = [t for t in walk_no_nested(f.node) if isinstance(t, ast.Try) and any(
            U.attr_name(c) in ('download', 'download_listing') for b in t.body for c in U.calls(b))]
        okt = len(trys) == 1
        if okt:
            t = trys[0]
            hr = [c for b in t.orelse for c in U.calls(b) if U.attr_name(c) == '_handle_response']
            elsewhere = [c for c in U.calls(f.node) if U.attr_name(c) == '_handle_response' and c not in hr]
            okt = len(hr) == 1 and not elsewhere
        ck.expect(okt, 'C03-D6', q, '_handle_response only in the else-branch of the download try',
                  'the response can be handled (and a final status stored) although the download raised or never ran', f.loc())
    rr = repo.cls('wpull.processor.rule:ResultRule')
    for name, status in (('handle_document', 'Status.done'), ('handle_no_document', 'Status.skipped'), ('handle_document_error', 'Status.error')):
        f = repo.func(rr.qual + '.' + name)
        sets = [c for c in U.calls(f.node, attr='set_status')]
        oks = len(sets) == 1 and norm_text(sets[0].args[0]) == status
        if oks:
            pm = U.parents(f.node)
            guards = [a for a in U.ancestors(sets[0], pm) if isinstance(a, ast.If)]
            oks = len(guards) == 1 and (U.like(guards[0].test, 'L_a == Actions.NORMAL') or U.like(guards[0].test, 'Actions.NORMAL == L_a'))
        ck.expect(oks, 'C03-D6', f.qual, '%s stored only for Actions.NORMAL' % status, '%s: status handling changed' % name, f.loc())


def d3_release_at_startup(ctx):
    """DatabaseSetupTask.process releases the in-progress rows of the table it has just created, on every path (whatever
    option named the database).  Shared: a row left in progress is never handed out again (C01: none left in progress)."""
    repo, ck = ctx.repo, ctx.check
    ds = repo.func('wpull.application.tasks.database:DatabaseSetupTask.process')
    dcfg = ctx.cfg(ds)
    p = dcfg.find_path(dcfg.entry, lambda m: m is dcfg.exit, edge_ok=F.normal, stop=F.has_call('release'))
    rel_calls = [c for c in U.calls(ds.node, attr='release')]
    okr = p is None and len(rel_calls) == 1
    if okr:
        recv = U.expand_locals(ds.node, rel_calls[0].func.value)
        okr = isinstance(recv, ast.Call) and U.attr_name(recv) == 'new' and recv.args and isinstance(recv.args[0], ast.Constant) \
            and recv.args[0].value == 'URLTable'
    ck.expect(okr, 'C03-D3', ds.qual, 'url_table.release() on every path, on the table just created',
              'start-up can skip releasing in-progress rows: URLs checked out by a killed run are never retried', ds.loc(),
              path=describe_path(p) if p else None)


def _callee_names(n):
    return ', '.join(sorted({U.attr_name(c) for c in F.node_calls(n)}))[:80]
