"""C07 - each CDX line addresses exactly the record it describes.

Decides provenance of offset/length/filename, agreement of the CDX columns between
writer, header and reader, and that the header-sniffing pattern can see a real
header block (DESIGN.md section 3, C07-D1..D4).
"""
import ast

from ..index import dotted, walk_no_nested, norm_text, AnalysisError
from .. import util as U
from .. import regexs as RX
import re._constants as C

MOD = 'wpull.warc.recorder'
CLS = MOD + ':WARCRecorder'

# CDX letter -> what the column must be computed from (predicate over an expression's derivation)
def _mentions_const(*names):
    def pred(n):
        if isinstance(n, ast.Constant) and n.value in names:
            return True
        if isinstance(n, ast.Attribute) and n.attr in names:
            return True
        return False
    return pred


def run(ctx):
    repo, ck = ctx.repo, ctx.check
    mod = repo.module(MOD)
    ck.assume('os.path.getsize reports the on-disk size; one write_record call appends one record (C05)')
    ck.rule('C07-D1', 'the offset passed to the CDX writer is the pre-append size of the archive, the length is the '
                      'post-append size minus that same definition, both taken in the function that appends; the file '
                      'name column is the basename of the current archive path')
    ck.rule('C07-D2', 'CDX header letters, the tuple written per line and the keys read back for de-duplication agree '
                      'position by position and by provenance (a=target URI, b=date, m=MIME, s=status, k=payload digest, '
                      'S=size, V=offset, g=file name, u=record id)')
    ck.rule('C07-D3', 'the pattern that cuts the HTTP header block out of the record can match a multi-line block '
                      '(DOTALL or a class containing newline) and inspects at least as many bytes as the header cap of the HTTP reader')
    ck.rule('C07-D4', 'exactly one CDX line per response record: one call of the CDX writer per append, guarded only by '
                      'record type = response and content type = http response')

    ck.rule('C07-D5', 'a run that does not append starts from an empty CDX file: on every path of the function that starts the CDX '
                      'file with `appending` false the file is truncated (or opened for writing) before the header is appended, so no '
                      'line of an earlier run survives next to a rewritten archive; the header is written exactly when the file is new or truncated')
    ck.rule('C07-D6', 'status line and fields are read the way the HTTP reader accepted them: the first line is cut at the same line end '
                      'the block pattern accepts (bare LF included), and header unfolding treats a line starting with SP or HTAB as a '
                      'continuation (RFC 7230 obs-fold), so a folded Content-Type still yields the MIME column')
    ck.rule('C07-D7', 'the MIME column is the media type of the Content-Type field: the pattern that cuts type/subtype out of the value '
                      'accepts every token character of RFC 7230 on both sides of the slash (vnd.ms-excel, svg+xml, x.y_z)')
    hdr = repo.func(CLS + '._write_cdx_header')
    fld = repo.func(CLS + '._write_cdx_field')
    wr = repo.func(CLS + '.write_record')

    # ---------------------------------------------------------------- D2: header letters
    letters = None
    for c in U.calls(hdr.node, attr='join'):
        if c.args and isinstance(c.args[0], ast.Tuple):
            try:
                vals = repo.fold(mod, c.args[0])
            except ValueError:
                continue
            if vals and vals[0] == 'CDX':
                letters = list(vals[1:])
    if letters is None:
        raise AnalysisError('CDX header tuple not found in _write_cdx_header')
    ck.expect(len(set(letters)) == len(letters), 'C07-D2', hdr.qual, 'CDX header letters ' + ' '.join(letters),
              'duplicate CDX header letters', hdr.loc())
    # the tuple written per line
    defs = U.local_defs(fld.node)
    row = None
    for c in U.calls(fld.node, attr='join'):
        if c.args:
            a = c.args[0]
            if isinstance(a, ast.Name) and a.id in defs and len(defs[a.id]) == 1 and isinstance(defs[a.id][0][0], ast.Tuple):
                row = defs[a.id][0][0]
            elif isinstance(a, ast.Tuple):
                row = a
    if row is None:
        raise AnalysisError('CDX row tuple not found in _write_cdx_field')
    params = [p for p in fld.params if p != 'self']
    ck.expect(len(row.elts) == len(letters), 'C07-D2', fld.qual, 'row has %d columns, header %d' % (len(row.elts), len(letters)),
              'CDX row and header have different numbers of columns', fld.loc(row))
    # role params: which parameter feeds S and V
    role_param = {}
    want = {
        'a': ('target URI', lambda e: U.derives_from(fld.node, e, _mentions_const('WARC-Target-URI'), defs)),
        'b': ('record date', lambda e: U.derives_from(fld.node, e, _mentions_const('WARC-Date', 'WARC_DATE'), defs)),
        'm': ('MIME type of the archived response', lambda e: U.derives_from(fld.node, e, _mentions_const('Content-Type'), defs)
              and U.derives_from(fld.node, e, lambda n: isinstance(n, ast.Call) and U.attr_name(n) == 'get_http_header', defs)),
        's': ('status code of the archived response', lambda e: U.derives_from(fld.node, e, _mentions_const('status_code'), defs)
              and U.derives_from(fld.node, e, lambda n: isinstance(n, ast.Call) and U.attr_name(n) == 'get_http_header', defs)),
        'k': ('payload digest', lambda e: U.derives_from(fld.node, e, _mentions_const('WARC-Payload-Digest'), defs)),
        'g': ('basename of the current archive', lambda e: U.derives_from(
            fld.node, e, lambda n: isinstance(n, ast.Call) and (dotted(n.func) or '').endswith('basename')
            and n.args and U.is_self_attr(n.args[0], '_warc_filename'), defs)),
        'u': ('record id', lambda e: U.derives_from(fld.node, e, _mentions_const('WARC-Record-ID', 'WARC_RECORD_ID'), defs)),
    }
    for i, (letter, e) in enumerate(zip(letters, row.elts)):
        if letter in want:
            what, pred = want[letter]
            others = [l for l in want if l != letter and l not in ('m', 's') and want[l][1](e)]
            ck.expect(pred(e) and not others, 'C07-D2', fld.qual, 'column %s (%d) = %s' % (letter, i, what),
                      'CDX column %r is not computed from the %s (expression %s)' % (letter, what, norm_text(e)), fld.loc(e))
        elif letter in ('S', 'V'):
            src = [p for p in params if U.derives_from(fld.node, e, lambda n, p=p: isinstance(n, ast.Name) and n.id == p, defs)]
            if len(src) == 1:
                role_param[letter] = src[0]
                ck.ok('C07-D2', fld.qual, 'column %s (%d) <- parameter #%d' % (letter, i, params.index(src[0])))
            else:
                ck.bad('C07-D2', fld.qual, 'column %s' % letter, 'CDX column %r does not come from exactly one parameter (%s)' % (letter, src), fld.loc(e))
        else:
            ck.bad('C07-D2', fld.qual, 'column %s' % letter, 'unknown CDX column letter %r' % letter, fld.loc(e))
    for need in ('a', 'b', 'm', 's', 'k', 'S', 'V', 'g', 'u'):
        ck.expect(need in letters, 'C07-D2', hdr.qual, 'header has column ' + need, 'CDX header lacks column %r' % need, hdr.loc())
    if role_param.get('S') and role_param.get('S') == role_param.get('V'):
        ck.bad('C07-D2', fld.qual, 'S and V from one parameter', 'size and offset columns come from the same parameter', fld.loc())

    # reader side: keys consumed for de-duplication
    vt = repo.func('wpull.application.tasks.warc:WARCVisitsTask.process')
    got = None
    for q, f in repo.funcs.items():
        if q.startswith(vt.qual + '.<locals>.'):
            for n in walk_no_nested(f.node):
                if isinstance(n, ast.Yield) and isinstance(n.value, ast.Tuple):
                    got = [e.slice.value if isinstance(e, ast.Subscript) and isinstance(e.slice, ast.Constant) else None for e in n.value.elts]
                    gl = f.loc(n)
    addv = repo.func('wpull.database.sqlmodel:WARCVisit.add_visits')
    unpack = None
    for n in walk_no_nested(addv.node):
        if isinstance(n, ast.For) and isinstance(n.target, ast.Tuple):
            unpack = [e.id for e in n.target.elts if isinstance(e, ast.Name)]
    if got is None or unpack is None:
        raise AnalysisError('CDX reader (WARCVisitsTask.visits / add_visits) shape not recognised')
    # which unpacked name feeds which WARCVisit column
    colmap = {}
    for n in ast.walk(addv.node):
        if isinstance(n, ast.Dict):
            for k, v in zip(n.keys, n.values):
                if isinstance(k, ast.Constant) and isinstance(v, ast.Name):
                    colmap[k.value] = v.id
        elif isinstance(n, ast.Call) and dotted(n.func) == 'dict':
            for k in n.keywords:
                if k.arg and isinstance(k.value, ast.Name):
                    colmap[k.arg] = k.value.id
    role_of_key = {'a': 'url', 'u': 'warc_id', 'k': 'payload_digest'}
    ok = len(got) == len(unpack) == 3
    detail = []
    if ok:
        for key, name in zip(got, unpack):
            col = [c for c, v in colmap.items() if v == name]
            if role_of_key.get(key) not in col:
                ok = False
                detail.append('%r -> %s -> %s' % (key, name, col))
    ck.expect(ok, 'C07-D2', vt.qual, 'reader keys %s -> add_visits(%s)' % (got, ', '.join(unpack)),
              'CDX reader feeds the visits table from the wrong columns: %s' % detail, gl)

    # ---------------------------------------------------------------- D1: provenance at the call site
    wdefs = U.local_defs(wr.node)
    cfg = ctx.cfg(wr)
    dom = cfg.dominators()
    pm = U.parents(wr.node)
    sites = [c for c in U.calls(wr.node, attr='_write_cdx_field')]
    ck.expect(len(sites) == 1, 'C07-D4', wr.qual, '_write_cdx_field called once per append',
              'CDX writer called %d times in the append function' % len(sites), wr.loc())
    # pre-/post-append size definitions
    app_stmt = None
    for c in U.calls(wr.node):
        m = U.kwarg(c, 'mode', 1)
        if isinstance(m, ast.Constant) and isinstance(m.value, str) and ('a' in m.value or 'w' in m.value) and c.args \
                and U.is_self_attr(c.args[0], '_warc_filename') and app_stmt is None:
            app_stmt = U.enclosing_stmt(c, pm)
    if app_stmt is None:
        raise AnalysisError('append-open of the archive not found in write_record')
    # outermost statement containing the append (the try)
    top = app_stmt
    for a in U.ancestors(app_stmt, pm):
        if a is wr.node:
            break
        top = a
    body = wr.node.body
    idx_top = body.index(top) if top in body else -1

    def getsize_def(name):
        out = []
        for v, kind, st in wdefs.get(name, []):
            if kind == 'assign' and v is not None and any(
                    isinstance(c, ast.Call) and (dotted(c.func) or '').endswith('getsize') and c.args
                    and U.is_self_attr(c.args[0], '_warc_filename') for c in ast.walk(v)):
                out.append(st)
        return out

    def position(st):
        cur = st
        for a in U.ancestors(st, pm):
            if a is wr.node:
                break
            cur = a
        return body.index(cur) if cur in body else -1

    before = {n for n in wdefs if getsize_def(n) and all(position(s) < idx_top for s in getsize_def(n))}
    after = {n for n in wdefs if getsize_def(n) and all(position(s) > idx_top for s in getsize_def(n))}
    for call in sites:
        cparams = [p for p in fld.params if p != 'self']
        argmap = {}
        for i, a in enumerate(call.args):
            if i < len(cparams):
                argmap[cparams[i]] = a
        for k in call.keywords:
            if k.arg:
                argmap[k.arg] = k.value
        off_e = argmap.get(role_param.get('V'))
        len_e = argmap.get(role_param.get('S'))
        if off_e is None or len_e is None:
            ck.bad('C07-D1', wr.qual, norm_text(call), 'cannot map the call arguments to the size/offset columns', wr.loc(call))
            continue
        off_x = U.expand_locals(wr.node, off_e, wdefs, skip=tuple(before | after))
        len_x = U.expand_locals(wr.node, len_e, wdefs, skip=tuple(before | after))
        ok_off = isinstance(off_x, ast.Name) and off_x.id in before
        ck.expect(ok_off, 'C07-D1', wr.qual, 'offset argument = pre-append size',
                  'CDX offset is %s, not the archive size taken before the append' % norm_text(off_x), wr.loc(call))
        ok_len = isinstance(len_x, ast.BinOp) and isinstance(len_x.op, ast.Sub) \
            and isinstance(len_x.left, ast.Name) and len_x.left.id in after \
            and isinstance(len_x.right, ast.Name) and len_x.right.id in before
        ck.expect(ok_len, 'C07-D1', wr.qual, 'length argument = post-append size - pre-append size',
                  'CDX record length is %s, not (size after append) - (size before append)' % norm_text(len_x), wr.loc(call))
        # the call happens after the append, only on its success path, guarded by "CDX enabled" only
        st = U.enclosing_stmt(call, pm)
        ok_pos = position(st) > idx_top
        guards = [a for a in U.ancestors(st, pm) if isinstance(a, (ast.If, ast.For, ast.While, ast.Try))]
        ok_guard = all(isinstance(g, ast.If) and U.is_self_attr(g.test, '_cdx_filename') for g in guards)
        ck.expect(ok_pos and ok_guard, 'C07-D4', wr.qual, 'CDX line written after the append, iff a CDX file is configured',
                  'CDX writer call is misplaced or conditional on something other than the CDX file being configured', wr.loc(call))
    # the file name cannot change between append and CDX line: no assignment to _warc_filename in write_record / _write_cdx_field
    for f in (wr, fld):
        stores = [n for n in walk_no_nested(f.node) if isinstance(n, ast.Attribute) and isinstance(n.ctx, ast.Store)
                  and n.attr == '_warc_filename']
        ck.expect(not stores, 'C07-D1', f.qual, 'archive name not reassigned between append and CDX line',
                  'archive file name reassigned inside the append/CDX path', f.loc())

    # ---------------------------------------------------------------- D4: guard of the writer
    from ..dtable import Interp
    it = Interp(repo, fld)
    # restrict to the leading guard: interpret only up to the first return; use leaves and look at early returns
    def _skippable(st):
        if isinstance(st, ast.Expr) and isinstance(st.value, ast.Constant):
            return True
        if isinstance(st, ast.Expr) and isinstance(st.value, ast.Call):
            d = dotted(st.value.func) or ''
            return d.startswith(('_logger.', 'logger.', 'logging.'))
        return False
    first = next((st for st in fld.node.body if not _skippable(st)), fld.node.body[0])
    ok = isinstance(first, ast.If) and len(first.body) == 1 and isinstance(first.body[0], ast.Return) and not first.orelse
    if ok:
        t = first.test
        txt = norm_text(t)
        # normal form: type != RESPONSE or not match(http response, content type)
        parts = t.values if isinstance(t, ast.BoolOp) and isinstance(t.op, ast.Or) else [t]
        c1 = any(isinstance(p, ast.Compare) and isinstance(p.ops[0], ast.NotEq)
                 and {'WARC_TYPE', 'RESPONSE'} <= {n.attr for n in ast.walk(p) if isinstance(n, ast.Attribute)} for p in parts)
        c2 = any(isinstance(p, ast.UnaryOp) and isinstance(p.op, ast.Not) and isinstance(p.operand, ast.Call)
                 and (dotted(p.operand.func) or '') in ('re.match', 're.search', 're.fullmatch')
                 and 'CONTENT_TYPE' in {n.attr for n in ast.walk(p) if isinstance(n, ast.Attribute)} for p in parts)
        ok = c1 and c2 and len(parts) == 2
        if ok:
            for p in parts:
                if isinstance(p, ast.UnaryOp):
                    rx = RX.rx_from_call(repo, mod, p.operand)
                    lits = ''.join(chr(av) for op, av in rx.walk() if op is C.LITERAL) if rx else ''
                    ok = ok and 'application/http;' in lits and 'msgtype' in lits and 'response' in lits
    ck.expect(ok, 'C07-D4', fld.qual, 'skip iff not (type=response and content-type=http response)',
              'the CDX writer\'s guard is not exactly "record type is response and content type is an HTTP response"', fld.loc(first))
    # no other early return before the row is written
    rets = [n for n in walk_no_nested(fld.node) if isinstance(n, ast.Return)]
    ck.expect(len(rets) == 1, 'C07-D4', fld.qual, 'single early return (the type guard)',
              'the CDX writer can return before writing the line on %d paths' % len(rets), fld.loc())

    # ---------------------------------------------------------------- D3: header sniffing
    gh = repo.func('wpull.warc.format:WARCRecord.get_http_header')
    fmod = repo.module('wpull.warc.format')
    rxs = [RX.rx_from_call(repo, fmod, c) for c in U.calls(gh.node)]
    rxs = [r for r in rxs if r is not None]
    if not rxs and not _block_separators(repo, fmod, gh):
        raise AnalysisError('WARCRecord.get_http_header: neither a constant regex nor a constant separator finds the header end')
    for sep, c in ([] if rxs else _block_separators(repo, fmod, gh)):
        ck.ok('C07-D3', gh.qual, 'header end found by the constant separator %r (first occurrence, any number of lines)' % (sep,))
    for rx in rxs:
        # a repeated single-character item that can match "\n" must exist before the blank-line terminator
        can = False
        for op, av in rx.walk():
            if RX.is_repeat(op) and av[1] > 1:
                sub = list(av[2])
                if len(sub) == 1 and RX.can_match_char(rx, sub[0], 10) and RX.can_match_char(rx, sub[0], ord('A')):
                    can = True
        ck.expect(can, 'C07-D3', gh.qual, 'header pattern %r flags=%#x' % (rx.pattern, rx.flags & ~32),
                  'the header-block pattern cannot match a header of more than one line (no DOTALL / newline-capable '
                  'repeat): status and MIME type are lost for every real response', gh.loc(rx.call))
    # window size vs. the HTTP reader's header cap
    cap = None
    rr = repo.func('wpull.protocol.http.stream:Stream.read_response')
    for n in walk_no_nested(rr.node):
        if isinstance(n, ast.Compare) and len(n.ops) == 1 and isinstance(n.ops[0], (ast.Gt, ast.GtE, ast.Lt, ast.LtE)):
            for side in (n.left, n.comparators[0]):
                if isinstance(side, ast.Constant) and isinstance(side.value, int) and not isinstance(side.value, bool) and side.value >= 1024:
                    cap = side.value
    if cap is None:
        ck.bad('C07-D3', rr.qual, 'header block size is bounded by a constant',
               'the HTTP reader no longer bounds the header block, so no finite sniffing window of the CDX writer covers every header: '
               'status and MIME type are lost for responses with a larger header', rr.loc())
        cap = float('inf')
    reads = [(gh, c, {}) for c in U.calls(gh.node, attr='read')]
    if not reads:
        # the block may be read through a helper (e.g. wpull.util.peek_file(self.block_file[, length]))
        for c in U.calls(gh.node):
            if any(U.is_self_attr(a, 'block_file') for a in c.args):
                for g in ctx.res.callee_funcs(gh, c, allow_name=False, count=False):
                    gparams = list(g.params)
                    binding = {}
                    for i, a in enumerate(c.args):
                        if i < len(gparams):
                            binding[gparams[i]] = a
                    for k in c.keywords:
                        if k.arg:
                            binding[k.arg] = k.value
                    defaults = dict(zip(gparams[len(gparams) - len(g.node.args.defaults):], g.node.args.defaults))
                    for pn, dv in defaults.items():
                        binding.setdefault(pn, dv)
                    for rc in U.calls(g.node, attr='read'):
                        reads.append((g, rc, binding))
    for f_, c, binding in reads:
        if not c.args:
            ck.ok('C07-D3', gh.qual, 'unbounded read of the block')
            continue
        arg = c.args[0]
        if isinstance(arg, ast.Name) and arg.id in binding:
            arg = binding[arg.id]
        try:
            n = repo.fold(f_.module, arg)
        except ValueError:
            n = None
        ck.expect(isinstance(n, int) and (n < 0 or n >= cap), 'C07-D3', gh.qual, 'window %s >= header cap %s' % (n, cap),
                  'only %s bytes of the block are inspected but the HTTP reader accepts header blocks up to %s bytes' % (n, cap),
                  f_.loc(c))
    if not reads:
        ck.bad('C07-D3', gh.qual, 'read of the record block', 'get_http_header does not read the block file (directly or through a helper) with a known window', gh.loc())

    # the header sniffer must be as lenient as the parser that accepted the response when it was fetched
    live = repo.func('wpull.protocol.http.request:Response.parse')
    def _strict_args(f):
        out = []
        for c in U.calls(f.node, attr='parse'):
            if isinstance(c.func.value, ast.Attribute) and c.func.value.attr == 'fields':
                st = U.kwarg(c, 'strict', 1)
                out.append((c, st))
        return out
    live_lenient = all(isinstance(st, ast.Constant) and st.value is False for c, st in _strict_args(live)) and bool(_strict_args(live))
    for c, st in _strict_args(gh):
        lenient = isinstance(st, ast.Constant) and st.value is False
        ck.expect(lenient or not live_lenient, 'C07-D3', gh.qual, 'header fields parsed leniently, like Response.parse',
                  'the CDX header sniffer parses the field block strictly while the live response parser is lenient: a response with a '
                  'colon-less header line is archived with its real status but indexed with status/MIME "-"', gh.loc(c))
    if not _strict_args(gh):
        ck.bad('C07-D3', gh.qual, 'fields.parse(field block)', 'the header sniffer no longer parses the field block', gh.loc())
    # every CDX column is free of the column delimiter: the MIME type is a token/token match of a constant pattern
    pm_ = repo.func(CLS + '.parse_mimetype')
    rets = [r for r in walk_no_nested(pm_.node) if isinstance(r, ast.Return) and r.value is not None]
    okm = bool(rets)
    for r in rets:
        v = r.value
        good = False
        if isinstance(v, ast.Call) and U.attr_name(v) == 'group' and isinstance(v.func.value, ast.Name):
            d_ = U.local_defs(pm_.node).get(v.func.value.id, [])
            for dv, k_, s_ in d_:
                rx = RX.rx_from_call(repo, mod, dv) if isinstance(dv, ast.Call) else None
                if rx is not None:
                    # no item of the pattern may match the delimiter, tab, CR or LF
                    bad_ch = []
                    for op, av in rx.walk():
                        if op in (C.IN, C.LITERAL, C.NOT_LITERAL, C.ANY, C.CATEGORY):
                            for ch in (32, 9, 10, 13):
                                if RX.can_match_char(rx, (op, av), ch):
                                    bad_ch.append(ch)
                    good = not bad_ch
        elif isinstance(v, ast.Constant) and (v.value is None or (isinstance(v.value, str) and ' ' not in v.value)):
            good = True
        okm = okm and good
    ck.expect(okm, 'C07-D2', pm_.qual, 'MIME column = token/token match of a pattern that cannot match the delimiter',
              'the MIME type written to the CDX line can contain the column delimiter (blank): every following column is shifted '
              'and the line no longer addresses its record', pm_.loc())

    _d5_fresh_cdx(ctx, hdr)
    _d6_header_lines(ctx)
    _d7_mime(ctx)


def _tri(test, atom_pred, value):
    """Three-valued evaluation of a boolean expression in which the atoms satisfying atom_pred have truth `value`
    and every other atom is unknown (None)."""
    if isinstance(test, ast.UnaryOp) and isinstance(test.op, ast.Not):
        v = _tri(test.operand, atom_pred, value)
        return None if v is None else (not v)
    if isinstance(test, ast.BoolOp):
        vals = [_tri(v, atom_pred, value) for v in test.values]
        if isinstance(test.op, ast.And):
            if any(v is False for v in vals):
                return False
            return True if all(v is True for v in vals) else None
        if any(v is True for v in vals):
            return True
        return False if all(v is False for v in vals) else None
    if atom_pred(test):
        return value
    return None


def _d5_fresh_cdx(ctx, hdr):
    repo, ck = ctx.repo, ctx.check
    from .. import flow as F
    cls = repo.cls(CLS)
    starters = [m for m in cls.methods.values() if any(
        isinstance(a, ast.Assign) and not (isinstance(a.value, ast.Constant) and a.value.value is None) for a in F.assigned_attrs(m.node, '_cdx_filename'))]
    if len(starters) != 1:
        raise AnalysisError('expected one function that sets _cdx_filename, found %d' % len(starters))
    st = starters[0]
    cfg = ctx.cfg(st)
    # how does the header writer open the file?
    modes = []
    for c in U.calls(hdr.node):
        if dotted(c.func) == 'open' and c.args and norm_text(c.args[0]) == 'self._cdx_filename':
            m = U.kwarg(c, 'mode', 1)
            modes.append(m.value if isinstance(m, ast.Constant) else None)
    hdr_truncates = bool(modes) and all(isinstance(m, str) and m.startswith('w') for m in modes)

    def is_appending(t):
        return isinstance(t, ast.Attribute) and t.attr == 'appending' or (isinstance(t, ast.Name) and t.id == 'appending')

    def truncates(n):
        for c in F.node_calls(n):
            d = dotted(c.func) or ''
            if d.endswith('truncate_file') and c.args and norm_text(c.args[0]) == 'self._cdx_filename':
                return True
            if d == 'open' and c.args and norm_text(c.args[0]) == 'self._cdx_filename':
                m = U.kwarg(c, 'mode', 1)
                if isinstance(m, ast.Constant) and isinstance(m.value, str) and m.value.startswith('w'):
                    return True
            if hdr_truncates and U.attr_name(c) == hdr.name:
                return True
        return False

    def writes_header(n):
        return any(U.attr_name(c) == hdr.name for c in F.node_calls(n))

    def edge_ok(a, b, k):
        if not F.normal(a, b, k):
            return False
        if a.kind == 'if' and k in ('T', 'F'):
            v = _tri(a.stmt.test, is_appending, False)
            if v is not None and (k == 'T') != v:
                return False
        return True
    start = [n for n in cfg.stmt_nodes() if n.kind == 'stmt' and F.assigned_attrs(ast.Module(body=[n.stmt], type_ignores=[]), '_cdx_filename')]
    if not start:
        raise AnalysisError('%s: assignment of _cdx_filename not found in the CFG' % st.qual)
    p = cfg.find_path(start[0], lambda m: m is cfg.exit, edge_ok=edge_ok, stop=truncates)
    from ..cfg import describe_path
    ck.expect(p is None, 'C07-D5', st.qual, 'not appending -> CDX file truncated on every path',
              'with appending off the CDX file of an earlier run is kept: its lines give offsets into an archive that has been '
              'rewritten, and a second header appears in the middle of the file', st.loc(), path=describe_path(p) if p else None)
    p2 = cfg.find_path(start[0], lambda m: m is cfg.exit, edge_ok=edge_ok, stop=writes_header)
    ck.expect(p2 is None, 'C07-D5', st.qual, 'not appending -> header written', 'a fresh CDX file can be left without its header line', st.loc(),
              path=describe_path(p2) if p2 else None)


def _first_char_classes(test, var):
    """Truth of `test` for a line whose first character is SP / HTAB / another character / that is empty, or None when the
    test looks at anything but the first character of `var` (constant folding over the four classes)."""
    samples = {'SP': ' x', 'HTAB': '\tx', 'other': 'x', 'empty': ''}
    out = {}
    for cls_, val in samples.items():
        try:
            out[cls_] = bool(_fold_on(test, var, val))
        except _NoFold:
            return None
    return out


class _NoFold(Exception):
    pass


def _fold_on(e, var, val):
    if isinstance(e, ast.Constant):
        return e.value
    if isinstance(e, ast.Name):
        if e.id == var:
            return val
        raise _NoFold()
    if isinstance(e, (ast.Tuple, ast.List, ast.Set)):
        return tuple(_fold_on(x, var, val) for x in e.elts)
    if isinstance(e, ast.UnaryOp) and isinstance(e.op, ast.Not):
        return not _fold_on(e.operand, var, val)
    if isinstance(e, ast.BoolOp):
        r = None
        for v in e.values:
            r = _fold_on(v, var, val)
            if isinstance(e.op, ast.And) and not r:
                return r
            if isinstance(e.op, ast.Or) and r:
                return r
        return r
    if isinstance(e, ast.Subscript) and isinstance(e.value, ast.Name) and e.value.id == var:
        sl = e.slice
        if isinstance(sl, ast.Constant) and sl.value == 0:
            if not val:
                raise _NoFold()          # IndexError on an empty line: not a total test
            return val[0]
        if isinstance(sl, ast.Slice) and sl.step is None and (sl.lower is None or (isinstance(sl.lower, ast.Constant) and sl.lower.value == 0)) \
                and isinstance(sl.upper, ast.Constant) and sl.upper.value == 1:
            return val[:1]
        raise _NoFold()
    if isinstance(e, ast.Call) and isinstance(e.func, ast.Attribute) and e.func.attr == 'startswith' and isinstance(e.func.value, ast.Name) \
            and e.func.value.id == var and len(e.args) == 1 and not e.keywords:
        a = _fold_on(e.args[0], var, val)
        if isinstance(a, str):
            a = (a,)
        if not (isinstance(a, tuple) and all(isinstance(x, str) and len(x) == 1 for x in a)):
            raise _NoFold()
        return val.startswith(a)
    if isinstance(e, ast.Compare) and len(e.ops) == 1:
        l, r = _fold_on(e.left, var, val), _fold_on(e.comparators[0], var, val)
        op = e.ops[0]
        if isinstance(op, ast.In):
            return l in r
        if isinstance(op, ast.NotIn):
            return l not in r
        if isinstance(op, ast.Eq):
            return l == r
        if isinstance(op, ast.NotEq):
            return l != r
    raise _NoFold()


TCHAR = "!#$%&'*+-.^_`|~" + ''.join(chr(c) for c in range(48, 58)) + ''.join(chr(c) for c in range(65, 91)) + ''.join(chr(c) for c in range(97, 123))


def _d7_mime(ctx):
    repo, ck = ctx.repo, ctx.check
    pm = repo.func(CLS + '.parse_mimetype')
    mod = repo.module('wpull.warc.recorder')
    got = [RX.rx_from_method_call(repo, mod, c) for c in U.calls(pm.node)]
    got = [g for g in got if g is not None]
    if not got:
        # C07-D2 demands a token/token pattern (nothing else keeps the column delimiter out); without one there is nothing to measure
        ck.bad('C07-D7', pm.qual, 'type/subtype cut out by a constant pattern', 'the media type is no longer cut out of the Content-Type value by a '
               'constant pattern, so it cannot be shown to be exactly the type/subtype tokens', pm.loc())
        return
    for rx, _shift in got:
        seq = rx.flat()
        # <repeat of a class> "/" <repeat of a class>
        ok = len(seq) == 3 and RX.is_repeat(seq[0][0]) and seq[1] == (C.LITERAL, ord('/')) and RX.is_repeat(seq[2][0]) \
            and all(len(list(x[1][2])) == 1 for x in (seq[0], seq[2]))
        missing = {}
        if ok:
            for side, x in (('type', seq[0]), ('subtype', seq[2])):
                item = list(x[1][2])[0]
                miss = [ch for ch in TCHAR if not RX.class_matches(item, ord(ch), rx.ignorecase)]
                if miss:
                    missing[side] = ''.join(miss)
        ck.expect(ok and not missing, 'C07-D7', pm.qual, 'pattern %r accepts every token character in type and subtype' % rx.pattern,
                  'the media-type pattern %r %s: for `Content-Type: application/vnd.ms-excel` the CDX line says `application/vnd`, for '
                  '`image/svg+xml` it says `image/svg` - not the MIME type of the archived response'
                  % (rx.pattern, ('stops at %s' % missing) if missing else 'has an unexpected shape'), pm.loc(rx.call))


def _block_separators(repo, fmod, gh):
    """[(separator bytes, call)]: calls in get_http_header that look for a constant separator spanning a blank line
    (`data.partition(b'\\r\\n\\r\\n')`, split / find / index alike)."""
    out = []
    for c in U.calls(gh.node):
        if U.attr_name(c) in ('partition', 'split', 'find', 'index') and c.args:
            try:
                sep = repo.fold(fmod, c.args[0])
            except (ValueError, TypeError):
                continue
            if isinstance(sep, bytes) and sep.count(b'\n') >= 2:
                out.append((sep, c))
    return out


def _d6_header_lines(ctx):
    repo, ck = ctx.repo, ctx.check
    gh = repo.func('wpull.warc.format:WARCRecord.get_http_header')
    fmod = repo.module('wpull.warc.format')
    rxs = [r for r in (RX.rx_from_call(repo, fmod, c) for c in U.calls(gh.node)) if r is not None]
    # does the block pattern accept a bare LF line end (an optional CR before LF)?
    bare_lf = False
    for rx in rxs:
        items = list(rx.walk())
        for i, (op, av) in enumerate(items):
            if RX.is_repeat(op) and av[0] == 0 and len(list(av[2])) == 1 and list(av[2])[0] == (C.LITERAL, 13):
                bare_lf = True
        if not any(op is C.LITERAL and av == 13 for op, av in items):
            bare_lf = True
    seps = [] if rxs else _block_separators(repo, fmod, gh)
    if seps:
        # one constant separator accepts one spelling of the blank line only
        bare_lf = False
    # the HTTP reader ends a header line, and the header block, at a bare LF as well as at CRLF: so must the pattern that finds
    # the block again in the archived bytes
    rr = repo.func('wpull.protocol.http.stream:Stream.read_response')
    reader_lf = False
    for n in walk_no_nested(rr.node):
        if isinstance(n, ast.Compare) and len(n.ops) == 1 and isinstance(n.ops[0], (ast.In, ast.NotIn, ast.Eq, ast.NotEq)):
            try:
                v = repo.fold(repo.module('wpull.protocol.http.stream'), n.comparators[0])
            except (ValueError, TypeError):
                continue
            if v == b'\n' or (isinstance(v, (tuple, list, set, frozenset)) and b'\n' in v):
                reader_lf = True
    if reader_lf:
        ck.expect(bare_lf, 'C07-D6', gh.qual, 'the header-block pattern accepts bare LF line ends (the HTTP reader does)',
                  'the HTTP reader accepts a header block whose lines end in a bare LF, the pattern that cuts the block out of the archived '
                  'record demands CRLF: for such a response status and MIME are lost, or taken from the body if it contains CRLF CRLF',
                  gh.loc(rxs[0].call) if rxs else (gh.loc(seps[0][1]) if seps else gh.loc()))
    # the cut of the first line
    cuts = [c for c in U.calls(gh.node) if U.attr_name(c) in ('partition', 'split') and c.args and not any(c is c2 for _, c2 in seps)]
    okc = bool(cuts)
    for c in cuts:
        try:
            sep = repo.fold(fmod, c.args[0])
        except ValueError:
            sep = None
        if sep == b'\n':
            continue
        if sep == b'\r\n' and not bare_lf:
            continue
        okc = False
    if not cuts:
        okc = any(U.attr_name(c) == 'splitlines' for c in U.calls(gh.node))
    ck.expect(okc, 'C07-D6', gh.qual, "status line cut at b'\\n' (the block pattern accepts bare LF line ends)",
              'the status line is cut at CRLF only although the header block pattern (and the HTTP reader) accept bare LF: for such a '
              'response the fields stay glued to the status line and the MIME column is lost', gh.loc(cuts[0]) if cuts else gh.loc())
    from .common import header_name_key_rule
    header_name_key_rule(ctx, 'C07-D6')
    # the status line is read back through Response.parse_status_line into Response(version, status, reason), whose constructor
    # wants all three: every capture group of the status-line pattern takes part in every match (an optional reason group gives
    # None for `HTTP/1.1 200` and the read-back fails after the record was written, leaving it without a CDX line)
    psl = repo.func('wpull.protocol.http.request:Response.parse_status_line')
    n_sl = 0
    for c in U.calls(psl.node):
        got = RX.rx_from_method_call(repo, psl.module, c)
        if got is None:
            continue
        n_sl += 1
        opt = got[0].optional_groups()
        # ... unless the function supplies a default wherever it reads such a group (`groups[2] or b''`)
        pm_ = U.parents(psl.node)
        for g_ in sorted(opt):
            uses = [x for x in walk_no_nested(psl.node) if (isinstance(x, ast.Subscript) and isinstance(x.slice, ast.Constant) and x.slice.value == g_ - 1
                                                           and isinstance(x.value, ast.Name) and 'group' in x.value.id)
                    or (isinstance(x, ast.Call) and U.attr_name(x) == 'group' and x.args and isinstance(x.args[0], ast.Constant) and x.args[0].value == g_)]
            if uses and all(isinstance(pm_.get(id(u)), ast.BoolOp) and isinstance(pm_[id(u)].op, ast.Or) and pm_[id(u)].values[0] is u for u in uses):
                opt.discard(g_)
        ck.expect(not opt, 'C07-D6', psl.qual, 'every group of the status-line pattern takes part in every match',
                  'group(s) %s of the status-line pattern are optional: a status line without them yields None for a field the response '
                  'object requires, and the CDX read-back of an archived record fails after the record was appended' % sorted(opt), psl.loc(c))
    if n_sl < 1:
        raise AnalysisError('parse_status_line: pattern not found')
    # unfolding
    uf = repo.func('wpull.namevalue:unfold_lines')
    cont = None
    for n in walk_no_nested(uf.node):
        if isinstance(n, ast.If) and any(isinstance(c.args[0], ast.Constant) and c.args[0].value == ' '
                                         for b in n.body for c in U.calls(b, attr='write') if c.args):
            cont = n
    if cont is None:
        ck.bad('C07-D6', uf.qual, 'continuation lines are joined with a space', 'unfold_lines no longer joins continuation lines', uf.loc())
        return
    names = sorted({x.id for x in ast.walk(cont.test) if isinstance(x, ast.Name)})
    tbl = _first_char_classes(cont.test, names[0]) if len(names) == 1 else None
    want = {'SP': True, 'HTAB': True, 'other': False, 'empty': False}
    ck.expect(tbl == want, 'C07-D6', uf.qual, 'continuation iff the line starts with SP or HTAB: %s' % (tbl,),
              'header unfolding does not treat exactly the lines starting with SP or HTAB as continuations (%s): a Content-Type folded '
              'with a tab is dropped by the lenient parser and the CDX MIME column is lost' % (tbl,), uf.loc(cont))
