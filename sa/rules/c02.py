"""C02 - no request is ever made for a URL outside the configured scope.

Decision tables of the filters against reference predicates written from the
property statement (DESIGN-tables.md A), the conjunction, the redirect waiver, the
dominance of every request by a true verdict, and the option -> filter wiring
(DESIGN.md section 3, C02-D1..D5).
"""
import ast

from ..index import dotted, walk_no_nested, norm_text, AnalysisError
from ..cfg import describe_path
from .. import util as U
from .. import flow as F
from ..dtable import Interp, compare, fmt_val, _Need

UF = 'wpull.urlfilter'

LEVEL, INL = 'P1.level', 'P1.inline_level'


def _M(v, lst, arg):
    return v.T('self.match(%s, %s)' % (lst, arg))


def ref_scheme(v):
    return v.isin('P0.scheme', 'C0')


def ref_https(v):
    return v.eq("'https'", 'P0.scheme')


def ref_follow_ftp(v):
    blocked = v.eq("'ftp'", 'P0.scheme') and v.T('P1.parent_url') and v.isin('P1.parent_url_info.scheme', "('http', 'https')")
    return (not blocked) or v.T('C0')


def ref_backward_domain(v):
    h = 'P0.hostname'
    return (not v.T('C0') or _M(v, 'C0', h)) and not (v.T('C1') and _M(v, 'C1', h))


def ref_hostname(v):
    h = 'P0.hostname'
    return (not v.T('C0') or v.isin(h, 'C0')) and not (v.T('C1') and v.isin(h, 'C1'))


def ref_recursive(v):
    if v.eq('0', LEVEL):
        return True
    return v.T('C1') if v.T(INL) else v.T('C0')


def ref_level(v):
    if v.T('C1') and v.T(INL) and v.ord(INL, 'C1') == 'gt':
        return False
    if not v.T('C0'):
        return True
    if v.T(INL):
        return v.le(LEVEL, 'C0 + 2')
    return v.le(LEVEL, 'C0')


def ref_tries(v):
    return (not v.T('C0')) or v.lt('P1.try_count', 'C0')


def ref_parent(v):
    if v.T(INL):
        return True
    top = 'URLInfo.parse(P1.root_url)' if v.T('P1.root_url') else 'P0'
    same = v.T('schemes_similar(P0.scheme, %s.scheme)' % top) and v.eq('P0.hostname', '%s.hostname' % top) \
        and ((not v.eq('P0.scheme', '%s.scheme' % top)) or v.eq('P0.port', '%s.port' % top))
    if not same:
        return True
    return v.T('is_subdir(%s.path, P0.path, trailing_slash=True)' % top)


def ref_span_hosts(v):
    return v.T('C1') or v.isin('P0.hostname', 'C0') or (v.T('C2') and v.T(INL)) or \
        (v.T('C3') and v.T('P1.parent_url_info') and v.isin('P1.parent_url_info.hostname', 'C0'))


def ref_regex(v):
    return (not v.T('C0') or v.T('re.search(C0, P0.url)')) and not (v.T('C1') and v.T('re.search(C1, P0.url)'))


def ref_directory(v):
    return (not v.T('C0') or v.T('self._is_accepted(P0)')) and not (v.T('C1') and v.T('self._is_rejected(P0)'))


NAME = "P0.path.rsplit('/', 1)[-1]"


def ref_backward_filename(v):
    if not v.T(NAME):
        return True
    return (not v.T('C0') or _M(v, 'C0', NAME)) and not (v.T('C1') and _M(v, 'C1', NAME))


FILTERS = [
    ('SchemeFilter.test', ref_scheme), ('HTTPSOnlyFilter.test', ref_https), ('FollowFTPFilter.test', ref_follow_ftp),
    ('BackwardDomainFilter.test', ref_backward_domain), ('HostnameFilter.test', ref_hostname),
    ('RecursiveFilter.test', ref_recursive), ('LevelFilter.test', ref_level), ('TriesFilter.test', ref_tries),
    ('ParentFilter.test', ref_parent), ('SpanHostsFilter.test', ref_span_hosts), ('RegexFilter.test', ref_regex),
    ('DirectoryFilter.test', ref_directory), ('BackwardFilenameFilter.test', ref_backward_filename),
    # helper predicates
    ('BackwardDomainFilter.match', lambda v: bool(v.T('P1')) and v.exists('P0', 'P1.endswith(_x)')),
    ('BackwardFilenameFilter.match', lambda v: bool(v.T('P1')) and v.exists('P0', 're.search(fnmatch.translate(_x), P1)')),
    ('DirectoryFilter._is_accepted', lambda v: v.exists('C0', 'is_subdir(_x, P0.path, wildcards=True)')),
    ('DirectoryFilter._is_rejected', lambda v: v.exists('C1', 'is_subdir(_x, P0.path, wildcards=True)')),
]


def level_feasible(val):
    """level ? depth and level ? depth+2 are not independent: level <= depth implies level < depth+2."""
    a = val.get(('ord', 'C0', LEVEL))          # order of C0 relative to level
    b = val.get(('ord', 'C0 + 2', LEVEL))
    if a is not None and b is not None:
        if a in ('gt', 'eq') and b != 'gt':      # depth >= level  => depth+2 > level
            return False
        if b in ('lt', 'eq') and a != 'lt':      # depth+2 <= level => depth < level
            return False
    return True


def truthy(o, truth):
    if o.kind == 'return':
        return bool(truth(o.value)) if o.value is not None else False
    if o.kind == 'fall':
        return False
    return 'raises'



def d2_filter_tables(ctx):
    """Decision tables of the 13 filter classes and their helper predicates against the reference predicates (shared with C01)."""
    repo, ck = ctx.repo, ctx.check
    total_rows = 0
    for name, ref in FILTERS:
        fi = repo.func('%s:%s' % (UF, name))
        it = Interp(repo, fi)
        feas = level_feasible if name.startswith('LevelFilter') else None
        rows, mism, atoms, refonly = compare(it, ref, truthy, feas)
        total_rows += rows
        ck.expect(not mism, 'C02-D2', fi.qual, 'decision table = reference (%d rows, %d atoms)' % (rows, len(atoms)),
                  'filter decision differs from the reference on %d row(s), e.g. [%s] -> code %s, reference %s' % (
                      len(mism), fmt_val(mism[0][0]) if mism else '', mism[0][1] if mism else '', mism[0][2] if mism else ''),
                  fi.loc())
    ck.info['filter_table_rows'] = total_rows
    # schemes_similar / is_subdir helpers
    ss = repo.func('wpull.url:schemes_similar')
    it = Interp(repo, ss)
    H = "('http', 'https')"
    rows, mism, atoms, _ = compare(it, lambda v: v.eq('P0', 'P1') or (v.isin('P0', H) and v.isin('P1', H)), truthy)
    ck.expect(not mism, 'C02-D2', ss.qual, 'schemes_similar table (%d rows)' % rows,
              'schemes_similar differs from "equal, or both http(s)": %s' % (fmt_val(mism[0][0]) if mism else ''), ss.loc())
    sd = repo.func('wpull.url:is_subdir')
    it = Interp(repo, sd)
    bad = []
    leaves = it.leaves()
    for o in leaves:
        v = o.val
        if o.kind != 'return' or o.value is None:
            bad.append('no result on ' + fmt_val(v))
            continue
        if v.get(('T', 'P2')):
            base, test = "P0.rsplit('/', 1)[0] + '/'", "P1.rsplit('/', 1)[0] + '/'"
        else:
            be = v.get(('T', "P0.endswith('/')"))
            te = v.get(('T', "P1.endswith('/')"))
            if be is None or te is None:
                bad.append('slash test missing on ' + fmt_val(v))
                continue
            base = 'P0' if be else "P0 + '/'"
            test = 'P1' if te else "P1 + '/'"
        wild = v.get(('T', 'P3'))
        if wild is None:
            bad.append('wildcards flag not tested on ' + fmt_val(v))
            continue
        # a directory named by the user covers the directory and everything below it, with or without wildcards (Wget: -I / -X):
        # the glob is therefore matched as a prefix - the pattern ends in '*' - and never against the whole path only
        want = "fnmatch.fnmatchcase(%s, %s + '*')" % (test, base) if wild else '(%s).startswith(%s)' % (test, base)
        want = norm_text(ast.parse(want, mode='eval').body)
        got = norm_text(o.value)
        if got != want:
            bad.append('%s -> %s, reference %s%s' % (fmt_val(v), got, want, ' (the glob is matched against the whole path: `-X /private` does not '
                                                     'cover /private/secret.html, which is then requested)' if wild else ''))
    ck.expect(not bad and len(leaves) >= 4, 'C02-D2', sd.qual, 'is_subdir table (%d rows)' % len(leaves),
              'is_subdir differs from the reference: %s' % '; '.join(bad[:2]), sd.loc())

def run(ctx):
    repo, ck, res = ctx.repo, ctx.check, ctx.res
    ck.assume('filter predicates over strings (suffix, regex, fnmatch, membership) are uninterpreted atoms keyed by their '
              'canonical operands; the conjunction over concrete URLs and option subsets is not enumerated')
    ck.assume('the accept_url plugin hook is user configuration and may override a verdict')
    ck.rule('C02-D1', 'DemuxURLFilter.test_info consults every configured filter, records exactly the falsy results as '
                      'failed, and the verdict is "no filter failed"')
    ck.rule('C02-D2', 'each filter\'s decision table (abstract interpretation over truth/order atoms) equals the reference '
                      'predicate written from the property statement, row by row')
    ck.rule('C02-D3', 'a false filter verdict is overridden only for a redirect under strong redirects when the span-hosts '
                      'filter is the single failure; verdicts handed to the hook are the filters\' (and robots\') verdicts')
    ck.rule('C02-D4', 'every protocol-session start in the processors is control-dependent on a true verdict for the '
                      'request about to be sent, re-evaluated for every redirect hop')
    ck.rule('C02-D5', 'each scope option constructs its filter with the right options in the right parameter positions '
                      'under the right enabling condition; the span-hosts filter joins the list the demux filter iterates')

    # ------------------------------------------------------------------ D2
    d2_filter_tables(ctx)

    # ------------------------------------------------------------------ D1
    ti = repo.func(UF + ':DemuxURLFilter.test_info')
    loops = [n for n in walk_no_nested(ti.node) if isinstance(n, (ast.For, ast.While))]
    ok = len(loops) == 1 and isinstance(loops[0], ast.For) and norm_text(loops[0].iter) in ('self._url_filters', 'self.url_filters') \
        and not loops[0].orelse and isinstance(loops[0].target, ast.Name)
    if not ok:
        ck.bad('C02-D1', ti.qual, 'for url_filter in self._url_filters', 'the filter list is not iterated by one plain loop', ti.loc())
    else:
        lp = loops[0]
        fv = lp.target.id
        jumps = [x for b in lp.body for x in ast.walk(b) if isinstance(x, (ast.Break, ast.Continue, ast.Return))]
        ck.expect(not jumps, 'C02-D1', ti.qual, 'no break/continue/return inside the filter loop',
                  'the filter loop can stop early: later filters are not consulted', ti.loc(lp))
        it = Interp(repo, ti, body=lp.body, rename=False)
        leaves = it.leaves()
        p1, p2 = ti.params[1], ti.params[2]
        sets = {}
        for n in ast.walk(ti.node):
            if isinstance(n, ast.Dict):
                for k, v in zip(n.keys, n.values):
                    if isinstance(k, ast.Constant) and k.value in ('passed', 'failed') and isinstance(v, ast.Name):
                        sets[k.value] = v.id
        res_atom = ('T', '%s.test(%s, %s)' % (fv, p1, p2))
        bad = []
        if set(sets) != {'passed', 'failed'} or sets['passed'] == sets['failed']:
            bad.append("the result dict does not expose distinct 'passed' and 'failed' collections")
        for o in leaves:
            r = o.val.get(res_atom)
            eff = list(o.effects)
            if r is None or set(o.val) != {res_atom}:
                bad.append('result of %s.test(%s, %s) is not the only thing tested: %s' % (fv, p1, p2, fmt_val(o.val)))
                continue
            adds = [e for e in eff if e.endswith('.add(%s)' % fv)]
            want = sets.get('passed' if r else 'failed', '?') + '.add(%s)' % fv
            if adds != [want]:
                bad.append('%s -> %s, reference %s' % (fmt_val(o.val), adds, want))
        ck.expect(not bad and len(leaves) == 2, 'C02-D1', ti.qual, 'falsy result -> failed, truthy -> passed (2 rows)',
                  'filter results are recorded wrongly: %s' % '; '.join(bad[:2]), ti.loc(lp))
        # map entry
        okm = any(isinstance(b, ast.Assign) and isinstance(b.targets[0], ast.Subscript) and '__name__' in norm_text(b.targets[0].slice)
                  for b in lp.body)
        ck.expect(okm, 'C02-D1', ti.qual, 'map[class name] = result', 'the per-filter result map is not filled', ti.loc(lp))
    # verdict expression
    it = Interp(repo, ti, rename=False)
    verdict_e = None
    for n in ast.walk(ti.node):
        if isinstance(n, ast.Dict):
            for k, v in zip(n.keys, n.values):
                if isinstance(k, ast.Constant) and k.value == 'verdict':
                    verdict_e = v
    if verdict_e is None:
        ck.bad('C02-D1', ti.qual, "info['verdict']", 'verdict entry not found', ti.loc())
    else:
        mutated = {c.func.value.id for c in U.calls(ti.node) if isinstance(c.func, ast.Attribute) and isinstance(c.func.value, ast.Name)}
        e = U.expand_locals(ti.node, verdict_e, skip=tuple(mutated))
        outs = []
        fname = None
        for n in ast.walk(ti.node):
            if isinstance(n, ast.Dict):
                for k, v in zip(n.keys, n.values):
                    if isinstance(k, ast.Constant) and k.value == 'failed' and isinstance(v, ast.Name):
                        fname = v.id
        fname = fname or 'failed'
        for empty in (True, False):
            val = {('ord', '0', 'len(%s)' % fname): 'eq' if empty else 'lt', ('T', fname): not empty,
                   ('T', 'len(%s)' % fname): not empty, ('ord', '1', 'len(%s)' % fname): 'gt' if empty else 'lt'}
            try:
                outs.append(it.truth(e, val))
            except _Need as need:
                outs.append('depends on %s' % (need.key,))
        ck.expect(outs == [True, False], 'C02-D1', ti.qual, 'verdict = no filter failed (%s)' % norm_text(verdict_e),
                  'the verdict %s is not "no filter failed": empty failed-set -> %s, non-empty -> %s' % (norm_text(verdict_e), outs[0], outs[1]),
                  ti.loc(verdict_e))
    tt = repo.func(UF + ':DemuxURLFilter.test')
    okt = any(isinstance(r, ast.Return) and norm_text(r.value) == "self.test_info(%s, %s)['verdict']" % (tt.params[1], tt.params[2])
              for r in walk_no_nested(tt.node))
    ck.expect(okt, 'C02-D1', tt.qual, "test = test_info(...)['verdict']", 'DemuxURLFilter.test does not return the verdict', tt.loc())

    # ------------------------------------------------------------------ D3
    RULE = 'wpull.processor.rule:FetchRule'
    cf = repo.func(RULE + '.consult_filters')
    it = Interp(repo, cf)
    ti_call = "C0.test_info(P0, P1)"

    def ref_cf(v):
        if not v.T('C0'):
            return True
        return v.T(ti_call + "['verdict']") or (v.T('P2') and v.T('self.is_only_span_hosts_failed(%s)' % ti_call))

    def obs_cf(o, truth):
        if o.kind == 'return' and isinstance(o.value, ast.Tuple) and o.value.elts:
            return bool(truth(o.value.elts[0]))
        return 'other'
    rows, mism, atoms, _ = compare(it, ref_cf, obs_cf)
    ck.expect(not mism, 'C02-D3', cf.qual, 'verdict table (%d rows): filters pass, or redirect with only span-hosts failed' % rows,
              'the filter verdict is overridden outside the documented waiver: [%s] -> code %s, reference %s' % (
                  fmt_val(mism[0][0]) if mism else '', mism[0][1] if mism else '', mism[0][2] if mism else ''), cf.loc())
    oh = repo.func(RULE + '.is_only_span_hosts_failed')
    it = Interp(repo, oh)
    rows, mism, atoms, _ = compare(
        it, lambda v: v.eq('1', "len(P0['failed'])") and v.isin("'SpanHostsFilter'", "P0['map']") and not v.T("P0['map']['SpanHostsFilter']"),
        truthy)
    ck.expect(not mism, 'C02-D3', oh.qual, 'exactly one failure and it is the span-hosts filter (%d rows)' % rows,
              'the waiver test accepts more than "span-hosts is the single failed filter": [%s]' % (fmt_val(mism[0][0]) if mism else ''), oh.loc())
    # verdict handed to the hook
    for name in ('check_subsequent_web_request', 'check_generic_request', 'check_initial_web_request'):
        f = repo.func(RULE + '.' + name)
        it = Interp(repo, f, rename=False)
        for o in it.leaves():
            hook = None
            if o.kind == 'return' and o.value is not None:
                for c in ast.walk(o.value):
                    if isinstance(c, ast.Call) and U.attr_name(c) == 'consult_hook':
                        hook = c
            if hook is None or len(hook.args) < 2:
                ck.bad('C02-D3', f.qual, 'consult_hook(item_session, verdict, ...)', 'the verdict does not pass through consult_hook on [%s]' % fmt_val(o.val), f.loc())
                continue
            varg = hook.args[1]
            vt = norm_text(varg)
            from_filters = isinstance(varg, ast.Subscript) and isinstance(varg.value, ast.Call) and U.attr_name(varg.value) == 'consult_filters' \
                and isinstance(varg.slice, ast.Constant) and varg.slice.value == 0
            robots_false = isinstance(varg, ast.Constant) and varg.value is False
            if from_filters or robots_false:
                if from_filters:
                    c = varg.value
                    a0 = norm_text(c.args[0]) if c.args else ''
                    okargs = a0.endswith('item_session.request.url_info') and len(c.args) >= 2 and norm_text(c.args[1]).endswith('item_session.url_record')
                    red = U.kwarg(c, 'is_redirect', 2)
                    if name == 'check_subsequent_web_request':
                        okargs = okargs and red is not None and norm_text(red) == 'is_redirect'
                    else:
                        okargs = okargs and red is None
                    ck.expect(okargs, 'C02-D3', f.qual, 'filters consulted for the request about to be sent [%s]' % fmt_val(o.val),
                              'the filters are consulted for something other than the pending request (or the redirect flag is mis-wired): %s' % norm_text(c), f.loc())
                else:
                    ck.ok('C02-D3', f.qual, 'robots verdict forces False [%s]' % fmt_val(o.val))
            else:
                ck.bad('C02-D3', f.qual, 'verdict forced to %s when %s' % (vt, fmt_val(o.val)),
                       'the verdict handed on is %s instead of the filters\' verdict when [%s]: out-of-scope URLs are requested' % (vt, fmt_val(o.val)),
                       f.loc())
    ch = repo.func(RULE + '.consult_hook')
    it = Interp(repo, ch, rename=False)
    okh = True
    for o in it.leaves():
        disc = [v for k, v in o.val.items() if k[0] == 'raises']
        if disc and disc[0] != 'no':
            if not (o.kind == 'return' and isinstance(o.value, ast.Tuple) and norm_text(o.value.elts[0]) == ch.params[2]):
                okh = False
    ck.expect(okh, 'C02-D3', ch.qual, 'without a hook the verdict is returned unchanged', 'consult_hook alters the verdict when no hook is connected', ch.loc())
    # is_redirect at the caller
    WEB = 'wpull.processor.web:WebProcessorSession'
    sf = repo.func(WEB + '._should_fetch_reason')
    it = Interp(repo, sf, rename=False)
    okr = True
    rows = 0
    for o in it.leaves():
        rows += 1
        call = o.value if o.kind == 'return' and isinstance(o.value, ast.Call) else None
        if call is None or U.attr_name(call) != 'check_subsequent_web_request':
            okr = False
            continue
        red = U.kwarg(call, 'is_redirect', 1)
        strong = o.val.get(('T', 'self._strong_redirects'))
        if red is None:
            okr = False
        elif isinstance(red, ast.Constant):
            okr = okr and red.value is False
        else:
            okr = okr and strong is True and norm_text(red).endswith('redirect_tracker.is_redirect()')
    ck.expect(okr and rows >= 2, 'C02-D3', sf.qual, 'is_redirect only under strong redirects and tracker.is_redirect() (%d rows)' % rows,
              'the redirect waiver can be requested without strong redirects / without an actual redirect', sf.loc())
    wsi = repo.func(WEB + '.__init__')
    ck.expect(any(norm_text(s) == 'self._strong_redirects = self._processor.fetch_params.strong_redirects' for s in walk_no_nested(wsi.node) if isinstance(s, ast.Assign)),
              'C02-D3', wsi.qual, 'strong_redirects taken from the fetch parameters', 'strong_redirects wiring changed', wsi.loc())
    from .common import option_wiring_lint
    option_wiring_lint(ctx, 'C02-D3', ['WebProcessorFetchParams'], only=('strong_redirects',))

    # ------------------------------------------------------------------ D4
    pl = repo.func(WEB + '._process_loop')
    cfg = ctx.cfg(pl)
    fetch = F.stmt_nodes_where(cfg, F.has_call('_fetch_one'))
    head = [n for n in cfg.nodes if n.kind == 'while']
    if len(fetch) != 1 or len(head) != 1:
        ck.bad('C02-D4', pl.qual, 'while ...: verdict; _fetch_one', 'fetch loop shape not recognised', pl.loc())
    else:
        fetch, head = fetch[0], head[0]
        d = U.local_defs(pl.node)
        guards = []
        for n in cfg.nodes:
            if n.kind == 'if':
                t = n.stmt.test
                if isinstance(t, ast.UnaryOp) and isinstance(t.op, ast.Not) and isinstance(t.operand, ast.Name):
                    defs = d.get(t.operand.id, [])
                    if defs and all(k == 'tuple:0' and v is not None and norm_text(v) == 'self._should_fetch_reason()' for v, k, s in defs):
                        guards.append((n, 'F'))
                elif isinstance(t, ast.Name):
                    defs = d.get(t.id, [])
                    if defs and all(k == 'tuple:0' and v is not None and norm_text(v) == 'self._should_fetch_reason()' for v, k, s in defs):
                        guards.append((n, 'T'))
        okd = False
        for g, pass_edge in guards:
            p = cfg.find_path(head, lambda m: m is fetch, edge_ok=lambda a, b, k: F.normal(a, b, k) and not (a is g and k != pass_edge),
                              stop=lambda m: False)
            p_bypass = cfg.find_path(head, lambda m: m is fetch, edge_ok=lambda a, b, k: F.normal(a, b, k), stop=lambda m: m is g)
            p_fail = cfg.find_path(g, lambda m: m is fetch, edge_ok=lambda a, b, k: F.normal(a, b, k),
                                   first_edges=lambda a, b, k: k != pass_edge, stop=lambda m: m is head)
            # the verdict is computed inside the loop, between the header and the guard
            sfr = F.stmt_nodes_where(cfg, F.has_call('_should_fetch_reason'))
            fresh = all(cfg.find_path(head, lambda m: m is g, edge_ok=F.normal, stop=lambda m, s=s: m is s) is None for s in sfr) and bool(sfr)
            if p is not None and p_bypass is None and p_fail is None and fresh:
                okd = True
        ck.expect(okd, 'C02-D4', pl.qual, '_fetch_one dominated, per iteration, by a true _should_fetch_reason() verdict',
                  'a redirect hop (or the first request) can be fetched without a fresh true filter verdict', pl.loc(fetch.stmt))
        # the request checked is the one fetched
        from .common import current_request_rule
        current_request_rule(ctx, 'C02-D4')
    pr = repo.func(WEB + '._process_robots')
    rcfg = ctx.cfg(pr)
    ret_true = [n for n in rcfg.nodes if n.kind == 'return' and not (isinstance(n.stmt.value, ast.Constant) and not n.stmt.value.value)]
    okp = bool(ret_true) and all(isinstance(n.stmt.value, ast.Constant) and n.stmt.value.value is True for n in ret_true) \
        and _gated_by_verdict(rcfg, pr, lambda v, k: v is not None and '_should_fetch_reason_with_robots' in norm_text(v) and k == 'tuple:0', ret_true)
    ck.expect(okp, 'C02-D4', pr.qual, 'returns True only after a true filters+robots verdict',
              '_process_robots can report "go ahead" without a true verdict', pr.loc())
    pp = repo.func(WEB + '.process')
    pcfg = ctx.cfg(pp)
    loopcall = F.stmt_nodes_where(pcfg, F.has_call('_process_loop'))
    okgate = bool(loopcall) and _gated_by_verdict(pcfg, pp, lambda v, k: v is not None and norm_text(v) == 'yield from self._process_robots()' and k == 'assign',
                                                  loopcall)
    ck.expect(okgate, 'C02-D4', pp.qual, 'the fetch loop runs only after _process_robots() said yes',
              'WebProcessorSession.process can start fetching without the initial verdict', pp.loc())
    FTP = 'wpull.processor.ftp:FTPProcessorSession'
    fp = repo.func(FTP + '.process')
    fcfg = ctx.cfg(fp)
    d = U.local_defs(fp.node)
    fetchers = F.stmt_nodes_where(fcfg, lambda n: bool(F.node_calls(n, '_fetch')) or bool(F.node_calls(n, '_prepare_request_file_vs_dir')))
    okf = False
    for n in fcfg.nodes:
        if n.kind == 'if' and isinstance(n.stmt.test, ast.UnaryOp) and isinstance(n.stmt.test.op, ast.Not) and isinstance(n.stmt.test.operand, ast.Name):
            defs = d.get(n.stmt.test.operand.id, [])
            if defs and all(v is not None and norm_text(v) == 'self._fetch_rule.check_ftp_request(self._item_session)[0]' for v, k, s in defs) \
                    and n.stmt.body and isinstance(n.stmt.body[-1], ast.Return):
                byp = [fcfg.find_path(fcfg.entry, lambda m, l=l: m is l, edge_ok=lambda a, b, k: True, stop=lambda m: m is n) for l in fetchers]
                okf = bool(fetchers) and all(b is None for b in byp)
    ck.expect(okf, 'C02-D4', fp.qual, 'FTP fetch (and the file-vs-directory probe) only after a true check_ftp_request verdict',
              'the FTP processor can contact the server without a true verdict', fp.loc())
    # who may start a protocol session, and for which URL
    STARTERS = {'start', 'start_listing'}
    allowed = {
        WEB + '._fetch_one': 'guarded by _process_loop (above)',
        FTP + '._fetch': 'guarded by process (above)',
        'wpull.protocol.http.robots:RobotsTxtChecker.fetch_robots_txt': 'documented exception: the robots.txt control file',
        'wpull.protocol.http.web:WebSession.start': 'callee of the guarded sites',
        'wpull.protocol.http.web:WebClient.session': 'constructor',
    }
    for f in repo.funcs.values():
        mname = f.module.name
        if not (mname.startswith('wpull.processor') or mname.startswith('wpull.protocol.http.robots') or mname.startswith('wpull.proxy')):
            continue
        for c in U.calls(f.node):
            if U.attr_name(c) in STARTERS and isinstance(c.func, ast.Attribute) and 'session' in norm_text(c.func.value).lower():
                if f.qual in allowed:
                    ck.ok('C02-D4', f.qual, '%s: %s' % (norm_text(c)[:60], allowed[f.qual]))
                    if f.qual.endswith('RobotsTxtChecker.fetch_robots_txt'):
                        _robots_hops(ctx, f, c)
                        _robots_origin(ctx, f)
                elif f.qual == FTP + '._fetch_parent_path':
                    # the request listed is the parent directory of the item, not the item the verdict was computed for
                    ck.bad('C02-D4', f.qual, 'start_listing(parent directory) without a filter verdict',
                           'lists the parent directory of the item (ftp://host/a/ for ftp://host/a/b) although no filter verdict exists '
                           'for that URL: under --no-parent / directory filters an out-of-scope directory is requested', f.loc(c))
                elif mname.startswith('wpull.proxy'):
                    ck.ok('C02-D4', f.qual, '%s: proxy traffic, judged through the client_request hook (see virtual-item finding)' % norm_text(c)[:50])
                else:
                    ck.bad('C02-D4', f.qual, norm_text(c)[:80], 'a protocol session is started from a function that is not known to be guarded by a filter verdict', f.loc(c))

    from .common import robots_after_verdict_rule
    robots_after_verdict_rule(ctx, 'C02-D4')
    # list options (-A, -X, -I, --hostnames, --domains ...) reach their filters as typed: the converter splits at commas and strips
    # blanks, nothing else (directory and suffix lists are case-sensitive)
    cl = repo.func('wpull.application.options:AppArgumentParser.comma_list')
    allowed = {'split', 'strip', 'list', 'tuple', 'filter'}
    extra = sorted({(U.attr_name(c) or (c.func.id if isinstance(c.func, ast.Name) else '?')) for c in U.calls(cl.node)
                    if not (dotted(c.func) or '').startswith(('_logger.', 'logger.', 'logging.'))} - allowed)
    ck.expect(not extra, 'C02-D5', cl.qual, 'comma_list: split(",") and strip() only',
              'the list converter also applies %s to every item: a directory, suffix or host given with other spelling no longer matches the '
              'URLs it was meant for (-X /Private becomes /private and /Private/... is crawled)' % extra, cl.loc())
    # an empty item (`-D example.com,`) would match every host / directory / suffix: the converter drops it
    drops = any(isinstance(x, (ast.ListComp, ast.GeneratorExp)) and any(g.ifs for g in x.generators) for x in ast.walk(cl.node)) \
        or any(isinstance(c, ast.Call) and isinstance(c.func, ast.Name) and c.func.id == 'filter' for c in ast.walk(cl.node))
    ck.expect(drops, 'C02-D5', cl.qual, 'comma_list drops empty items',
              'an empty item survives (`-D example.com,` gives [\'example.com\', \'\']): every host ends with \'\' and every path lies below \'\', so the '
              'domain / directory / suffix filter accepts everything it was meant to keep out', cl.loc())
    from .common import hostnames_agreement_rule
    hostnames_agreement_rule(ctx, 'C02-D5')
    from .common import prefilter_judges_child_rule
    prefilter_judges_child_rule(ctx, 'C02-D4')

    # ------------------------------------------------------------------ D6
    from .common import child_record_rules
    ck.rule('C02-D6', 'link records carry the depth / inline depth / parent / root the filters rely on: add_child_url and '
                      'child_url_record compute them from the parent record in the documented way and agree with each other')
    child_record_rules(ctx, 'C02-D6')
    # ... and the record read back from the table carries the parent / root that were stored (shared schema rule of C14)
    from . import c14 as _c14
    from .common import RemapCtx as _RemapCtx
    _c14.d1_schema(_RemapCtx(ctx, {'C14-D1': 'C02-D6'}))

    # ------------------------------------------------------------------ D5
    TASK = 'wpull.application.tasks.rule'
    bf = repo.func(TASK + ':URLFiltersSetupTask._build_url_filters')
    it = Interp(repo, bf, rename=False)
    d = U.local_defs(bf.node)
    argsname = None
    for name, ds in d.items():
        if any(v is not None and norm_text(v).endswith('session.args') for v, k, s in ds):
            argsname = name
    if argsname is None:
        raise AnalysisError('_build_url_filters: args local not found')
    A = argsname
    wiring = {
        'ParentFilter': ('%s.no_parent' % A, 'ParentFilter()'),
        'BackwardDomainFilter': ('%s.domains or %s.exclude_domains' % (A, A), 'BackwardDomainFilter(%s.domains, %s.exclude_domains)' % (A, A)),
        'HostnameFilter': ('%s.hostnames or %s.exclude_hostnames' % (A, A), 'HostnameFilter(%s.hostnames, %s.exclude_hostnames)' % (A, A)),
        'TriesFilter': ('%s.tries' % A, 'TriesFilter(%s.tries)' % A),
        'LevelFilter': ('%s.level and %s.recursive or %s.page_requisites_level' % (A, A, A),
                        'LevelFilter(%s.level, inline_max_depth=%s.page_requisites_level)' % (A, A)),
        'RegexFilter': ('%s.accept_regex or %s.reject_regex' % (A, A), 'RegexFilter(%s.accept_regex, %s.reject_regex)' % (A, A)),
        'DirectoryFilter': ('%s.include_directories or %s.exclude_directories' % (A, A),
                            'DirectoryFilter(%s.include_directories, %s.exclude_directories)' % (A, A)),
        'BackwardFilenameFilter': ('%s.accept or %s.reject' % (A, A), 'BackwardFilenameFilter(%s.accept, %s.reject)' % (A, A)),
    }
    found = {}
    for i in walk_no_nested(bf.node):
        if isinstance(i, ast.If) and not i.orelse:
            for b in i.body:
                for c in U.calls(b, attr='append'):
                    if c.args and isinstance(c.args[0], ast.Call):
                        cname = dotted(c.args[0].func)
                        found[cname] = (i.test, c.args[0], c)
    for cname, (cond, ctor) in wiring.items():
        if cname not in found:
            ck.bad('C02-D5', bf.qual, '%s appended when %s' % (cname, cond.replace(A + '.', 'args.')),
                   'option wiring: %s is never added to the filter list' % cname, bf.loc())
            continue
        t, call, app = found[cname]
        # pure single-definition locals (`tries = args.tries`) are read through
        t = U.expand_locals(bf.node, t, d, skip=(A,))
        call = ast.copy_location(U.expand_locals(bf.node, call, d, skip=(A,)), call)
        okc = _same_bool(it, t, cond)
        okk = _same_call(repo, call, ctor)
        oklist = norm_text(app.func.value) in d and True
        ck.expect(okc and okk, 'C02-D5', bf.qual, '%s when %s' % (ctor.replace(A + '.', 'args.'), cond.replace(A + '.', 'args.')),
                  'option wiring for %s changed: condition `%s`, construction `%s`' % (cname, norm_text(t), norm_text(call)), bf.loc(call))
    extra = set(found) - set(wiring)
    for cname in sorted(extra):
        ck.bad('C02-D5', bf.qual, 'unexpected conditional filter ' + str(cname), 'unknown filter class appended', bf.loc())
    # unconditional head of the list
    lists = [v for name, ds in d.items() for v, k, s in ds if isinstance(v, ast.List)]
    okhead = False
    if lists:
        el = [norm_text(e) for e in lists[0].elts]
        want = ['HTTPSOnlyFilter() if %s.https_only else SchemeFilter()' % A,
                'RecursiveFilter(enabled=%s.recursive, page_requisites=%s.page_requisites)' % (A, A),
                'FollowFTPFilter(follow=%s.follow_ftp)' % A]
        okhead = sorted(el) == sorted(want) or all(any(_same_call(repo, e, w) for e in lists[0].elts if isinstance(e, ast.Call)) for w in want[1:]) and want[0] in el
    ck.expect(okhead, 'C02-D5', bf.qual, 'scheme/https-only, recursive, follow-ftp filters always present',
              'the unconditional filters (scheme, recursion, follow-ftp) changed', bf.loc())
    rets = [r for r in walk_no_nested(bf.node) if isinstance(r, ast.Return)]
    okret = len(rets) == 1 and isinstance(rets[0].value, ast.Name) and all(
        isinstance(v, ast.List) for v, k, s in d.get(rets[0].value.id, []) if v is not None)
    appended_to = {norm_text(app.func.value) for (_, _, app) in found.values()}
    okret = okret and appended_to == {rets[0].value.id}
    ck.expect(okret, 'C02-D5', bf.qual, 'all filters appended to the list that is returned', 'filters are appended to a different list than the one returned', bf.loc())
    st = repo.func(TASK + ':URLFiltersSetupTask.process')
    ck.expect(any(norm_text(c) == "session.factory.new('DemuxURLFilter', self._build_url_filters(session))" for c in U.calls(st.node)),
              'C02-D5', st.qual, 'DemuxURLFilter built from _build_url_filters', 'the demux filter is not built from the filter list', st.loc())
    sp = repo.func(TASK + ':URLFiltersPostURLImportSetupTask.process')
    sh = [c for c in U.calls(sp.node) if dotted(c.func) == 'SpanHostsFilter']
    oks = len(sh) == 1
    if oks:
        c = sh[0]
        a = U.local_defs(sp.node)
        an = [n for n, ds in a.items() if any(v is not None and norm_text(v) == 'session.args' for v, k, s in ds)]
        an = an[0] if an else 'session.args'
        oks = _same_call(repo, c, "SpanHostsFilter(tuple(session.factory['URLTable'].get_hostnames()), enabled=%s.span_hosts, "
                                  "page_requisites='page-requisites' in %s.span_hosts_allow, linked_pages='linked-pages' in %s.span_hosts_allow)" % (an, an, an))
    apps = [c for c in U.calls(sp.node, attr='append')]
    okapp = any(U.expand_locals(sp.node, c.func.value) is not None and norm_text(U.expand_locals(sp.node, c.func.value)) == "session.factory['DemuxURLFilter'].url_filters"
                for c in apps)
    ck.expect(oks and okapp, 'C02-D5', sp.qual, 'SpanHostsFilter(start hostnames, span options) appended to DemuxURLFilter.url_filters',
              'the span-hosts filter is mis-constructed or not added to the list the demux filter iterates', sp.loc())
    uf = repo.func(UF + ':DemuxURLFilter.url_filters')
    ck.expect(any(isinstance(r, ast.Return) and norm_text(r.value) == 'self._url_filters' for r in walk_no_nested(uf.node)), 'C02-D5', uf.qual,
              'url_filters exposes the iterated list itself', 'url_filters returns a copy: appended filters are not consulted', uf.loc())
    # the span-hosts task runs before the download pipeline, and FetchRule receives the demux filter
    from .common import pipeline_tasks
    order = pipeline_tasks(repo)
    flat = [t for _, ts in order for t in ts]
    try:
        oko = flat.index('URLFiltersSetupTask') < flat.index('URLFiltersPostURLImportSetupTask') < flat.index('ProcessTask') \
            and flat.index('InputURLTask') < flat.index('URLFiltersPostURLImportSetupTask')
    except ValueError:
        oko = False
    ck.expect(oko, 'C02-D5', 'wpull.application.builder:Builder', 'filters set up, start URLs imported, span-hosts filter added, then the crawl',
              'pipeline order of the filter set-up tasks changed: %s' % flat)
    fr = None
    for f in repo.funcs.values():
        for c in U.calls(f.node):
            if U.attr_name(c) == 'new' and c.args and isinstance(c.args[0], ast.Constant) and c.args[0].value == 'FetchRule':
                fr = (f, c)
    okfr = fr is not None and norm_text(U.expand_locals(fr[0].node, U.kwarg(fr[1], 'url_filter') or ast.Constant(value=None))).endswith("factory['DemuxURLFilter']")
    ck.expect(okfr, 'C02-D5', fr[0].qual if fr else 'FetchRule construction', "FetchRule(url_filter=factory['DemuxURLFilter'])",
              'FetchRule is not given the demux filter', fr[0].loc(fr[1]) if fr else '')
    # host names compare case-insensitively and URLInfo.hostname is lower case: the lists of the two host-name filters must be lower
    # case by the time they are compared - lowered by the filter itself, or by the option's type function
    optm = repo.module('wpull.application.options')

    def lowered_by_option(dest):
        for c in ast.walk(optm.tree):
            if isinstance(c, ast.Call) and U.attr_name(c) == 'add_argument' and any(
                    isinstance(a, ast.Constant) and a.value == '--' + dest.replace('_', '-') for a in c.args):
                t = U.kwarg(c, 'type')
                if t is not None and isinstance(t, ast.Attribute):
                    for fn in repo.funcs.values():
                        if fn.module is optm and fn.name == t.attr:
                            return any(isinstance(x, ast.Attribute) and x.attr in ('lower', 'casefold') for x in ast.walk(fn.node))
        return False
    for cname, dests in (('HostnameFilter', ('hostnames', 'exclude_hostnames')), ('BackwardDomainFilter', ('domains', 'exclude_domains'))):
        ci = repo.cls(UF + ':' + cname)
        init = ci.methods['__init__']
        params = [p_ for p_ in init.params if p_ != 'self']
        for p_, dest in zip(params, dests):
            low = False
            for st in walk_no_nested(init.node):
                if isinstance(st, ast.Assign) and any(U.is_self_attr(t) for t in st.targets) and any(isinstance(x, ast.Name) and x.id == p_ for x in ast.walk(st.value)):
                    low = any(isinstance(x, ast.Attribute) and x.attr in ('lower', 'casefold') for x in ast.walk(st.value))
            # ... or at the comparison
            tm = ci.methods['test']
            cmp_low = any(isinstance(x, ast.Attribute) and x.attr in ('lower', 'casefold') and not (isinstance(x.value, ast.Attribute) and x.value.attr == 'hostname')
                          for m_ in ci.methods.values() if m_.name != '__init__' for x in ast.walk(m_.node))
            ck.expect(low or cmp_low or lowered_by_option(dest), 'C02-D5', init.qual, '%s: the list is compared in lower case' % p_,
                      '--%s Example.COM is compared as typed with the lower-case host name of each URL: the entry never matches, so an excluded '
                      'host is crawled (and an accepted one is not)' % dest.replace('_', '-'), init.loc())


def _gated_by_verdict(cfg, fi, is_verdict_def, goals):
    """Every path from the entry to a goal node passes an assignment `V = <verdict>` (all definitions of V satisfy
    is_verdict_def(value, kind)), and no path from such an assignment that is consistent with V being falsy reaches a goal."""
    d = U.local_defs(fi.node)
    names = [n for n, defs in d.items() if defs and all(is_verdict_def(v, k) for v, k, s in defs)]
    for v in names:
        stmts = [s for _, _, s in d[v]]
        anodes = [n for n in cfg.nodes if n.kind == 'stmt' and any(n.stmt is s for s in stmts)]
        if not anodes:
            continue
        ok = True
        for g in goals:
            if cfg.find_path(cfg.entry, lambda m, g=g: m is g, edge_ok=lambda a, b, k: True, stop=lambda m: m in anodes) is not None:
                ok = False
            for a in anodes:
                if F.feasible_path(cfg, a, lambda m, g=g: m is g, edge_ok=F.normal, init={(v, 0): frozenset({'eq'})}) is not None:
                    ok = False
        if ok:
            return True
    return False


def _same_bool(it, test, ref_src):
    """Truth-table equality of two boolean expressions over their (textual) atoms."""
    ref = ast.parse(ref_src, mode='eval').body
    stack = [{}]
    n = 0
    while stack:
        val = stack.pop()
        try:
            a = it.truth(test, val)
            b = it.truth(ref, val)
        except _Need as need:
            for dv in need.domain:
                v2 = dict(val)
                v2[need.key] = dv
                stack.append(v2)
            continue
        n += 1
        if a != b:
            return False
        if n > 4096:
            return False
    return True


def _same_call(repo, call, ref_src):
    """Same callee and same argument binding (positional vs keyword spelled either way
    is resolved through the callee's signature when it is a repository class)."""
    ref = ast.parse(ref_src, mode='eval').body
    if not isinstance(call, ast.Call) or dotted(call.func) != dotted(ref.func):
        return False

    def bind(c):
        params = None
        for ci in repo.classes.values():
            if ci.name == dotted(c.func) and ci.module.name == UF:
                init = repo.find_method(ci, '__init__')
                if init is not None:
                    params = [p for p in init.params if p != 'self']
        out = {}
        for i, a in enumerate(c.args):
            key = params[i] if params and i < len(params) else i
            out[key] = norm_text(a)
        for k in c.keywords:
            out[k.arg] = norm_text(k.value)
        return out
    return bind(call) == bind(ref)


def _robots_hops(ctx, f, start_call):
    """The exception made for robots.txt covers the control file of the origin being visited.  The request is made through a web
    session, which follows redirects: when the start sits in a loop over `session.done()`, every later iteration requests whatever
    the redirect names.  Necessary for any restriction of those hops: between the loop head and the start the code looks at the next
    request (next_request() / the redirect tracker) or asks for a verdict."""
    ck = ctx.check
    cfg = ctx.cfg(f)
    loops = [n for n in cfg.nodes if n.kind == 'while' and any(U.attr_name(c) == 'done' for c in U.calls(n.stmt.test))]
    starts = [n for n in cfg.stmt_nodes() if any(c is start_call for c in F.node_calls(n))]
    if not starts:
        raise AnalysisError('fetch_robots_txt: start call not found in the flow graph')
    inside = [lp for lp in loops if any(x is starts[0].stmt or any(y is starts[0].stmt for y in ast.walk(x)) for x in lp.stmt.body)]
    if not inside:
        ck.ok('C02-D4', f.qual, 'robots.txt request is made once (no redirect loop)')
        return

    def looks(n):
        # a look at *where* the next request goes: a filter verdict, or the host of the next request / redirect target (a test of its
        # scheme alone says nothing about the host set)
        e = F.node_expr(n) if hasattr(F, 'node_expr') else None
        if e is None:
            from ..locks import node_expr
            e = node_expr(n)
        if e is None:
            return False
        for c in U.calls(e):
            if U.attr_name(c) in ('consult_filters', 'test', 'test_info'):
                return True
        nxt = any(U.attr_name(c) in ('next_request', 'next_location') for c in U.calls(e)) or any(
            isinstance(y, ast.Attribute) and y.attr == 'redirect_tracker' for y in ast.walk(e))
        host = any(isinstance(y, ast.Attribute) and y.attr in ('hostname', 'hostname_with_port', 'host', 'authority') for y in ast.walk(e))
        if nxt and host:
            return True
        # ... or of a local that holds the next request
        names = {y.id for y in ast.walk(e) if isinstance(y, ast.Name)}
        holds = {nm for nm, ds in U.local_defs(f.node).items() for v, k, st in ds if v is not None and any(
            isinstance(c, ast.Call) and U.attr_name(c) in ('next_request', 'next_location') for c in ast.walk(v))}
        return bool(host and names & holds)
    p = cfg.find_path(inside[0], lambda x: x is starts[0], edge_ok=F.normal, stop=looks)
    ck.expect(p is None, 'C02-D4', f.qual, 'redirect hops of the robots.txt request are inspected before they are requested',
              'the robots.txt request follows redirects to any host and path (the loop restarts the session without looking at the next '
              'request): a URL that is neither the control file of the origin nor accepted by the filters is requested', f.loc(start_call))


def _robots_origin(ctx, f):
    """The exception covers the control file *of the origin being visited*: scheme, host and port of the robots.txt URL are
    those of the request (hostname_with_port, not hostname: another port is another origin, one that no filter was asked about)."""
    ck = ctx.check
    from .c20 import _str_parts, _merge_parts
    n = 0
    for e in walk_no_nested(f.node):
        # any spelling of the string: '{}://{}/robots.txt'.format(a, b), '%s://%s/robots.txt' % (a, b), a + '://' + b + '/robots.txt'
        if not isinstance(e, (ast.Call, ast.BinOp)):
            continue
        try:
            parts = _str_parts(e)
        except Exception:
            parts = None
        if not parts:
            continue
        merged = _merge_parts(parts)
        if not any(k == 'lit' and 'robots.txt' in v for k, v in merged):
            continue
        n += 1
        syms = [v for k, v in merged if k == 'sym']
        lits = [v for k, v in merged if k == 'lit']
        ok = lits == ['://', '/robots.txt'] and len(syms) == 2 and syms[0].endswith('.scheme') and syms[1].endswith('.hostname_with_port') \
            and syms[0].rsplit('.', 1)[0] == syms[1].rsplit('.', 1)[0]
        ck.expect(ok, 'C02-D4', f.qual, "robots.txt URL = <scheme>://<hostname_with_port>/robots.txt of the request",
                  'robots.txt is requested from %s: not the origin (scheme, host, port) of the URL being visited'
                  % ' + '.join(v if k == 'sym' else repr(v) for k, v in merged)[:110], f.loc(e))
        break
    if n == 0:
        ck.bad('C02-D4', f.qual, 'robots.txt URL built from the request', 'the construction of the robots.txt URL was not recognised', f.loc())
