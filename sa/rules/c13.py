"""C13 - the pipeline runs every item through every task once, and always finishes.

Loop discipline of the worker, accounting pairs, wake-ups under the condition,
poison-pill discipline, failure surfaces, the pipeline state machine and the stop
wiring (DESIGN.md section 3, C13-D1..D7).
"""
import ast

from ..index import dotted, walk_no_nested, norm_text, AnalysisError
from ..cfg import describe_path
from .. import util as U
from .. import locks as L
from .. import flow as F
from ..dtable import Interp, fmt_val, same_bool

PIPE = 'wpull.pipeline.pipeline'


def run(ctx):
    repo, ck, res = ctx.repo, ctx.check, ctx.res
    mod = repo.module(PIPE)
    ck.assume('asyncio semantics of CPython 3.4-3.6 (cooperative scheduling); stop is cooperative, no code path cancels '
              'the queue coroutines')
    ck.assume('decides structure on all paths; completion for every interleaving and latency is a statement about executions')
    ck.rule('C13-D1', 'Worker.process_one: the item comes from the queue, a poison pill returns before any task, one loop '
                      'over the task sequence awaits task.process(item) once per element with no skip/repeat, item_done() '
                      'follows the loop on every normal path; only the producer puts items, taken from the item source')
    ck.rule('C13-D2', 'unfinished-item count: +1 only together with the enqueue, -1 only in item_done; the producer stops '
                      'exactly when there is no item and nothing is unfinished, otherwise waits for a worker')
    ck.rule('C13-D3', 'get and item_done notify the producer under the condition on every normal path; inside held regions '
                      'the only suspension is wait() on the same condition; the producer blocks while the queue is non-empty')
    ck.rule('C13-D4', 'poison pills have strictly higher priority than items in a PriorityQueue; stop enqueues one pill per '
                      'live worker; the concurrency setter rejects negatives and sends |change| pills when shrinking, one when growing')
    ck.rule('C13-D5', 'a worker failure is re-raised (task.result() for every finished task), a producer failure stops the '
                      'pipeline and re-raises, shutdown awaits the workers and then the producer')
    ck.rule('C13-D6', 'writers of Pipeline._state form stopped->running->stopping->stopped; the worker loop runs only while running')
    ck.rule('C13-D7', 'Application.stop reaches the current pipeline\'s stop(); the first SIGINT stops gracefully, the second forcefully')
    ck.rule('C13-D8', 'nothing the pipeline can be parked on outlives a stop: (a) every writer of a non-running state also sets the '
                      'un-pause event the supervisor loop may be waiting on; (b) that event is set only under a non-zero concurrency or '
                      'together with a non-running state, so the supervisor loop cannot spin without suspending; (c) before the '
                      'producer task is awaited at shutdown, a producer blocked behind a queued item is released (queue drained or task cancelled); '
                      '(d) a semaphore or condition taken by hand in an item task or pipeline helper is released on every feasible normal path')

    IQ = PIPE + ':ItemQueue'
    # ------------------------------------------------------------------ D1
    po = repo.func(PIPE + ':Worker.process_one')
    cfg = ctx.cfg(po)
    gets = F.stmt_nodes_where(cfg, F.has_call('get', recv='self._item_queue'))
    ok = len(gets) == 1 and isinstance(gets[0].stmt, ast.Assign) and isinstance(gets[0].stmt.targets[0], ast.Name)
    if not ok:
        ck.bad('C13-D1', po.qual, 'item = yield from self._item_queue.get()', 'the worker does not take exactly one item from the queue', po.loc())
        return
    item = gets[0].stmt.targets[0].id
    ck.ok('C13-D1', po.qual, 'item obtained once from the queue')
    redef = [d for d in U.local_defs(po.node).get(item, []) if d[2] is not gets[0].stmt]
    ck.expect(not redef, 'C13-D1', po.qual, 'the item variable is not reassigned', 'the item variable is reassigned before the tasks run', po.loc())
    loops = [n for n in walk_no_nested(po.node) if isinstance(n, (ast.For, ast.While))]
    okl = len(loops) == 1 and isinstance(loops[0], ast.For) and norm_text(loops[0].iter) == 'self._tasks' and not loops[0].orelse
    if okl:
        lp = loops[0]
        body = [b for b in lp.body if not (isinstance(b, ast.Expr) and isinstance(b.value, ast.Call)
                                            and (dotted(b.value.func) or '').startswith('_logger.'))]
        okl = len(body) == 1 and isinstance(body[0], ast.Expr) and isinstance(body[0].value, (ast.YieldFrom, ast.Await)) \
            and norm_text(body[0].value.value) == '%s.process(%s)' % (norm_text(lp.target), item)
        okl = okl and not any(isinstance(x, (ast.If, ast.Break, ast.Continue, ast.Return, ast.Try)) for b in lp.body for x in ast.walk(b))
    ck.expect(okl, 'C13-D1', po.qual, 'for task in self._tasks: yield from task.process(item)',
              'the task loop can skip, repeat or reorder tasks (expected a single unconditional loop over self._tasks '
              'awaiting task.process(item))', po.loc(loops[0]) if loops else po.loc())
    if loops:
        lp_nodes = cfg.nodes_of(loops[0])
        # poison check dominates the loop
        dom = cfg.dominators()
        pchecks = [n for n in cfg.nodes if n.kind == 'if' and isinstance(n.stmt.test, ast.Compare)
                   and {norm_text(n.stmt.test.left), norm_text(n.stmt.test.comparators[0])} == {item, 'POISON_PILL'}
                   and isinstance(n.stmt.test.ops[0], (ast.Eq, ast.Is))]
        okp = len(pchecks) == 1 and all(pchecks[0].id in dom[n.id] for n in lp_nodes) \
            and len(pchecks[0].stmt.body) == 1 and isinstance(pchecks[0].stmt.body[0], ast.Return) and not pchecks[0].stmt.orelse
        ck.expect(okp, 'C13-D1', po.qual, 'if item == POISON_PILL: return item  (before the task loop)',
                  'a poison pill is not recognised before the tasks run', po.loc())
        # item_done after the loop on every normal path
        for n in lp_nodes:
            p = cfg.find_path(n, lambda m: m is cfg.exit, edge_ok=lambda a, b, k: k == 'done' if a is n else F.normal(a, b, k),
                              stop=F.has_call('item_done', recv='self._item_queue'))
            ck.expect(p is None, 'C13-D1', po.qual, 'item_done() after the task loop on every normal path',
                      'an item can finish all tasks without being counted as done: the producer waits forever', po.loc(),
                      path=describe_path(p) if p else None)
        dones = [c for c in U.calls(po.node, attr='item_done')]
        ck.expect(len(dones) == 1 and dones[0].lineno > loops[0].end_lineno, 'C13-D1', po.qual, 'exactly one item_done(), after the loop',
                  'item_done() is called %d times or before the tasks' % len(dones), po.loc())
    # who may put items
    putters = []
    for f in repo.funcs.values():
        if f.module.name.startswith('wpull.') and 'thirdparty' not in f.module.name:
            for c in U.calls(f.node, attr='put_item'):
                putters.append((f, c))
    okw = len(putters) == 1 and putters[0][0].qual == PIPE + ':Producer.process_one'
    ck.expect(okw, 'C13-D1', PIPE, 'only Producer.process_one calls put_item',
              'put_item is called from %s' % [f.qual for f, _ in putters])
    if okw:
        f, c = putters[0]
        d = U.local_defs(f.node)
        arg = c.args[0] if c.args else None
        oks = isinstance(arg, ast.Name) and len(d.get(arg.id, [])) == 1 and d[arg.id][0][0] is not None \
            and norm_text(d[arg.id][0][0]).endswith('self._item_source.get_item()')
        ck.expect(oks, 'C13-D1', f.qual, 'put_item(item) with item = yield from self._item_source.get_item()',
                  'the producer enqueues something other than what the source supplied', f.loc(c))
    # tasks sequence is the constructor argument
    wk = repo.cls(PIPE + ':Worker')
    stores = [(m, s) for m in wk.methods.values() for s in F.assigned_attrs(m.node, '_tasks')]
    ck.expect(len(stores) == 1 and stores[0][0].name == '__init__' and isinstance(stores[0][1].value, ast.Name), 'C13-D1', wk.qual,
              'self._tasks assigned once from the constructor argument', 'Worker._tasks is rewritten after construction', wk.qual)
    pl_init = repo.func(PIPE + ':Pipeline.__init__')
    okt = any(norm_text(c) == 'Worker(self._item_queue, tasks)' for c in U.calls(pl_init.node)) and any(
        norm_text(c) == 'Producer(item_source, self._item_queue)' for c in U.calls(pl_init.node))
    ck.expect(okt, 'C13-D1', pl_init.qual, 'worker gets the task list, producer the source, both the same queue',
              'Pipeline wiring of worker/producer/queue changed', pl_init.loc())

    # ------------------------------------------------------------------ D2
    iq = repo.cls(IQ)
    writers = {}
    for m in iq.methods.values():
        for s in F.assigned_attrs(m.node, '_unfinished_items'):
            st_ = U.step_of(s)
            writers.setdefault(m.name, []).append('self._unfinished_items %s= %d' % ('+' if st_[1] > 0 else '-', abs(st_[1]))
                                                   if st_ is not None and U.is_self_attr(st_[0], '_unfinished_items') else norm_text(s))
    want = {'__init__': ['self._unfinished_items = 0'], 'put_item': ['self._unfinished_items += 1'],
            'item_done': ['self._unfinished_items -= 1']}
    ck.expect(writers == want, 'C13-D2', IQ, 'writers of _unfinished_items: %s' % writers,
              'the unfinished-item count is written by %s (expected +1 in put_item, -1 in item_done)' % writers)
    for f in repo.funcs.values():
        if f.cls is None or f.cls.qual != IQ:
            for n in walk_no_nested(f.node):
                if isinstance(n, ast.Attribute) and n.attr == '_unfinished_items' and isinstance(n.ctx, ast.Store):
                    ck.bad('C13-D2', f.qual, norm_text(n), 'the unfinished-item count is written outside ItemQueue', f.loc(n))
    pi = repo.func(IQ + '.put_item')
    pcfg = ctx.cfg(pi)
    inc = F.stmt_nodes_where(pcfg, lambda n: n.kind == 'stmt' and U.step_of(n.stmt) is not None and U.is_self_attr(U.step_of(n.stmt)[0], '_unfinished_items'))
    enq = F.stmt_nodes_where(pcfg, F.has_call('put_nowait', recv='self._queue'))
    okpair = len(inc) == 1 and len(enq) == 1
    if okpair:
        p1 = pcfg.find_path(pcfg.entry, lambda m: m is pcfg.exit, edge_ok=F.normal, stop=lambda m: m is inc[0])
        p2 = pcfg.find_path(pcfg.entry, lambda m: m is pcfg.exit, edge_ok=F.normal, stop=lambda m: m is enq[0])
        okpair = p1 is None and p2 is None
        c = enq[0].stmt.value if isinstance(enq[0].stmt, ast.Expr) else None
        okpair = okpair and c is not None and isinstance(c.args[0], ast.Tuple) and len(c.args[0].elts) == 3 \
            and norm_text(c.args[0].elts[0]) == 'ITEM_PRIORITY' and norm_text(c.args[0].elts[2]) == pi.params[1]
    ck.expect(okpair, 'C13-D2', pi.qual, 'count += 1 and put_nowait((ITEM_PRIORITY, n, item)) on every normal path',
              'counting and enqueueing of an item are no longer paired', pi.loc())
    pp = repo.func(PIPE + ':Producer.process')
    lps = [n for n in walk_no_nested(pp.node) if isinstance(n, ast.While)]
    if len(lps) != 1:
        raise AnalysisError('Producer.process: expected one loop')
    it = Interp(repo, pp, body=lps[0].body, rename=False)
    leaves = it.leaves()
    rows = []
    bad = []
    item_atom = None
    for o in leaves:
        t_item = [v for k, v in o.val.items() if k[0] == 'T' and 'process_one' in k[1]]
        unf = [v for k, v in o.val.items() if k[0] == 'ord' and 'unfinished_items' in (k[1] + k[2]) and '0' in (k[1], k[2])]
        eff = ' ; '.join(o.effects)
        if t_item == [True]:
            want_o = ('fall', '')
        elif t_item == [False] and unf == ['eq']:
            want_o = ('break', 'self.stop()')
        elif t_item == [False] and unf and unf[0] != 'eq':
            want_o = ('fall', 'yield from self._item_queue.wait_for_worker()')
        else:
            bad.append('%s: unexpected atoms' % fmt_val(o.val))
            continue
        if (o.kind, eff) != want_o:
            bad.append('%s -> %s [%s], reference %s [%s]' % (fmt_val(o.val), o.kind, eff, want_o[0], want_o[1]))
        rows.append(o)
    ck.expect(not bad and len(leaves) >= 3, 'C13-D2', pp.qual, 'producer loop table (%d rows): item -> next; no item & 0 unfinished -> stop; else wait for a worker' % len(leaves),
              'producer exit/wait decision differs from the reference: %s' % '; '.join(bad[:3]), pp.loc(lps[0]))
    # the count compared with 0 is read after the poll of the source returned: a value read before that suspension is stale
    poll = [st for st in lps[0].body if any(U.attr_name(c) == 'process_one' for c in U.calls(st))]
    fresh = bool(poll)
    pdefs_ = U.local_defs(pp.node)
    for t in [n for n in walk_no_nested(lps[0]) if isinstance(n, (ast.If, ast.While)) and n is not lps[0]]:
        for nm in [x for x in ast.walk(t.test) if isinstance(x, ast.Name) and x.id in pdefs_ and x.id not in pp.params]:
            for v, k, st in pdefs_[nm.id]:
                if v is not None and 'unfinished' in norm_text(v) and poll and st.lineno < poll[0].lineno:
                    fresh = False
    ck.expect(fresh, 'C13-D2', pp.qual, 'the unfinished count is read after the source was polled',
              'the number of unfinished items is read before `yield from self.process_one()` suspends: if the last item in flight '
              'finishes during the poll the producer waits for a worker that will never report, and process() hangs', pp.loc(lps[0]))
    ck.expect(norm_text(lps[0].test) == 'self._running', 'C13-D2', pp.qual, 'loop while self._running', 'producer loop condition changed', pp.loc(lps[0]))
    p1 = repo.func(PIPE + ':Producer.process_one')
    okr = any(isinstance(i, ast.If) and isinstance(i.test, ast.Name) and not i.orelse and any(isinstance(b, ast.Return) and norm_text(b.value) == i.test.id for b in i.body)
              for i in walk_no_nested(p1.node))
    ck.expect(okr, 'C13-D2', p1.qual, 'returns the item iff one was supplied', 'Producer.process_one result changed', p1.loc())

    # ------------------------------------------------------------------ D3
    fields = L.lock_fields(repo, iq)
    if not fields:
        raise AnalysisError('ItemQueue condition field not found')
    for name in ('get', 'item_done'):
        f = repo.func(IQ + '.' + name)
        fcfg = ctx.cfg(f)
        regs = [r for r in L.held_regions(fcfg, f, fields)]
        is_notify = lambda n: bool(F.node_calls(n, 'notify_all')) or bool(F.node_calls(n, 'notify'))
        p = fcfg.find_path(fcfg.entry, lambda m: m is fcfg.exit, edge_ok=F.normal, stop=is_notify)
        inside = any(is_notify(n) for r in regs for n in r.nodes)
        ck.expect(p is None and inside, 'C13-D3', f.qual, 'notify_all() under the condition on every normal path',
                  '%s can return without waking the producer (lost wake-up: the producer sleeps although a slot or result is available)' % name,
                  f.loc(), path=describe_path(p) if p else None)
    for m in iq.methods.values():
        mcfg = ctx.cfg(m)
        for r in L.held_regions(mcfg, m, fields):
            for n in r.nodes:
                for y in L.suspensions(n):
                    v = y.value
                    oks = isinstance(v, ast.Call) and isinstance(v.func, ast.Attribute) and v.func.attr == 'wait' \
                        and U.is_self_attr(v.func.value) and v.func.value.attr in fields
                    ck.expect(oks, 'C13-D3', m.qual, 'while holding self.%s: yield from %s' % (r.field, norm_text(v)[:50]),
                              'foreign suspension while holding the queue condition', m.loc(y))
            if r.form == 'explicit':
                # informational only: acquire-wait-release without finally leaks under cancellation, which no code path applies
                leaks = [p for p in r.leaks if p[-1][0] is mcfg.xexit]
                if leaks:
                    ck.remark('%s: self.%s is not released if the coroutine is cancelled inside the region (stop is cooperative; not a C13 violation)' % (m.qual, r.field))
                normal_leaks = [p for p in r.leaks if p[-1][0] is mcfg.exit]
                ck.expect(not normal_leaks, 'C13-D3', m.qual, 'self.%s released on every normal exit' % r.field,
                          'the queue condition stays locked after a normal return: producer and workers deadlock', m.loc(r.acquire_node.stmt))
    wl = [n for n in walk_no_nested(pi.node) if isinstance(n, ast.While)]
    okw = len(wl) == 1 and norm_text(wl[0].test) in ('self._queue.qsize() > 0', 'not self._queue.empty()', 'self._queue.qsize() >= 1', '0 < self._queue.qsize()') \
        and any(norm_text(c).endswith('.wait()') for b in wl[0].body for c in U.calls(b))
    ck.expect(okw, 'C13-D3', pi.qual, 'producer waits while the queue is non-empty (one item ahead)',
              'the producer no longer blocks while the queue is non-empty', pi.loc())
    wf = repo.func(IQ + '.wait_for_worker')
    ck.expect(any(norm_text(c).endswith('_worker_ready_condition.wait()') for c in U.calls(wf.node)), 'C13-D3', wf.qual,
              'wait_for_worker waits on the worker-ready condition', 'wait_for_worker changed', wf.loc())

    # ------------------------------------------------------------------ D4
    try:
        ip = repo.fold(mod, ast.Name(id='ITEM_PRIORITY', ctx=ast.Load()))
        pp_ = repo.fold(mod, ast.Name(id='POISON_PRIORITY', ctx=ast.Load()))
    except ValueError as e:
        raise AnalysisError('priorities not constant: %s' % e)
    ck.expect(isinstance(ip, int) and isinstance(pp_, int) and pp_ < ip, 'C13-D4', PIPE, 'POISON_PRIORITY %s < ITEM_PRIORITY %s' % (pp_, ip),
              'poison pills do not sort before items: a stop request waits behind queued work')
    qinit = repo.func(IQ + '.__init__')
    ck.expect(any(norm_text(s) == 'self._queue = asyncio.PriorityQueue()' for s in walk_no_nested(qinit.node) if isinstance(s, ast.Assign)),
              'C13-D4', qinit.qual, 'queue is an asyncio.PriorityQueue', 'the item queue is not a priority queue', qinit.loc())
    ppn = repo.func(IQ + '.put_poison_nowait')
    okp = any(isinstance(c.args[0], ast.Tuple) and [norm_text(e) for e in c.args[0].elts][0::2] == ['POISON_PRIORITY', 'POISON_PILL']
              for c in U.calls(ppn.node, attr='put_nowait') if c.args)
    ck.expect(okp, 'C13-D4', ppn.qual, 'put_nowait((POISON_PRIORITY, n, POISON_PILL))', 'poison pill entry changed', ppn.loc())
    # entry counter strictly increases (ties never compare items)
    for f in (pi, ppn):
        okc = any(U.step_of(s) is not None and U.is_self_attr(U.step_of(s)[0], '_entry_count') and U.step_of(s)[1] == 1
                  for s in walk_no_nested(f.node) if isinstance(s, (ast.AugAssign, ast.Assign)))
        ck.expect(okc, 'C13-D4', f.qual, 'entry counter incremented per entry', 'entry counter not incremented: equal keys would compare work items', f.loc())
    kw = repo.func(PIPE + ':Pipeline._kill_workers')
    okk = any(isinstance(lp, ast.For) and norm_text(lp.iter) in ('range(len(self._worker_tasks))', 'self._worker_tasks', 'tuple(self._worker_tasks)')
              and any(U.attr_name(c) == 'put_poison_nowait' for b in lp.body for c in U.calls(b))
              and not any(isinstance(x, (ast.If, ast.Break, ast.Continue)) for b in lp.body for x in ast.walk(b))
              for lp in walk_no_nested(kw.node))
    ck.expect(okk, 'C13-D4', kw.qual, 'one poison pill per live worker', 'stop does not enqueue one pill per live worker', kw.loc())
    cs = repo.funcs.get(PIPE + ':Pipeline.concurrency.setter')
    if cs is None:
        raise AnalysisError('Pipeline.concurrency setter not found')
    it = Interp(repo, cs, rename=False)
    bad = []
    leaves = it.leaves()
    for o in leaves:
        v = o.val
        neg = it.truth(ast.parse('new_concurrency < 0', mode='eval').body, v) if ('ord', '0', 'new_concurrency') in v else None
        eff = ' ; '.join(o.effects)
        if neg:
            if o.kind != 'raise' or 'ValueError' not in norm_text(o.value):
                bad.append('negative concurrency -> %s' % o)
            continue
        if 'self._concurrency = new_concurrency' not in eff:
            bad.append('%s: concurrency not stored' % fmt_val(v))
        running = None
        for k, val in v.items():
            if k[0] == 'ord' and 'PipelineState.running' in (k[1], k[2]) and 'self._state' in (k[1], k[2]):
                running = (val == 'eq')
        if running is False:
            if 'put_poison_nowait' in eff:
                bad.append('pills sent while not running')
            if 'self._concurrency = new_concurrency' not in eff:
                bad.append('concurrency not stored when not running')
            continue
        chg = None
        for k, val in v.items():
            if k[0] == 'ord' and 'new_concurrency - self._concurrency' in (k[1], k[2]) and '0' in (k[1], k[2]):
                chg = val if k[1] == '0' else {'lt': 'gt', 'gt': 'lt', 'eq': 'eq'}[val]   # order of 0 relative to change
        # chg: 'gt' => 0 > change (shrinking); 'lt' => growing
        n_loop = sum(1 for e in o.effects if e.startswith('loop over range(abs(new_concurrency - self._concurrency))') and 'put_poison_nowait()' in e)
        n_single = sum(1 for e in o.effects if e == 'self._item_queue.put_poison_nowait()')
        if chg == 'gt' and not (n_loop == 1 and n_single == 0):
            bad.append('shrinking by |change| does not send |change| pills: %s' % eff)
        if chg == 'lt' and not (n_single == 1 and n_loop == 0):
            bad.append('growing does not send exactly one pill: %s' % eff)
        if chg == 'eq' and (n_loop or n_single):
            bad.append('no change but pills sent')
        if running and chg is None:
            bad.append('change sign not tested: %s' % fmt_val(v))
        if running:
            cur = [val for k, val in v.items() if k == ('T', 'self._concurrency') or k == ('T', 'new_concurrency')]
            if cur == [True] and 'self._unpaused_event.set()' not in eff:
                bad.append('unpaused event not set for non-zero concurrency')
            if cur == [False] and 'self._unpaused_event.clear()' not in eff:
                bad.append('unpaused event not cleared for zero concurrency')
    ck.expect(not bad and len(leaves) >= 5, 'C13-D4', cs.qual, 'concurrency setter table (%d rows)' % len(leaves),
              'concurrency change handling differs from the reference: %s' % '; '.join(bad[:3]), cs.loc())
    loopbody_ok = False
    for lp in walk_no_nested(cs.node):
        b_ = {}
        if isinstance(lp, ast.For) and (U.like(lp.iter, 'range(abs(L_c))', b_) or U.like(lp.iter, 'range(-L_c)', b_)) and any(
                U.attr_name(c) == 'put_poison_nowait' for b in lp.body for c in U.calls(b)):
            d_ = U.local_defs(cs.node).get(b_['L_c'], [])
            loopbody_ok = any(v is not None and norm_text(v) == '%s - self._concurrency' % cs.params[1] for v, k_, s_ in d_)
    ck.expect(loopbody_ok, 'C13-D4', cs.qual, 'shrink loop sends one pill per removed worker', 'shrink loop changed', cs.loc())

    # ------------------------------------------------------------------ D5
    pw = repo.func(PIPE + ':Pipeline._process_one_worker')
    okres = False
    for lp in walk_no_nested(pw.node):
        if isinstance(lp, ast.For) and isinstance(lp.target, ast.Name):
            t = lp.target.id
            d = U.local_defs(pw.node).get(norm_text(lp.iter), [])
            from_wait = any(v is not None and 'asyncio.wait(' in norm_text(U.expand_locals(pw.node, v)) and norm_text(v).endswith('[0]') for v, k, s in d)
            first = lp.body[0] if lp.body else None
            direct = [b for b in lp.body if isinstance(b, ast.Expr) and norm_text(b.value) == '%s.result()' % t]
            if from_wait and direct and not any(isinstance(x, (ast.Break, ast.Continue, ast.Return)) for b in lp.body for x in ast.walk(b)):
                okres = True
    ck.expect(okres, 'C13-D5', pw.qual, 'task.result() for every finished worker task',
              'a worker task that died is not re-raised: the failure is swallowed and the pipeline keeps waiting', pw.loc())
    waitc = [c for c in U.calls(pw.node) if dotted(c.func) == 'asyncio.wait']
    okw = any(norm_text(U.kwarg(c, 'return_when') or ast.Constant(value=None)) == 'asyncio.FIRST_COMPLETED' and norm_text(c.args[0]) == 'self._worker_tasks' for c in waitc)
    ck.expect(okw, 'C13-D5', pw.qual, 'waits for the first finished worker of self._worker_tasks', 'worker wait changed', pw.loc())
    # the supervisor watches the workers whenever one is outstanding and parks on the un-pause event only when none is:
    # a worker that is still draining (pause = concurrency 0) would otherwise never be awaited and its failure never seen
    ppm = U.parents(pw.node)

    def _empty_norm(e):
        class Z(ast.NodeTransformer):
            def visit_Compare(self, n):
                self.generic_visit(n)
                if len(n.ops) == 1 and isinstance(n.left, ast.Call) and dotted(n.left.func) == 'len' and isinstance(n.comparators[0], ast.Constant):
                    c, op, x = n.comparators[0].value, n.ops[0], n.left.args[0]
                    if (isinstance(op, ast.Gt) and c == 0) or (isinstance(op, ast.GtE) and c == 1) or (isinstance(op, ast.NotEq) and c == 0):
                        return x
                    if (isinstance(op, ast.Eq) and c == 0) or (isinstance(op, ast.Lt) and c == 1) or (isinstance(op, ast.LtE) and c == 0):
                        return ast.UnaryOp(op=ast.Not(), operand=x)
                return n
        import copy
        return ast.fix_missing_locations(Z().visit(copy.deepcopy(e)))
    okpark = True
    waits = [c for c in U.calls(pw.node) if norm_text(c) == 'self._unpaused_event.wait()']
    for c in waits:
        g = U.guard_of(U.enclosing_stmt(c, ppm), ppm)
        okpark = okpark and g is not None and same_bool(_empty_norm(g), 'not self._worker_tasks')
    for c in waitc:
        g = U.guard_of(U.enclosing_stmt(c, ppm), ppm)
        okpark = okpark and g is not None and same_bool(_empty_norm(g), 'self._worker_tasks')
    ck.expect(okpark and bool(waits), 'C13-D5', pw.qual, 'asyncio.wait(workers) iff a worker task is outstanding; un-pause wait iff none',
              'the supervisor can park on the un-pause event while worker tasks are still running (e.g. draining after concurrency '
              'was set to 0): those tasks are never awaited, a failure in them never surfaces and process() never returns', pw.loc())
    okspawn = any(isinstance(w, ast.While) and same_bool(w.test, 'len(self._worker_tasks) < self._concurrency')
                  and any('self._worker.process()' in norm_text(b) for b in w.body) and any(U.like(b, 'self._worker_tasks.add(L_t)') for b in w.body)
                  for w in walk_no_nested(pw.node))
    ck.expect(okspawn, 'C13-D5', pw.qual, 'workers spawned while fewer than the concurrency', 'worker spawning changed', pw.loc())
    rw = repo.func(PIPE + ':Pipeline._run_producer_wrapper')
    rcfg = ctx.cfg(rw)
    trys = [n for n in walk_no_nested(rw.node) if isinstance(n, ast.Try)]
    okrw = len(trys) == 1 and any(norm_text(c) == 'self._producer.process()' for b in trys[0].body for c in U.calls(b))
    if okrw:
        t = trys[0]
        hs = [h for h in t.handlers if h.type is not None and norm_text(h.type) in ('Exception', 'BaseException')]
        okrw = len(hs) == 1 and any(norm_text(c) == 'self.stop()' for c in U.calls(hs[0])) \
            and any(norm_text(c) == 'self.stop()' for b in t.orelse for c in U.calls(b))
        if okrw:
            for hn in rcfg.nodes_of(hs[0]):
                p = rcfg.find_path(hn, lambda m: m is rcfg.exit, edge_ok=F.normal)
                okrw = okrw and p is None
            # the stop in the handler may only be skipped for StopIteration
            for i in walk_no_nested(hs[0]):
                if isinstance(i, ast.If) and any(norm_text(c) == 'self.stop()' for c in U.calls(i)):
                    okrw = okrw and norm_text(i.test) == 'not isinstance(%s, StopIteration)' % hs[0].name
    ck.expect(okrw, 'C13-D5', rw.qual, 'producer failure: stop the pipeline, then re-raise; normal end: stop',
              'a failing item source no longer stops the pipeline and surfaces as an error', rw.loc())
    sd = repo.func(PIPE + ':Pipeline._shutdown_processing')
    order = [norm_text(y.value) for y in sorted([y for y in walk_no_nested(sd.node) if isinstance(y, (ast.YieldFrom, ast.Await))], key=lambda y: y.lineno)]
    oksd = order == ['asyncio.wait(self._worker_tasks)', 'self._producer_task']
    last = sd.node.body[-1]
    oksd = oksd and norm_text(last) == 'self._state = PipelineState.stopped'
    ck.expect(oksd, 'C13-D5', sd.qual, 'await workers, then the producer task, then state = stopped',
              'shutdown order changed: %s' % order, sd.loc())

    # ------------------------------------------------------------------ D6
    pl = repo.cls(PIPE + ':Pipeline')
    trans = {}
    for m in list(pl.methods.values()) + list(pl.setters.values()):
        for s in F.assigned_attrs(m.node, '_state'):
            guard = None
            pm = U.parents(m.node)
            for a in U.ancestors(s, pm):
                if isinstance(a, ast.If) and 'self._state' in norm_text(a.test):
                    guard = norm_text(a.test)
                    break
            trans.setdefault(m.name, []).append((guard, norm_text(s.value)))
    want = {'__init__': [(None, 'PipelineState.stopped')],
            'process': [('self._state == PipelineState.stopped', 'PipelineState.running')],
            'stop': [('self._state == PipelineState.running', 'PipelineState.stopping')],
            '_shutdown_processing': [(None, 'PipelineState.stopped')]}
    def _same_trans(got, exp):
        if set(got) != set(exp):
            return False
        for m_, lst in exp.items():
            g_ = got[m_]
            if len(g_) != len(lst):
                return False
            for (gg, gv), (eg, evv) in zip(g_, lst):
                if gv != evv:
                    return False
                if (gg is None) != (eg is None):
                    return False
                if gg is not None and not same_bool(ast.parse(gg, mode='eval').body, eg):
                    return False
        return True
    ck.expect(_same_trans(trans, want), 'C13-D6', pl.qual, 'state writers: %s' % trans,
              'Pipeline._state transitions differ from stopped->running->stopping->stopped: %s' % trans)
    pr = repo.func(PIPE + ':Pipeline.process')
    wl = [w for w in walk_no_nested(pr.node) if isinstance(w, ast.While)]
    okwl = len(wl) == 1 and same_bool(wl[0].test, 'self._state == PipelineState.running') \
        and [norm_text(b) for b in wl[0].body] == ['yield from self._process_one_worker()']
    after = [norm_text(b) for b in pr.node.body if getattr(b, 'lineno', 0) > (wl[0].end_lineno if wl else 0)]
    okwl = okwl and after == ['yield from self._shutdown_processing()']
    ck.expect(okwl, 'C13-D6', pr.qual, 'loop only while running, then shut down', 'Pipeline.process loop/shutdown changed', pr.loc())
    okstart = any(isinstance(i, ast.If) and same_bool(i.test, 'self._state == PipelineState.stopped') and any(
        '_run_producer_wrapper()' in norm_text(b) for b in i.body) for i in walk_no_nested(pr.node))
    ck.expect(okstart, 'C13-D6', pr.qual, 'producer task started when leaving stopped', 'producer start changed', pr.loc())
    st = repo.func(PIPE + ':Pipeline.stop')
    okst = any(isinstance(i, ast.If) and same_bool(i.test, 'self._state == PipelineState.running')
               and {'self._producer.stop()', 'self._kill_workers()'} <= {norm_text(b.value) for b in i.body if isinstance(b, ast.Expr)}
               for i in walk_no_nested(st.node))
    ck.expect(okst, 'C13-D6', st.qual, 'stop(): producer.stop() and one pill per worker', 'Pipeline.stop no longer stops producer and workers', st.loc())
    ps = repo.func(PIPE + ':Producer.stop')
    ck.expect(any(norm_text(s) == 'self._running = False' for s in walk_no_nested(ps.node) if isinstance(s, ast.Assign)), 'C13-D6', ps.qual,
              'Producer.stop clears _running', 'Producer.stop changed', ps.loc())

    # ------------------------------------------------------------------ D7
    APP = 'wpull.application.app:Application'
    astop = repo.func(APP + '.stop')
    okas = False
    for i in walk_no_nested(astop.node):
        if isinstance(i, ast.If) and same_bool(i.test, 'self._state == ApplicationState.running'):
            for j in walk_no_nested(i):
                if isinstance(j, ast.If) and norm_text(j.test) == 'self._current_pipeline' and any(
                        norm_text(b) == 'self._current_pipeline.stop()' for b in j.body):
                    okas = True
    ck.expect(okas, 'C13-D7', astop.qual, 'stop() -> current pipeline stop()', 'Application.stop does not reach the running pipeline', astop.loc())
    sh = repo.func(APP + '.setup_signal_handlers')
    g = repo.funcs.get(sh.qual + '.<locals>.graceful_stop_callback')
    fcb = repo.funcs.get(sh.qual + '.<locals>.forceful_stop_callback')
    okg = g is not None and fcb is not None
    if okg:
        calls_g = [norm_text(c) for c in sorted(U.calls(g.node), key=lambda c: c.lineno)]
        okg = 'self.stop()' in calls_g and 'forceful_stop_callback()' in calls_g
        # forceful only when already called
        b_ = {}
        okg = okg and any(isinstance(i, ast.If) and U.like(i.test, 'L_flag', b_) and any(
            'forceful_stop_callback()' in norm_text(b) for b in i.body) and isinstance(i.body[-1], ast.Return) for i in walk_no_nested(g.node))
        okg = okg and any(U.like(s, 'L_flag = True', dict(b_)) for s in walk_no_nested(g.node) if isinstance(s, ast.Assign))
        okg = okg and any(U.like(c, 'L_loop.add_signal_handler(signal.SIGINT, graceful_stop_callback)') for c in U.calls(sh.node, attr='add_signal_handler'))
        okg = okg and any(U.like(c, 'L_loop.stop()') for c in U.calls(fcb.node))
    ck.expect(okg, 'C13-D7', sh.qual, 'first SIGINT -> Application.stop(); second -> forceful stop',
              'signal handler wiring changed', sh.loc())
    arun = repo.func(APP + '.run')
    b_ = {}
    okrun = any(U.like(s, 'self._current_pipeline = L_p', b_) for s in walk_no_nested(arun.node) if isinstance(s, ast.Assign)) \
        and any(U.like(y, 'yield from L_p.process()', dict(b_)) for y in walk_no_nested(arun.node) if isinstance(y, ast.YieldFrom))
    ck.expect(okrun, 'C13-D7', arun.qual, 'current pipeline recorded before it is processed', 'Application.run wiring changed', arun.loc())
    # a failure that ends a pipeline reaches the exit status on every path through the handler (an `expected` error is still an error)
    acfg = ctx.cfg(arun)
    for t in [t for t in walk_no_nested(arun.node) if isinstance(t, ast.Try) and any(U.attr_name(c) == 'process' for b in t.body for c in U.calls(b))]:
        for h in t.handlers:
            first = [n for n in acfg.nodes if n.stmt is h.body[0] and n.kind != 'join']
            upd = [n for n in acfg.stmt_nodes() if any(U.attr_name(c) == '_update_exit_code_from_error' for c in F.node_calls(n))]
            inside = {id(x) for b in h.body for x in ast.walk(b)}
            leaves = lambda x: x.stmt is None or id(x.stmt) not in inside
            reraises = lambda x: x.kind in ('raise',) or (x.stmt is not None and isinstance(x.stmt, ast.Raise))
            p = acfg.find_path(first[0], leaves, edge_ok=F.normal, stop=lambda x: x in upd or reraises(x)) if first else ()
            ck.expect(first and p is None, 'C13-D5', arun.qual, 'every path through the failure handler records the exit status',
                      'a failure that ends a pipeline can pass the handler without _update_exit_code_from_error: the run stops early and '
                      'reports success', arun.loc(h), path=describe_path(p) if p else None)
    # the pipelines that a stop request lets the application skip: `X.skippable = True` belongs to the pipeline built just before it
    bp = repo.func('wpull.application.builder:Builder._build_pipelines')
    body = bp.node.body
    n_skip = 0
    for i, st in enumerate(body):
        if isinstance(st, ast.Assign) and len(st.targets) == 1 and isinstance(st.targets[0], ast.Attribute) and st.targets[0].attr == 'skippable' \
                and isinstance(st.targets[0].value, ast.Name):
            n_skip += 1
            prev = body[i - 1] if i else None
            okprev = isinstance(prev, ast.Assign) and len(prev.targets) == 1 and isinstance(prev.targets[0], ast.Name) \
                and prev.targets[0].id == st.targets[0].value.id and isinstance(prev.value, ast.Call) and norm_text(prev.value.func).endswith('Pipeline')
            ck.expect(okprev, 'C13-D7', bp.qual, '%s.skippable set right after %s is built' % (st.targets[0].value.id, st.targets[0].value.id),
                      'the skippable mark is put on `%s`, not on the pipeline constructed just before it: a pipeline meant to be skipped after a '
                      'stop request (download clean-up, link conversion) still runs, or one that must run is skipped' % st.targets[0].value.id, bp.loc(st))
    ck.expect(n_skip >= 2, 'C13-D7', bp.qual, 'skippable pipelines marked (%d)' % n_skip, 'fewer than two pipelines are marked skippable', bp.loc())
    # exceptions the producer wrapper and Application.run notice are `Exception`s: a repository exception deriving from BaseException
    # passes both handlers, the producer dies without stop() and process() never returns
    for ci in repo.classes.values():
        if ci.module.name.startswith('wpull.') and not ci.module.name.startswith('wpull.thirdparty') and 'BaseException' in repo.external_bases(ci):
            ck.bad('C13-D5', ci.qual, 'class %s(BaseException)' % ci.name,
                   'raised by a hook or an item source this exception is seen neither by `except Exception` in Pipeline._run_producer_wrapper '
                   '(no stop(), the workers wait for ever) nor by Application.run (no exit status)', ci.module.path)

    _d8_parking(ctx)


def _state_members(repo):
    cls = repo.cls(PIPE + ':PipelineState')
    out = [t.id for st in cls.node.body if isinstance(st, ast.Assign) for t in st.targets if isinstance(t, ast.Name)]
    if 'running' not in out or len(out) < 2:
        raise AnalysisError('PipelineState: members not recognised')
    return out


def _eval_state_test(test, member):
    """Truth of a test that only looks at self._state, when the state is `member`; None when it looks at anything else."""
    class T(ast.NodeTransformer):
        def visit_Attribute(self, n):
            if U.is_self_attr(n, '_state'):
                return ast.copy_location(ast.Constant(member), n)
            if isinstance(n.value, ast.Name) and n.value.id == 'PipelineState':
                return ast.copy_location(ast.Constant(n.attr), n)
            return n
    import copy
    e = ast.Expression(T().visit(copy.deepcopy(test)))
    ast.fix_missing_locations(e)
    if any(isinstance(x, (ast.Name, ast.Attribute, ast.Call)) for x in ast.walk(e)):
        return None
    try:
        return bool(eval(compile(e, '<state-test>', 'eval'), {'__builtins__': {}}))
    except Exception:
        return None



def _d8_parking(ctx):
    repo, ck = ctx.repo, ctx.check
    pl = repo.cls(PIPE + ':Pipeline')
    # the event(s) the supervisor waits on
    events = set()
    for m in pl.methods.values():
        for c in U.calls(m.node):
            if isinstance(c.func, ast.Attribute) and c.func.attr == 'wait' and U.is_self_attr(c.func.value):
                events.add(c.func.value.attr)
    init = pl.methods.get('__init__')
    events = {e for e in events if init is not None and any(
        isinstance(n, ast.Assign) and any(U.is_self_attr(t, e) for t in n.targets) and isinstance(n.value, ast.Call) and (dotted(n.value.func) or '').endswith('Event')
        for n in walk_no_nested(init.node))}
    if not events:
        raise AnalysisError('Pipeline: no asyncio.Event the supervisor waits on')
    ev = sorted(events)[0]
    # (a) writers of a non-running state
    n_writers = 0
    for m in pl.methods.values():
        for st in F.assigned_attrs(m.node, '_state'):
            if not isinstance(st, ast.Assign) or norm_text(st.value) in ('PipelineState.running',):
                continue
            if m.name in ('__init__',):
                continue
            if norm_text(st.value) == 'PipelineState.stopped':
                continue        # written by the supervisor itself after its loop
            n_writers += 1
            cfg = ctx.cfg(m)
            nodes = [n for n in cfg.stmt_nodes() if n.stmt is st]
            okset = bool(nodes)
            for n in nodes:
                p = cfg.find_path(n, lambda x: x is cfg.exit, edge_ok=F.normal, stop=lambda x: any(
                    isinstance(c.func, ast.Attribute) and c.func.attr == 'set' and U.is_self_attr(c.func.value, ev) for c in F.node_calls(x)))
                okset = okset and p is None
            ck.expect(okset, 'C13-D8', m.qual, '%s followed by self.%s.set() on every path' % (norm_text(st), ev),
                      'a stop (or a producer failure) while the pipeline is paused and drained leaves the supervisor parked on %s.wait(): '
                      'process() never returns' % ev, m.loc(st))
    if n_writers == 0:
        ck.bad('C13-D8', pl.qual, 'a method stores PipelineState.stopping', 'no stop transition found', pl.module.path)
    # (b) every set() of the event
    for m in pl.methods.values():
        pm = U.parents(m.node)
        for c in U.calls(m.node):
            if isinstance(c.func, ast.Attribute) and c.func.attr == 'set' and U.is_self_attr(c.func.value, ev):
                g = U.guard_of(U.enclosing_stmt(c, pm), pm)
                under_conc = g is not None and any(
                    same_bool(part, 'self._concurrency') or same_bool(part, 'self._concurrency > 0')
                    for part in (g.values if isinstance(g, ast.BoolOp) and isinstance(g.op, ast.And) else [g]))
                with_stop = any(isinstance(st, ast.Assign) and norm_text(st.value) != 'PipelineState.running' and st.lineno < c.lineno
                                for st in F.assigned_attrs(m.node, '_state'))
                ck.expect(under_conc or with_stop, 'C13-D8', m.qual, 'self.%s.set() only under a non-zero concurrency or with a stop' % ev,
                          'the un-pause event is set although the concurrency may be 0: with no worker to wait for, the supervisor loop '
                          'calls wait() on a set event over and over without ever suspending, and the event loop is blocked', m.loc(c))
    # (b') a pipeline that is started (again) with concurrency 0 must find the event cleared: stop() leaves it set
    for m in pl.methods.values():
        for st in F.assigned_attrs(m.node, '_state'):
            if not (isinstance(st, ast.Assign) and norm_text(st.value) == 'PipelineState.running'):
                continue
            cfg = ctx.cfg(m)
            nodes = [n for n in cfg.stmt_nodes() if n.stmt is st]

            def conc_false(a, b, k):
                if not F.normal(a, b, k):
                    return False
                if a.kind == 'if' and k in ('T', 'F'):
                    t = a.stmt.test
                    neg = False
                    while isinstance(t, ast.UnaryOp) and isinstance(t.op, ast.Not):
                        neg, t = not neg, t.operand
                    if same_bool(t, 'self._concurrency') or same_bool(t, 'self._concurrency > 0'):
                        truth = neg            # value of the whole test when the concurrency is 0
                        return (k == 'T') == truth
                return True
            okclr = bool(nodes)
            for n in nodes:
                nxt = [w for w in walk_no_nested(m.node) if isinstance(w, ast.While)]
                goal = [x for x in cfg.nodes if x.kind == 'while'] or [cfg.exit]
                p = cfg.find_path(n, lambda x: x in goal or x is cfg.exit, edge_ok=conc_false, stop=lambda x: any(
                    isinstance(c.func, ast.Attribute) and c.func.attr == 'clear' and U.is_self_attr(c.func.value, ev) for c in F.node_calls(x)))
                okclr = okclr and p is None
            ck.expect(okclr, 'C13-D8', m.qual, 'started with concurrency 0 -> self.%s.clear() before the supervisor loop' % ev,
                      'a pipeline that is run again after a stop (which leaves the un-pause event set) with the concurrency at 0 spins in its '
                      'supervisor loop without suspending', m.loc(st))
    # (b'') a stop issued before the producer task has made its first step is not lost: Producer.process() sets its running flag
    #       itself, so the wrapper that starts it must look at the pipeline state first
    prod = repo.cls(PIPE + ':Producer')
    pproc = prod.methods.get('process')
    sets_running = pproc is not None and any(isinstance(st, ast.Assign) and isinstance(st.value, ast.Constant) and st.value.value is True
                                             for st in F.assigned_attrs(pproc.node, '_running'))
    for m in pl.methods.values():
        cfg = ctx.cfg(m)
        starts = [n for n in cfg.stmt_nodes() if any(norm_text(c) == 'self._producer.process()' for c in F.node_calls(n))]
        for n in starts:
            # every state other than `running` must be turned away before the producer is started: the tests on self._state met
            # on the way are evaluated for each other member of the state enumeration
            bad = None
            for member in (_state_members(repo) if sets_running else ()):
                if member == 'running':
                    continue

                def ok(a, b, k, member=member):
                    if not F.normal(a, b, k):
                        return False
                    if a.kind == 'if' and k in ('T', 'F'):
                        v = _eval_state_test(a.stmt.test, member)
                        if v is not None:
                            return v == (k == 'T')
                    return True
                p = cfg.find_path(cfg.entry, lambda x, n=n: x is n, edge_ok=ok)
                if p is not None:
                    bad = member
                    break
            ck.expect(bad is None, 'C13-D8', m.qual, 'the producer is started only while the pipeline is still running',
                      'stop() in the same event-loop turn in which process() was started is lost (state `%s` reaches the start): Producer.stop() runs '
                      'before Producer.process() sets its running flag, the producer then runs on with no worker left and process() hangs' % bad, m.loc(n.stmt))
    # (b''') a worker that fails while the pipeline is stopping is not forgotten: wherever the worker tasks are awaited their
    #        results are retrieved (asyncio.wait alone never raises a task's exception)
    for m in pl.methods.values():
        for c in U.calls(m.node):
            if dotted(c.func) == 'asyncio.wait' and c.args and norm_text(c.args[0]) == 'self._worker_tasks':
                retrieved = any(isinstance(x, ast.Call) and isinstance(x.func, ast.Attribute) and x.func.attr in ('result', 'exception')
                                for x in walk_no_nested(m.node)) or any(dotted(x.func) == 'asyncio.gather' for x in U.calls(m.node))
                ck.expect(retrieved, 'C13-D8', m.qual, 'results of the awaited worker tasks are retrieved',
                          'a task that fails after stop() was requested is only waited for, its exception is never retrieved: the failure does '
                          'not surface from process() (and, its poison pill untaken, the producer can stay blocked behind a queued item)', m.loc(c))
    # (d) item tasks and pipeline helpers that take a semaphore by hand give it back
    from .common import acquire_release_pairing_lint
    n_pairs = acquire_release_pairing_lint(ctx, 'C13-D8', ('wpull.application.tasks', 'wpull.pipeline', 'wpull.application.app'))
    if n_pairs < 1:
        raise AnalysisError('expected the hand-made acquire/release pairs of the pipeline and of ResmonSleepTask (found %d)' % n_pairs)
    # (c) the producer at shutdown
    sd = [m for m in pl.methods.values() if any(norm_text(y) == 'yield from self._producer_task' for y in walk_no_nested(m.node) if isinstance(y, ast.YieldFrom))]
    if len(sd) != 1:
        raise AnalysisError('Pipeline: expected one place that awaits the producer task')
    m = sd[0]
    cfg = ctx.cfg(m)
    aw = [n for n in cfg.stmt_nodes() if any(isinstance(y, ast.YieldFrom) and norm_text(y) == 'yield from self._producer_task' for y in walk_no_nested(n.stmt))]

    def releases(n):
        for c in F.node_calls(n):
            t = norm_text(c)
            if t.startswith('self._producer_task.cancel(') or (U.is_self_attr(getattr(c.func, 'value', None), '_item_queue')
                                                                 and U.attr_name(c) in ('clear', 'drain', 'discard_items', 'release_producer', 'close')):
                return True
        return False
    p = cfg.find_path(cfg.entry, lambda x: x in aw, edge_ok=F.normal, stop=releases)
    ck.expect(p is None, 'C13-D8', m.qual, 'a blocked producer is released before `yield from self._producer_task`',
              'stop() while the producer waits in put_item() behind a queued item: the workers leave through their poison pills, the '
              'queued item is never taken, put_item never returns and process() hangs awaiting the producer', m.loc(aw[0].stmt) if aw else m.loc())
